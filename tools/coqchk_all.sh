#!/bin/sh
# independent re-check (coqchk -o) of every property file and its dependency cone; prints the axiom summary
cd "$(dirname "$0")/../coq"
mods=$(ls props/C*.v | sed 's#/#.#; s#\.v$##; s#^#Cobald.#' | tr '\n' ' ')
timeout 3600 coqchk -silent -o -R . Cobald $mods 2>&1 | sed -n '/CONTEXT SUMMARY/,$p'
