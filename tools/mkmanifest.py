#!/usr/bin/env python3
"""Assemble MANIFEST.json from manifest.d/*.json fragments (one per claimed property)."""
import glob, json, os
HERE = os.path.dirname(os.path.dirname(os.path.abspath(__file__)))
props = [json.loads(l) for l in open(os.path.join(HERE, "properties.jsonl"))]
frags = {}
for p in sorted(glob.glob(os.path.join(HERE, "manifest.d", "C*.json"))):
    f = json.load(open(p))
    frags[f["property_id"]] = f
base = json.load(open(os.path.join(HERE, "manifest.d", "_base.json")))
checks, na = [], []
for p in props:
    pid = p["id"]
    if pid in frags and not frags[pid].get("not_applicable"):
        f = dict(frags[pid])
        f.setdefault("quick_cmd", "./check %s --tier quick" % pid)
        f.setdefault("thorough_cmd", "./check %s --tier thorough" % pid)
        f.setdefault("evidence_file", "/verif/evidence/%s.json" % pid)
        f.setdefault("replay_cmd_template", "./check %s --replay {path}" % pid)
        f.setdefault("engine", "coq-proof+correspondence")
        checks.append(f)
    else:
        reason = frags.get(pid, {}).get("reason", "no check built yet for this property in this round (planned: DESIGN.md section 5)")
        na.append({"property_id": pid, "reason": reason})
base["checks"] = checks
base["not_applicable"] = na
json.dump(base, open(os.path.join(HERE, "MANIFEST.json"), "w"), indent=1)
print("MANIFEST.json: %d checks, %d not_applicable" % (len(checks), len(na)))
