#!/bin/sh
# regenerate every coq/gen/*.v file from /repo's current sources (translator ties)
cd "$(dirname "$0")/.."
mkdir -p coq/gen build
PYTHONPATH=/repo/src PYTHONHASHSEED=0 /venv/bin/python - <<'PY'
import sys, importlib, traceback
sys.path.insert(0, '.')
from harness import common
common.use_repo_sources()
try:
    from py2coq import units
    print("py2coq", units.regen(common.REPO, "coq/gen"))
except Exception:
    traceback.print_exc()
for name in ("c13", "c18"):
    try:
        mod = importlib.import_module("harness." + name)
        if hasattr(mod, "regen"):
            mod.regen(None)
            print("regen", name, "ok")
    except Exception:
        traceback.print_exc()
        print("regen", name, "FAILED")
PY
