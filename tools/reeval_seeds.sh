#!/bin/sh
# re-run our checks against every kept seeded change (seeded/*/patch.diff) in ONE scratch worktree;
# prints one line per seed.  usage: tools/reeval_seeds.sh [quick|thorough]
TIER=${1:-quick}
cd "$(dirname "$0")/.."
WT=/tmp/seed_all
git -C /repo worktree remove --force $WT 2>/dev/null
git -C /repo worktree add -q --detach $WT HEAD || exit 2
for d in seeded/${ONLY:-*}_[mnkqvw]*/; do
  name=$(basename $d); pid=${name%%_*}
  ( cd $WT && git checkout -q -- . && git apply /verif/$d/patch.diff ) || { echo "$name APPLY-FAILED"; continue; }
  t0=$(date +%s)
  VERIF_REPO=$WT VERIF_NO_COQCHK=1 ./check $pid --tier $TIER > build/reeval_$name.log 2>&1
  rc=$?
  t1=$(date +%s)
  echo "$name rc=$rc wall=$((t1-t0))s $(grep -c '^VIOLATION' build/reeval_$name.log) violation-lines $(grep -c 'no-failing-input-found' build/reeval_$name.log) without-input"
  for f in $(grep '^VIOLATION' build/reeval_$name.log | sed 's/.*replay=\([^ ]*\).*/\1/'); do rm -f $f; done
done
( cd $WT && git checkout -q -- . )
git -C /repo worktree remove --force $WT
