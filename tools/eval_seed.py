#!/usr/bin/env python3
"""Confirm an independently seeded change and run our check against it.
usage: tools/eval_seed.py C06 m1 [extra property ids to also run]
Reads /tmp/seed_<pid>/_seed/<mK>/{patch.diff,demo.py,meta.json}; confirms in that scratch worktree that
(1) the test suite passes with the patch, (2) the demo fails with it, (3) the demo passes without it;
then runs ./check <pid> with VERIF_REPO pointing at the patched scratch worktree and records the outcome
in /verif/seeded/<pid>_<mK>/meta.json."""
import json, os, shutil, subprocess, sys, time

pid, mk = sys.argv[1], sys.argv[2]
extra = sys.argv[3:]
wt = "/tmp/seed_%s" % pid
sub = "_seed6" if mk.startswith("w") else "_seed5" if mk.startswith("v") else "_seed4" if mk.startswith("q") else "_seed3" if mk.startswith("k") else "_seed2" if mk.startswith("n") else "_seed"
src = os.path.join(wt, sub, mk)
dst = os.path.join("/verif/seeded", "%s_%s" % (pid, mk))
os.makedirs(dst, exist_ok=True)
for fn in ("patch.diff", "demo.py", "meta.json"):
    if not (fn == "meta.json" and os.environ.get("EVAL_CONFIRM_ONLY")):
        shutil.copy(os.path.join(src, fn), os.path.join(dst, fn))
env = dict(os.environ, PYTHONPATH=os.path.join(wt, "src"), PYTHONDONTWRITEBYTECODE="1")


def sh(cmd, timeout=600, **kw):
    p = subprocess.run(cmd, shell=True, cwd=wt, env=env, stdout=subprocess.PIPE, stderr=subprocess.STDOUT, text=True, timeout=timeout, **kw)
    return p.returncode, p.stdout


def demo():
    rcs = []
    for _ in range(2):
        try:
            rc, out = sh("/venv/bin/python %s/%s/demo.py" % (sub, mk), timeout=180)
        except subprocess.TimeoutExpired:
            rc, out = 124, "timeout"
        rcs.append(rc)
    return rcs, out[-400:]


res = {"property": pid, "id": mk}
sh("git checkout -- . ; git clean -fdq -e _seed -e _seed2 -e _seed3 -e _seed4 -e _seed5 -e _seed6")
rc, out = sh("git apply --check %s/%s/patch.diff && git apply %s/%s/patch.diff && git diff --stat" % (sub, mk, sub, mk))
res["applies"] = rc == 0
res["diffstat"] = out.strip().splitlines()[-1] if out.strip() else ""
rc, out = sh("/venv/bin/python -m pytest -q -p no:cacheprovider -x 2>&1 | tail -2", timeout=900)
res["tests_pass_with_patch"] = ("85 passed" in out)
res["tests_tail"] = out.strip()[-120:]
rcs, tail = demo()
res["demo_fails_with_patch"] = all(r != 0 for r in rcs)
res["demo_with_patch"] = {"rcs": rcs, "tail": tail}
# our check against the patched tree
checks = {}
if os.environ.get("EVAL_CONFIRM_ONLY"):
    # redo the confirmation only (tests / demo); keep the recorded outcome of our checks
    prev = json.load(open(os.path.join(dst, "meta.json"))).get("evaluation", {})
    checks = prev.get("our_checks", {})
    extra = []
for cid in ([] if os.environ.get("EVAL_CONFIRM_ONLY") else [pid] + extra):
    t0 = time.time()
    p = subprocess.run("./check %s" % cid, shell=True, cwd="/verif", env=dict(os.environ, VERIF_REPO=wt),
                       stdout=subprocess.PIPE, stderr=subprocess.STDOUT, text=True)
    lines = [l for l in p.stdout.splitlines() if l.startswith(("VIOLATION", "KNOWN-FINDING"))]
    viol = [l for l in lines if l.startswith("VIOLATION")]
    replay_what = []
    for l in viol:
        rp = l.split("replay=")[1].split()[0]
        try:
            d = json.load(open(rp))
            replay_what.append(str(d.get("what"))[:300])
            shutil.copy(rp, os.path.join(dst, "replay_%s_%s" % (cid, os.path.basename(rp))))
            os.remove(rp)
        except Exception as e:
            replay_what.append("?" + str(e))
    checks[cid] = {"rc": p.returncode, "wall_s": round(time.time() - t0), "violation_lines": viol, "what": replay_what}
res["our_checks"] = checks
sh("git checkout -- . ; git clean -fdq -e _seed -e _seed2 -e _seed3 -e _seed4 -e _seed5 -e _seed6")
rcs, tail = demo()
res["demo_passes_without_patch"] = all(r == 0 for r in rcs)
res["demo_without_patch"] = {"rcs": rcs, "tail": tail}
res["confirmed"] = bool(res["applies"] and res["tests_pass_with_patch"] and res["demo_fails_with_patch"] and res["demo_passes_without_patch"])
res["detected"] = checks[pid]["rc"] != 0 and any("VIOLATION" in l for l in checks[pid]["violation_lines"])
res["detected_with_input"] = res["detected"] and not all("no-failing-input-found" in l for l in checks[pid]["violation_lines"])
meta = json.load(open(os.path.join(dst, "meta.json")))
meta["evaluation"] = res
json.dump(meta, open(os.path.join(dst, "meta.json"), "w"), indent=1)
print(json.dumps({k: res[k] for k in ("property", "id", "confirmed", "detected", "detected_with_input")}), checks[pid]["what"][:2], checks[pid]["wall_s"])
if not res["confirmed"]:
    print("  NOT CONFIRMED:", {k: res[k] for k in ("applies", "tests_pass_with_patch", "demo_fails_with_patch", "demo_passes_without_patch")}, res["tests_tail"], res["demo_with_patch"], res["demo_without_patch"])
