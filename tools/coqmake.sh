#!/bin/sh
# serialised build of Coq targets (relative to coq/):  tools/coqmake.sh props/C07.vo corr/C07Corr.vo
cd "$(dirname "$0")/.."
mkdir -p build
exec flock build/.coq.lock sh -c 'tools/mkcoqproject.sh && cd coq && timeout 900 make -j8 "$@"' sh "$@"
