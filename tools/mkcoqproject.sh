#!/bin/sh
# (re)generate coq/_CoqProject + Makefile from the .v files present; no-op when unchanged
set -e
cd "$(dirname "$0")/../coq"
{
  echo "-R . Cobald"
  echo "-arg -w -arg -notation-overridden,-deprecated-hint-without-locality,-deprecated-instance-without-locality,-ambiguous-paths"
  find kit model proofs props corr gen -name '*.v' 2>/dev/null | LC_ALL=C sort
} > _CoqProject.new
if [ ! -f _CoqProject ] || ! cmp -s _CoqProject _CoqProject.new || [ ! -f Makefile ]; then
  mv _CoqProject.new _CoqProject
  coq_makefile -f _CoqProject -o Makefile >/dev/null
else
  rm -f _CoqProject.new
fi
