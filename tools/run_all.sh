#!/bin/sh
# run every registered quick (or $2=thorough) check once with seed $1; print a summary line per property
cd "$(dirname "$0")/.."
SEED=${1:-1}; TIER=${2:-quick}
for id in $(python3 -c "import json;print(' '.join(c['property_id'] for c in json.load(open('MANIFEST.json'))['checks']))"); do
  t0=$(date +%s)
  VERIF_SEED=$SEED VERIF_TIER=$TIER ./check $id --tier $TIER > build/runall_$id.log 2>&1
  rc=$?
  t1=$(date +%s)
  echo "$id seed=$SEED tier=$TIER rc=$rc wall=$((t1-t0))s $(grep -c '^VIOLATION' build/runall_$id.log) violations $(grep -c '^KNOWN-FINDING' build/runall_$id.log) known"
  grep '^VIOLATION' build/runall_$id.log
done
