"""C17 — monitoring output (InfluxDB line protocol round trip, JSON merge):
generators, implementation runner, python oracle (independent reference decoder), Coq case printer."""
import json
import logging
import math
from fractions import Fraction as F

from .common import cQ, cZ, clist, cstr, cbool, copt

ID = "C17"
COQ_TARGETS = ["props/C17.vo"]
CORR_TARGETS = ["corr/C17Corr.vo"]
CORR_PRELUDE = "From Cobald Require Import kit.Corr model.LineProtocol corr.C17Corr."
CORR_CHECK = "C17Corr.check"
CORR_TYPE = "C17Corr.case"
N_QUICK, N_THOROUGH = 2400, 16000
RULE = ("monitor records (measurement name, 0-6 data items with string/int/float/bool values, record time) "
        "x formatter configurations (tags None / whitelist / default-dict with string and non-string defaults, "
        "resolution None or 1-3600) formatted by the real LineProtocolFormatter on real logging.LogRecords; "
        "strings over an alphabet with every protocol-special character (, = space \" ' \\), digits, letters and "
        "multi-byte characters, specials at start/end/doubled; ~12% malformed stream (line breaks, trailing "
        "backslashes, '%' names, attribute-name keys, None values, resolution 0, nan/inf, no fields); one case "
        "in five is a JsonFormatter case with random JSON payloads/defaults/datefmt. "
        "non-trivial = in the property's domain and (>= 2 data items or a special character somewhere)")
TRUSTED_BASE = [
    "Coq 8.16.1 kernel + vm_compute (bytecode VM) for evaluating the model and the reference decoder on the cases",
    "harness/c17.py: construction of logging.LogRecord objects, canonicalisation of observations, python twin of lp_parse",
    "model/LineProtocol.v is hand-written; tied to src/cobald/monitor/format_line.py / format_json.py by the correspondence run; "
    "the merge order of JsonFormatter.format and the _add_time condition additionally by translation (py2coq/units.py:gen_monitor, "
    "trusted, fail-closed; gen/Gen_monitor.v regenerated on every run, kit/JsonIR.v, props/C17_tie.v); format_line.py by "
    "correspondence only",
    "lp_parse is this framework's reading of the InfluxDB line-protocol reference, not InfluxDB's own parser",
    "CPython: str(int)/repr(float) printing, float(repr(x)) == x, json.dumps/json.loads, logging.Formatter.formatTime",
]
ASSUMPTIONS = [
    "ideal arithmetic for the timestamp: created // res * res * 1e9 is exact in binary64 when |floor(created/res)*res| < 2^32 (cases stay below); larger times are rounded by the real code and not modelled",
    "domain exclusions (the protocol cannot express them): line breaks, trailing backslash in name/key/tag value, '%' in the name, record keys colliding with LogRecord attribute names, empty name/key/tag value, a name starting with '#', records without any field, non-finite floats, None values",
    "float values enter the model as the token python prints (repr); int and float are both line-protocol numbers (no 'i' suffix)",
    "JSON: values are opaque (canonical json.dumps text); json.dumps/json.loads themselves are trusted",
]

RECORD_ATTRIBUTES_SPEC = (
    "args", "asctime", "created", "exc_info", "exc_text", "filename", "funcName", "levelname", "levelno",
    "lineno", "message", "module", "msecs", "msg", "name", "pathname", "process", "processName",
    "relativeCreated", "stack_info", "thread", "threadName",
)

SPECIAL = [",", "=", " ", '"', "'", "\\"]
LETTERS = list("abzAZ_tTfF")
DIGITS = list("0195")
MULTI = ["\u00e9", "\u00df", "\u20ac", "\u26a1", "\U0001f680", "\u0100", "\U0010ffff", "\u00a0", "\u2028"]
ODD = ["%", "#", "\n", "\t", "\r", ":", "e", "-", ".", "+", "i"]


# ------------------------------------------------------------------ values
def v_py(v):
    t = v[0]
    if t == "s":
        return v[1]
    if t == "b":
        return bool(v[1])
    if t == "i":
        return int(v[1])
    if t == "f":
        return float.fromhex(v[1])
    return None


def v_text(v):
    """what the property calls 'rendered as text' (python's str())"""
    return str(v_py(v))


def v_finite(v):
    return v[0] != "f" or math.isfinite(float.fromhex(v[1]))


# ------------------------------------------------------------------ generation
def gen_str(rng, role, malformed=False):
    n = rng.choice([1, 1, 2, 2, 3, 3, 4, 5, 6, 8]) if role != "strval" else rng.choice([0, 1, 2, 3, 4, 6, 9])
    pools = [SPECIAL] * 4 + [LETTERS] * 3 + [DIGITS] + [MULTI] * 2 + ([ODD] * 2 if malformed else [["%", "#", ":", "e", "-", ".", "\t"]])
    chars = [rng.choice(rng.choice(pools)) for _ in range(n)]
    r = rng.random()
    if r < 0.15:
        chars.insert(0, rng.choice(SPECIAL))
    elif r < 0.30:
        chars.append(rng.choice(SPECIAL))
    elif r < 0.45 and chars:
        i = rng.randrange(len(chars))
        c = rng.choice(SPECIAL)
        chars[i:i] = [c, c]
    elif r < 0.52:
        chars.append("\\")
        chars.append(rng.choice([",", "=", " ", '"', "\\"]))
    s = "".join(chars)
    if malformed:
        return s
    s = s.replace("\n", "n")
    if role == "name":
        s = s.replace("%", "p")
        if s.startswith("#"):
            s = "h" + s
    if role != "strval":
        if s.endswith("\\"):
            s += rng.choice(["q", ",", "é", " ", "="])
        if not s:
            s = rng.choice(LETTERS)
    return s


def gen_value(rng, malformed=False, tagpos=False):
    r = rng.random()
    if r < 0.42:
        return ["s", gen_str(rng, "tagval" if tagpos else "strval", malformed)]
    if r < 0.57:
        return ["b", rng.random() < 0.5]
    if r < 0.78:
        return ["i", rng.choice([0, 1, -1, 7, 298, -45, 10 ** 6, 2 ** 53 + 1, -2 ** 63, 2 ** 64, rng.randint(-10 ** 12, 10 ** 12)])]
    if malformed and rng.random() < 0.3:
        return rng.choice([["f", "inf"], ["f", "-inf"], ["f", "nan"], ["n"]])
    x = rng.choice([0.0, -0.0, 0.45, 298.0, 1e-7, 1.5e-7, 1e16, 1e15, -2.5, 1e300, 5e-324, 1 / 3, 123456789.125,
                    rng.randint(-2 ** 20, 2 ** 20) / 1024.0, rng.random() * 10 ** rng.randint(-8, 20)])
    return ["f", float(x).hex()]


def gen_line_case(rng, malformed):
    def bad(p):
        return malformed and rng.random() < p

    nd = rng.choice([1, 1, 2, 2, 3, 3, 4, 5, 6]) if not bad(0.1) else 0
    data = {}
    for _ in range(nd):
        k = gen_str(rng, "key", bad(0.3))
        if bad(0.25) or rng.random() < 0.02:
            k = rng.choice(RECORD_ATTRIBUTES_SPEC)
        data[k] = gen_value(rng, bad(0.4))
    keys = list(data)
    mode = rng.random()
    if mode < 0.2:
        tags = None
    elif mode < 0.5:
        ks = [k for k in keys if rng.random() < 0.4] + [gen_str(rng, "key") for _ in range(rng.choice([0, 0, 1, 2]))]
        rng.shuffle(ks)
        tags = {"iter": ks}
    else:
        dk = [k for k in keys if rng.random() < 0.35] + [gen_str(rng, "key", bad(0.1)) for _ in range(rng.choice([0, 1, 1, 2, 3]))]
        rng.shuffle(dk)
        d = {}
        for k in dk:
            d[k] = gen_value(rng, bad(0.2), tagpos=True)
        tags = {"map": [[k, v] for k, v in d.items()]}
    wl = set(tags["iter"]) if tags and "iter" in tags else set(k for k, _ in tags["map"]) if tags else set()
    if not malformed:
        # keep the case in the property's domain: tag values non-empty without trailing backslash,
        # no attribute-name collision outside the whitelist, at least one field
        for k in keys:
            if k in wl and data[k][0] == "s":
                data[k] = ["s", gen_str(rng, "tagval")]
            if k not in wl and k in RECORD_ATTRIBUTES_SPEC:
                data[k + "_"] = data.pop(k)
        if all(k in wl for k in data):
            data[gen_str(rng, "key") + "f"] = gen_value(rng)
    res = None if rng.random() < 0.3 else rng.choice([1, 1, 2, 10, 60, 3600, rng.randint(1, 3600), rng.randint(1, 3600)])
    if bad(0.1):
        res = 0
    base = rng.choice([0, 1, 59, 3600, 86400, 1700000000, 2 ** 31, 2 ** 32 - 1, rng.randrange(0, 2 ** 32), rng.randrange(0, 2 ** 32)])
    if res and rng.random() < 0.3:
        base = base // res * res + rng.choice([0, 0, res - 1, -1 if base >= res else 0])
    frac = rng.choice([0, 0, 1, 512, 1023, rng.randrange(1024)])
    created = F(base) + F(frac, 1024)
    if rng.random() < 0.04:
        created = -created / 1000
    if created >= 2 ** 32:
        created = F(2 ** 32) - F(1, 1024)
    return {"kind": "line", "tags": tags, "res": res, "name": gen_str(rng, "name", bad(0.25)),
            "data": [[k, v] for k, v in data.items()], "created": "%d/%d" % (created.numerator, created.denominator)}


def gen_json_value(rng, depth=0):
    r = rng.random()
    if r < 0.25:
        return gen_str(rng, "strval", rng.random() < 0.2)
    if r < 0.45:
        return rng.choice([0, 1, -7, 298, 2 ** 60])
    if r < 0.6:
        return rng.choice([0.45, -2.5, 1e16, 1.0])
    if r < 0.7:
        return rng.choice([True, False, None])
    if depth >= 2:
        return rng.choice([[], {}])
    if r < 0.85:
        return [gen_json_value(rng, depth + 1) for _ in range(rng.randint(0, 3))]
    return {gen_str(rng, "key", rng.random() < 0.2): gen_json_value(rng, depth + 1) for _ in range(rng.randint(0, 3))}


def gen_json_case(rng):
    pool = ["message", "time", "a", "b", "test"] + [gen_str(rng, "key", rng.random() < 0.2) for _ in range(3)]
    data = {rng.choice(pool): gen_json_value(rng) for _ in range(rng.choice([0, 1, 2, 3, 5]))}
    r = rng.random()
    defaults = None if r < 0.25 else {rng.choice(pool): gen_json_value(rng) for _ in range(rng.choice([0, 1, 2, 4]))}
    datefmt = rng.choice([None, None, "", "", "%Y", "%H:%M:%S", "%Y-%m-%d \"%H\""])
    base = rng.choice([0, 86400, 1700000000, rng.randrange(0, 2 ** 32)])
    created = F(base) + F(rng.randrange(1024), 1024)
    return {"kind": "json", "defaults": defaults, "datefmt": datefmt, "name": gen_str(rng, "name"),
            "data": data, "created": "%d/%d" % (created.numerator, created.denominator)}


def corpus():
    def line(name, data, tags=None, res=None, created="2469/2"):
        return {"kind": "line", "tags": tags, "res": res, "name": name, "data": data, "created": created}

    S = lambda s: ["s", s]
    # documented example (format_line.py __main__): numeric default tags
    yield line("forecast", [["temperature", ["i", 298]], ["humidity", ["f", (0.45).hex()]]],
               {"map": [["latitude", ["i", 49]], ["longitude", ["i", 8]]]})
    # the repository's own special-character test
    yield line('"measurement with quo⚡️es and emoji"',
               [["tag key with sp\U0001f680ces", S('tag,value,with"commas"')],
                ["field_k\\ey", S('string field value, only " need be esc\U0001f36dped')]],
               {"iter": ["tag key with sp\U0001f680ces"]})
    # single quotes (fixed defect 92925a5), backslash before a special character, doubled specials
    yield line("it's", [["f", S("it's")], ["q'k", S("''")], ["a\\,b", S("v\\")], ["c\\\\=d", S('\\"')], ["e  f", S("  ")]], None, 10)
    yield line("m\\,n\\ o=p", [["k\\ x", S("a\\,b")], [",,", S(",,")], ["==", S("==")], ['""', S('""')], ["\\\\x", S("\\\\")]],
               {"iter": ["k\\ x", ",,"]}, 1)
    for sp in SPECIAL:
        yield line(sp + "m" + sp + sp + "n" + (sp if sp != "\\" else "") , [[sp + "k" + sp + sp + "x", S(sp + sp + "v" + sp)],
                   [sp + "t" + sp + "y", S(sp + "w" + sp + sp + "z")]], {"iter": [sp + "t" + sp + "y"]}, 60)
    # record value overrides default; non-string defaults; non-string record value as tag
    yield line("m", [["a", ["i", 5]], ["b", ["b", True]], ["c", S("x y")], ["d", ["f", (1.5e-7).hex()]], ["f", ["i", -3]]],
               {"map": [["a", S("dflt")], ["b", ["f", (0.5).hex()]], ["c", ["b", False]], ["z", ["i", -7]], ["d", S("q=")]]}, 3600, "1700003599/1")
    # every LogRecord attribute name as a data key: whitelisted (-> tag) and not (-> dropped, outside the domain)
    yield line("m", [[k, ["i", i]] for i, k in enumerate(RECORD_ATTRIBUTES_SPEC)] + [["x", ["i", 1]]], {"iter": list(RECORD_ATTRIBUTES_SPEC)})
    yield line("m", [[k, ["i", i]] for i, k in enumerate(RECORD_ATTRIBUTES_SPEC)] + [["x", ["i", 1]]], None)
    # time: on a multiple of the resolution and just either side; 2^32 boundary; negative; zero
    for created in ["1700000000/1", "1740799999999/1024", "1740800000001/1024", "0/1", "4398046511103/1024", "-13/4", "1/1024"]:
        for res in [1, 10, 3600, 7]:
            yield line("t", [["v", ["i", 1]]], None, res, created)
    # outside the domain: no fields, trailing backslash, newline, %, comment, None, resolution 0, nan
    yield line("m", [], None, None)
    yield line("m", [["a", S("x")]], {"iter": ["a"]}, None)
    yield line("m\\", [["a", ["i", 1]]], None, None)
    yield line("m", [["a\\", ["i", 1]]], None, None)
    yield line("m", [["a", S("v\\")], ["b", ["i", 1]]], {"iter": ["a"]}, None)
    yield line("m\nx", [["a", S("1\n2")]], None, None)
    yield line("100%", [["a", ["i", 1]]], None, None)
    yield line("%(a)s", [["a", ["i", 1]]], None, None)
    yield line("#m", [["a", ["i", 1]]], None, None)
    yield line("m", [["a", ["n"]]], None, None)
    yield line("m", [["a", ["i", 1]]], None, 0)
    yield line("m", [["a", ["f", "nan"]], ["b", ["f", "inf"]]], None, None)
    yield line("m", [["", ["i", 1]]], None, None)
    yield line("", [["a", ["i", 1]]], None, None)
    yield line("m", [["a", S("")], ["b", ["i", 1]]], {"iter": ["a"]}, None)
    # JSON
    J = lambda defaults, datefmt, name, data: {"kind": "json", "defaults": defaults, "datefmt": datefmt, "name": name,
                                               "data": data, "created": "1700000000/1"}
    yield J({"latitude": 49, "longitude": 8}, None, "forecast", {"temperature": 298, "humidity": 0.45})
    yield J({"message": 1, "time": 2, "z": [1]}, None, "m", {"z": {"b": 1, "a": 2}})
    yield J({"message": 1, "time": 2}, "", "m", {})
    yield J(None, "%Y", "m", {"message": "over", "time": None})
    yield J({}, "", "m", {"a": {"a": [1, 2.5, "x", None, True]}})
    yield J({"test": 1}, None, "message", {"test": 2})


def gen_cases(rng, n):
    out = list(corpus())
    for c in out:
        yield c
    for i in range(max(0, n - len(out))):
        if i % 5 == 4:
            c = gen_json_case(rng)
        else:
            c = gen_line_case(rng, malformed=(rng.random() < 0.12))
        if rng.random() < 0.3:
            c["multi"] = True
        yield c


# ------------------------------------------------------------------ implementation
def _record(name, data, created):
    rec = logging.LogRecord("cobald.monitor.c17", logging.INFO, "c17.py", 1, name, (data,), None)
    t = float(F(created))
    rec.created = t
    rec.msecs = (t - int(t)) * 1000
    return rec


def _exc(e):
    n = type(e).__name__
    return n if n in ("AssertionError", "ZeroDivisionError", "TypeError", "ValueError", "KeyError") else "Other"


def run_impl(case):
    if case["kind"] == "line":
        from cobald.monitor.format_line import LineProtocolFormatter
        tags = case["tags"]
        if tags is None:
            targ = None
        elif "iter" in tags:
            targ = list(tags["iter"]) if len(tags["iter"]) % 2 else set(tags["iter"])
        else:
            targ = {k: v_py(v) for k, v in tags["map"]}
        data = {k: v_py(v) for k, v in case["data"]}
        try:
            fmt = LineProtocolFormatter(tags=targ, resolution=case["res"])
            # a formatter serves many records: warm it up with earlier records that set every tag key and
            # extra fields, then format the record under test (the output must not depend on the history)
            if case.get("warm", True):
                keys = (list(tags["iter"]) if tags and "iter" in tags else [k for k, _ in tags["map"]] if tags else [])
                prior = {str(k): "prior value,=" for k in keys if isinstance(k, str)}
                prior.update({"zz prior": 7, "zz_p": "x"})
                for d in (prior, dict(data)):
                    try:
                        fmt.format(_record("warm up", d, 12345.0))
                    except Exception:
                        pass
            rec = _record(case["name"], data, case["created"])
            if case.get("multi"):
                # one record, several outputs: the other handlers of the logger (a second line-protocol output
                # with the same settings, a JSON output) format the very same record object first
                from cobald.monitor.format_json import JsonFormatter
                for other in (lambda: LineProtocolFormatter(tags=targ, resolution=case["res"]), JsonFormatter):
                    try:
                        other().format(rec)
                    except Exception:
                        pass
            out = fmt.format(rec)
        except Exception as e:
            return {"raised": _exc(e)}
        if not isinstance(out, str):
            return {"raised": "Other"}
        return {"out": out}
    from cobald.monitor.format_json import JsonFormatter
    try:
        fmt = JsonFormatter(fmt=case["defaults"], datefmt=case["datefmt"])
        if case.get("warm", True) and isinstance(case["defaults"], dict):
            try:
                # the earlier record: long ago, or (for every other case) within the SAME second as the record under test
                t = F(case["created"])
                prior = 12345.0 if t.numerator % 2 == 0 else F(math.floor(t)) + (t - math.floor(t) + F(437, 1000)) % 1
                fmt.format(_record("warm up", dict({k: "prior" for k in case["defaults"]}, zz_prior=1), prior))
            except Exception:
                pass
        rec = _record(case["name"], dict(case["data"]), case["created"])
        if case.get("multi"):
            from cobald.monitor.format_line import LineProtocolFormatter
            try:
                LineProtocolFormatter(tags=[k for k in case["data"] if isinstance(k, str)][:2]).format(rec)
            except Exception:
                pass
        out = fmt.format(rec)
    except Exception as e:
        return {"raised": _exc(e)}
    timestr = logging.Formatter(datefmt=case["datefmt"]).formatTime(_record(case["name"], {}, case["created"]), case["datefmt"])
    obs = {"timestr": timestr, "single_line": isinstance(out, str) and "\n" not in out}
    try:
        val = json.loads(out)
    except Exception:
        return dict(obs, obj=None)
    if not isinstance(val, dict):
        return dict(obs, obj=None)
    return dict(obs, obj=[[k, _canon(v)] for k, v in val.items()])


def _canon(v):
    return json.dumps(v, sort_keys=True, ensure_ascii=True)


# ------------------------------------------------------------------ python twin of the reference decoder
class ParseError(Exception):
    pass


def _scan(s, i, specials):
    """escaped token from s[i:] up to the first unescaped special character / line end"""
    out = []
    while i < len(s):
        c = s[i]
        if c == "\\":
            if i + 1 < len(s) and s[i + 1] in specials:
                out.append(s[i + 1])
                i += 2
            else:
                out.append("\\")
                i += 1
        elif c in specials or c == "\n":
            break
        else:
            out.append(c)
            i += 1
    return "".join(out), i


_NUM = None


def _numeral(tok):
    global _NUM
    if _NUM is None:
        import re
        _NUM = re.compile(r"-?[0-9]+(\.[0-9]+)?([eE][+-]?[0-9]+)?\Z")
    return bool(_NUM.match(tok)) and tok.isascii()


def ref_parse(s):
    """(name, {tag: text}, {field: ('s', str) | ('b', bool) | ('n', token)}, time or None)"""
    if not s or s[0] == "#":
        raise ParseError("comment or empty")
    name, i = _scan(s, 0, ", ")
    if not name:
        raise ParseError("empty measurement")
    tags = []
    while i < len(s) and s[i] == ",":
        k, i = _scan(s, i + 1, ",= ")
        if not k or i >= len(s) or s[i] != "=":
            raise ParseError("tag key")
        v, i = _scan(s, i + 1, ",= ")
        if not v:
            raise ParseError("tag value")
        tags.append((k, v))
    if i >= len(s) or s[i] != " ":
        raise ParseError("no field section")
    i += 1
    fields = []
    while True:
        k, i = _scan(s, i, ",= ")
        if not k or i >= len(s) or s[i] != "=":
            raise ParseError("field key")
        i += 1
        if i < len(s) and s[i] == '"':
            i += 1
            buf = []
            while True:
                if i >= len(s) or s[i] == "\n":
                    raise ParseError("unterminated string")
                c = s[i]
                if c == "\\" and i + 1 < len(s) and s[i + 1] in '\\"':
                    buf.append(s[i + 1])
                    i += 2
                elif c == '"':
                    i += 1
                    break
                else:
                    buf.append(c)
                    i += 1
            val = ("s", "".join(buf))
        else:
            j = i
            while j < len(s) and s[j] not in ", \n":
                j += 1
            tok = s[i:j]
            i = j
            if _numeral(tok):
                val = ("n", tok)
            elif tok in ("t", "T", "true", "True", "TRUE"):
                val = ("b", True)
            elif tok in ("f", "F", "false", "False", "FALSE"):
                val = ("b", False)
            else:
                raise ParseError("field value %r" % tok)
        fields.append((k, val))
        if i < len(s) and s[i] == ",":
            i += 1
            continue
        break
    t = None
    if i < len(s) and s[i] == " ":
        j = s.find("\n", i)
        tok = s[i + 1:j if j >= 0 else len(s)]
        body = tok[1:] if tok.startswith("-") else tok
        if not body or not body.isascii() or not body.isdigit():
            raise ParseError("timestamp")
        t = int(tok)
        i = j if j >= 0 else len(s)
    if s[i:] != "\n":
        raise ParseError("line end")
    return name, tags, fields, t


# ------------------------------------------------------------------ oracle
def _ok_key(s):
    return bool(s) and "\n" not in s and not s.endswith("\\")


def line_domain(case):
    """the property's quantifier, restated (why a case is outside it, or None)"""
    name = case["name"]
    if not _ok_key(name) or "%" in name or name.startswith("#"):
        return "name"
    tags = case["tags"]
    defaults = dict((k, v) for k, v in tags["map"]) if tags and "map" in tags else {}
    wl = set(tags["iter"]) if tags and "iter" in tags else set(defaults)
    nfields = 0
    for k, v in case["data"]:
        if not _ok_key(k):
            return "key"
        if v[0] == "n" or not v_finite(v):
            return "value"
        if v[0] == "s" and "\n" in v[1]:
            return "linebreak"
        if k in wl:
            if not _ok_key(v_text(v)):
                return "tagvalue"
        elif k in RECORD_ATTRIBUTES_SPEC:
            return "attribute-collision"
        else:
            nfields += 1
    for k, v in defaults.items():
        if not _ok_key(k) or not _ok_key(v_text(v)):
            return "default"
    if nfields == 0:
        return "no-fields"
    if case["res"] is not None and case["res"] <= 0:
        return "resolution"
    return None


def oracle(case, obs):
    if "harness_error" in obs:
        return [(None, "harness error: " + obs["harness_error"])]
    if case["kind"] == "json":
        return _oracle_json(case, obs)
    if line_domain(case) is not None:
        return []
    if "raised" in obs:
        return [(None, "raised: formatting a well-formed record raised " + obs["raised"])]
    out = obs["out"]
    v = []
    if not out.endswith("\n") or "\n" in out[:-1]:
        v.append((None, "single line: output is not exactly one newline-terminated line: %r" % out))
    try:
        name, tags, fields, t = ref_parse(out)
    except ParseError as e:
        return v + [(None, "undecodable: reference decoder rejects %r (%s)" % (out, e))]
    if name != case["name"]:
        v.append((None, "measurement: decoded %r, reported %r" % (name, case["name"])))
    tcfg = case["tags"]
    defaults = dict((k, w) for k, w in tcfg["map"]) if tcfg and "map" in tcfg else {}
    wl = set(tcfg["iter"]) if tcfg and "iter" in tcfg else set(defaults)
    data = dict((k, w) for k, w in case["data"])
    want_tags = {}
    for k in wl:
        if k in data:
            want_tags[k] = v_text(data[k])
        elif k in defaults:
            want_tags[k] = v_text(defaults[k])
    if len(tags) != len(dict(tags)) or dict(tags) != want_tags:
        v.append((None, "tags: decoded %r, expected %r" % (tags, want_tags)))
    want_fields = {k: w for k, w in data.items() if k not in wl}
    got = dict(fields)
    if len(fields) != len(got) or set(got) != set(want_fields):
        v.append((None, "field keys: decoded %r, expected %r" % (sorted(got), sorted(want_fields))))
    else:
        for k, w in want_fields.items():
            g = got[k]
            if w[0] == "s":
                ok = g == ("s", w[1])
            elif w[0] == "b":
                ok = g == ("b", bool(w[1]))
            elif w[0] == "i":
                ok = g[0] == "n" and F(g[1]) == int(w[1])
            else:
                ok = g[0] == "n" and float(g[1]) == float.fromhex(w[1]) and math.copysign(1, float(g[1])) == math.copysign(1, float.fromhex(w[1]))
            if not ok:
                v.append((None, "field value: key %r decoded %r, reported %r" % (k, g, v_py(w))))
    if [k for k, _ in tags] != sorted(k for k, _ in tags) or [k for k, _ in fields] != sorted(k for k, _ in fields):
        v.append((None, "order: keys are not emitted in sorted order: %r" % out))
    if case["res"] is None:
        want_t = None
    else:
        c = F(case["created"])
        want_t = (c // case["res"]) * case["res"] * 10 ** 9
    if t != want_t:
        v.append((None, "time: decoded %r, expected %r" % (t, want_t)))
    return v


def _oracle_json(case, obs):
    from collections.abc import Mapping
    defaults = case["defaults"]
    if "raised" in obs:
        return [(None, "json raised: " + obs["raised"])]
    if obs["obj"] is None or not obs["single_line"]:
        return [(None, "json object: output is not a single JSON object")]
    want = dict(defaults or {})
    if case["datefmt"] or case["datefmt"] is None:
        want["time"] = obs["timestr"]
    want["message"] = case["name"]
    want.update(case["data"])
    got = dict((k, c) for k, c in obs["obj"])
    wantc = {k: _canon(x) for k, x in want.items()}
    if got != wantc or len(got) != len(obs["obj"]):
        return [(None, "json merge: got %r, expected %r" % (got, wantc))]
    return []


def nontrivial(case, obs):
    if case["kind"] == "json":
        return obs.get("obj") is not None and len(case["data"]) >= 1
    if line_domain(case) is not None or "out" not in obs:
        return False
    text = case["name"] + "".join(k + (v[1] if v[0] == "s" else "") for k, v in case["data"])
    return len(case["data"]) >= 2 or any(c in text for c in SPECIAL)


# ------------------------------------------------------------------ Coq printing
def _cvalue(v):
    t = v[0]
    if t == "s":
        return "(VStr %s)" % cstr(v[1])
    if t == "b":
        return "(VBool %s)" % cbool(v[1])
    if t == "i":
        return "(VInt %s)" % cZ(v[1])
    if t == "f":
        return "(VFloat %s)" % cstr(repr(float.fromhex(v[1])))
    return "VNone"


def _citems(items):
    return "(%s : list (str * value))" % clist("(%s, %s)" % (cstr(k), _cvalue(v)) for k, v in items)


def _cpairs(items):
    return "(%s : list (str * str))" % clist("(%s, %s)" % (cstr(k), cstr(c)) for k, c in items)


def coq_case(case, obs):
    if case["kind"] == "line":
        tags = case["tags"]
        if tags is None:
            t = "TagsNone"
        elif "iter" in tags:
            t = "(TagsIter (%s : list str))" % clist(cstr(k) for k in tags["iter"])
        else:
            t = "(TagsMap %s)" % _citems(tags["map"])
        cfg = "(mkCfg %s %s)" % (t, copt(case["res"], cZ))
        rec = "(mkRec %s %s %s)" % (cstr(case["name"]), _citems(case["data"]), cQ(F(case["created"])))
        if "out" in obs:
            o = "(OOut %s)" % cstr(obs["out"])
        else:
            o = {"AssertionError": "(ORaised AssertNoneValue)", "ZeroDivisionError": "(ORaised ZeroDivision)"}.get(
                obs.get("raised"), "OOther")
        return "(LineCase %s %s %s %s)" % (cfg, rec, cbool(line_domain(case) is None), o)
    if "raised" in obs or "harness_error" in obs:
        return "(JsonCase nil None nil nil nil None)"
    d = case["defaults"] or {}
    return "(JsonCase %s %s %s %s %s %s)" % (
        _cpairs((k, _canon(v)) for k, v in d.items()), copt(case["datefmt"], cstr), cstr(_canon(obs["timestr"])),
        cstr(_canon(case["name"])), _cpairs((k, _canon(v)) for k, v in case["data"].items()),
        "None" if obs["obj"] is None else "(Some %s)" % _cpairs(obs["obj"]))


def distribution(results):
    d = {"kind": {}, "domain": {}, "tags": {}, "resolution": {"none": 0, "int": 0}, "value_types": {}, "outcome": {},
         "specials_in_text": 0, "tag_overrides_default": 0, "nonstring_tag_value": 0}
    for (c, o, _v) in results:
        d["kind"][c["kind"]] = d["kind"].get(c["kind"], 0) + 1
        if c["kind"] != "line":
            continue
        dom = line_domain(c) or "in-domain"
        d["domain"][dom] = d["domain"].get(dom, 0) + 1
        t = c["tags"]
        tk = "none" if t is None else "whitelist" if "iter" in t else "defaults"
        d["tags"][tk] = d["tags"].get(tk, 0) + 1
        d["resolution"]["none" if c["res"] is None else "int"] += 1
        oc = "out" if "out" in o else o.get("raised", "harness")
        d["outcome"][oc] = d["outcome"].get(oc, 0) + 1
        for k, v in c["data"]:
            d["value_types"][v[0]] = d["value_types"].get(v[0], 0) + 1
        text = c["name"] + "".join(k + (v[1] if v[0] == "s" else "") for k, v in c["data"])
        if any(ch in text for ch in SPECIAL):
            d["specials_in_text"] += 1
        if t and "map" in t:
            dk = dict((k, v) for k, v in t["map"])
            if any(k in dk for k, _ in c["data"]):
                d["tag_overrides_default"] += 1
            if any(v[0] != "s" for v in dk.values()):
                d["nonstring_tag_value"] += 1
    return d


def shrink(case, still_fails):
    def attempt(cand):
        try:
            return still_fails(cand)
        except Exception:
            return False

    cur = case
    changed = True
    while changed:
        changed = False
        if cur["kind"] == "json":
            for k in list(cur["data"]):
                cand = dict(cur, data={a: b for a, b in cur["data"].items() if a != k})
                if attempt(cand):
                    cur, changed = cand, True
                    break
            continue
        cands = []
        for i in range(len(cur["data"])):
            cands.append(dict(cur, data=cur["data"][:i] + cur["data"][i + 1:]))
        if cur["tags"] is not None:
            cands.append(dict(cur, tags=None))
            key = "iter" if "iter" in cur["tags"] else "map"
            for i in range(len(cur["tags"][key])):
                cands.append(dict(cur, tags={key: cur["tags"][key][:i] + cur["tags"][key][i + 1:]}))
        if cur["res"] is not None:
            cands.append(dict(cur, res=None))
        for i in range(len(cur["name"])):
            cands.append(dict(cur, name=cur["name"][:i] + cur["name"][i + 1:]))
        for j, (k, v) in enumerate(cur["data"]):
            for i in range(len(k)):
                k2 = k[:i] + k[i + 1:]
                if k2 not in [a for a, _ in cur["data"]]:
                    cands.append(dict(cur, data=cur["data"][:j] + [[k2, v]] + cur["data"][j + 1:]))
            if v[0] == "s":
                for i in range(len(v[1])):
                    cands.append(dict(cur, data=cur["data"][:j] + [[k, ["s", v[1][:i] + v[1][i + 1:]]]] + cur["data"][j + 1:]))
        for cand in cands:
            if line_domain(cand) is None and attempt(cand):
                cur, changed = cand, True
                break
    return cur


# ------------------------------------------------------------------ translator tie (JSON half)
TIE_TARGETS = ["props/C17_tie.vo"]


def regen(chk):
    """regenerate gen/Gen_monitor.v from the current monitor/format_json.py"""
    import os
    from . import common
    from py2coq import units
    res = units.regen(common.REPO, os.path.join(common.COQDIR, "gen"), ["Gen_monitor.v"])
    chk.coverage["translator"] = res
    bad = [v for v in res.values() if v != "ok"]
    if bad:
        raise RuntimeError(bad[0])
