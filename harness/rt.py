"""
Runtime family (C01 C02 C03 C10 C11 C12): scenario generation, execution of the REAL runtime in
subprocesses (harness/rt_scenario.py), translation of event logs to `list RT.event`, python oracles
that restate each property on the log, and the check driver.
"""
import json
import os
import subprocess
import sys
import time
from concurrent.futures import ThreadPoolExecutor

from . import common
from .common import clist, cnat, cbool

FL = {"asyncio": "Aio", "trio": "Trio", "threading": "Thr"}
FLS = ["asyncio", "trio", "threading"]
N_VALUES = 14
N_EXC = 15
N_EXC_EXCEPTION = 12

COQ_TARGETS_COMMON = ["corr/RTCorr.vo"]
CORR_PRELUDE = "From Cobald Require Import kit.Corr model.RT corr.RTCorr."

TRUSTED_BASE = [
    "Coq 8.16.1 kernel + vm_compute (bytecode VM) for replaying traces through RT.run",
    "model/RT.v is hand-written (deterministic acceptor over observable events); tied to src/cobald/daemon/runners/*.py by trace correspondence only",
    "harness/rt_scenario.py: scripted payloads log events through one lock BEFORE performing each announced step; the log is one linearisation of the real happens-before order",
    "schedules are sampled (perturbed real executions), never enumerated; asyncio/trio/threading guarantees (one loop = one thread, cancellation delivery, nursery semantics) are assumed in the model's rules",
]
ASSUMPTIONS = [
    "payloads do not swallow their framework's cancellation exception",
    "blocking shutdown()/execute() are not called from a coroutine payload of the flavour that would have to serve them",
    "liveness ('eventually', 'within bounded time') is observed within the scenario's quiescence bound, not proved about the real scheduler",
]


# ------------------------------------------------------------------------------------------
# running scenarios
# ------------------------------------------------------------------------------------------
def run_scenario(scn, idx=0, tag="rt"):
    d = os.path.join(common.BUILD, tag)
    os.makedirs(d, exist_ok=True)
    path = os.path.join(d, "scn_%d_%d.json" % (os.getpid(), idx))
    with open(path, "w") as fh:
        json.dump(scn, fh)
    t0 = time.time()
    try:
        p = subprocess.run(
            [common.PY, os.path.join(common.VERIF, "harness", "rt_scenario.py"), path],
            stdout=subprocess.PIPE, stderr=subprocess.PIPE, env=common.impl_env(), cwd=d,
            timeout=scn.get("timeout", 10) + 15)
        out = p.stdout.decode("utf-8", "replace")
        try:
            res = json.loads(out)
        except ValueError:
            res = {"log": [], "overlaps": [], "crash": (out[-300:] + p.stderr.decode("utf-8", "replace")[-1200:])}
        res["exit"] = p.returncode
        if p.returncode == 3:
            res["stderr"] = p.stderr.decode("utf-8", "replace")[-12000:]
    except subprocess.TimeoutExpired:
        res = {"log": [], "overlaps": [], "crash": "subprocess timeout"}
    res["wall"] = round(time.time() - t0, 2)
    try:
        os.remove(path)
    except OSError:
        pass
    return res


def run_many(scns, tag="rt", workers=12):
    with ThreadPoolExecutor(max_workers=workers) as ex:
        return list(ex.map(lambda a: run_scenario(a[1], a[0], tag), enumerate(scns)))


# ------------------------------------------------------------------------------------------
# log -> Coq
# ------------------------------------------------------------------------------------------
def kid(kind, n):
    return 2 * n if kind == "p" else 2 * n + 1


def cctx(who):
    if who[0] in ("main", "helper"):
        return "Outside"
    if who[0] == "payload":
        return "(InPayload %d)" % kid("p", who[1])
    return "(InPayload %d)" % kid("s", who[1])


def coutcome(kind, ident):
    if kind == "ret_none":
        return "ORetNone"
    if kind == "ret_val":
        return "(ORetVal %d)" % (ident if ident is not None and ident >= 0 else 999)
    if kind == "raise":
        if ident is None or ident < 0:
            return "(ORaiseExc 999)"
        return "(ORaiseExc %d)" % ident if ident < N_EXC_EXCEPTION else "(ORaiseBase %d)" % ident
    if kind == "kbd":
        return "OKbd"
    raise ValueError(kind)


def ccause(leaf):
    if leaf[0] == "exc":
        return "(CExc %d)" % kid("p", leaf[1])
    if leaf[0] == "orphan":
        return "(COrphan %d)" % kid("p", leaf[1])
    if leaf[0] == "svc_exc":
        return "(CExc %d)" % kid("s", leaf[1])
    if leaf[0] == "svc_orphan":
        return "(COrphan %d)" % kid("s", leaf[1])
    return "COther"


def caout(out):
    if out[0] == "returned":
        return "AReturned"
    if out[0] == "exclusive":
        return "AExclusive"
    if out[0] == "runtime":
        return "(ARuntime %s)" % clist(ccause(x) for x in out[1])
    return "AOther"


LATE_SERVICE_THREADS = [0]


def events_of_log(log, scn=None):
    evs = []
    shared = {}
    if scn is not None:
        shared = {int(k): v["shared"] for k, v in scn.get("payloads", {}).items() if "shared" in v}
    finished = {}        # group -> finished, not yet handed back payload ids (runs of one function object are interchangeable)
    accepting = set()    # runners whose (admitted) accept call is in progress
    late_services = set()
    for rec in log:
        e = rec["ev"]
        tid = rec["tid"]
        k = e[0]
        if k in ("Start", "Step", "Finish", "Enter", "Exit") and e[1] == "s":
            # The thread of a thread-flavoured service that the accept loop handed over while its run was closing may
            # only come up after that run has ended.  The model attributes a service's start to the runner accepting at
            # that moment and has no event for the hand-over itself: such a late thread is left to the python oracle
            # (model limit, counted in the evidence as `late_service_threads`).
            if k == "Start" and e[3] == "threading" and not accepting:
                late_services.add(e[2])
                LATE_SERVICE_THREADS[0] += 1
                evs.append("DropService %d" % kid("s", e[2]))      # out of the model's sight from here on
            if e[2] in late_services:
                continue
        if k == "AcceptCall":
            accepting.add(e[2])
            evs.append("AcceptCall %d" % e[2])
        elif k == "AcceptEnd":
            accepting.discard(e[2])
            evs.append("AcceptEnd %d %s" % (e[2], caout(e[3])))
        elif k == "RunningSet":
            evs.append("RunningSet %d" % e[1])
        elif k == "ShutdownCall":
            evs.append("ShutdownCall %s %d" % (cctx(e[1]), e[2]))
        elif k == "ShutdownEnd":
            evs.append("ShutdownEnd %d %s" % (e[2], cbool(e[3] == "ok")))
        elif k == "Sigint":
            evs.append("Sigint")
        elif k == "AdoptCall":
            evs.append("AdoptCall %s %d %d %s" % (cctx(e[1]), e[2], kid("p", e[3]), FL[e[4]]))
        elif k == "Adopt":
            evs.append("AdoptEnd %d %s" % (kid("p", e[3]), cbool(e[5] == "ok")))
        elif k == "NewService":
            evs.append("NewService %s %d %s" % (cctx(e[1]), kid("s", e[2]), FL[e[3]]))
        elif k == "DropService":
            evs.append("DropService %d" % kid("s", e[1]))
        elif k == "Start":
            loop = e[4] if e[4] > 0 else 0
            evs.append("Start %d %s %d %d %d %s" % (kid(e[1], e[2]), FL[e[3]], tid, loop, e[5], cbool(e[6])))
        elif k == "Step":
            evs.append("Step %d %d" % (kid(e[1], e[2]), tid))
        elif k in ("Enter", "Exit", "Cancelled", "CleanStep", "CleanupDone"):
            evs.append("%s %d" % (k, kid(e[1], e[2])))
        elif k == "Finish":
            evs.append("Finish %d %s" % (kid(e[1], e[2]), coutcome(e[3], e[4])))
            if e[1] == "p" and e[2] in shared:
                finished.setdefault(shared[e[2]], []).append(e[2])
        elif k == "ExecCall":
            evs.append("ExecCall %s %d %d %d %s" % (cctx(e[1]), tid, e[2], kid("p", e[3]), FL[e[4]]))
        elif k == "ExecEnd" and e[4][0] == "aborted":
            evs.append("ExecAbort %d" % kid("p", e[3]))
        elif k == "ExecEnd":
            out = e[4]
            same = len(out) < 3 or out[2] == "same"
            pid_ = e[3]
            if pid_ in shared and finished.get(shared[pid_]):
                pid_ = finished[shared[pid_]].pop(0)
            evs.append("ExecEnd %d %s %s" % (kid("p", pid_), coutcome(out[0], out[1] if len(out) > 1 else None), cbool(same)))
        elif k == "Mark":
            evs.append("Quiesce")
        elif k in ("End", "Timeout", "HarnessError", "Call", "IdleShutdown"):
            pass
        else:
            raise ValueError("unknown log event %r" % (e,))
    return evs


def coq_trace(log, scn=None):
    if scn is not None and scn.get("oracle_only"):
        # histories with thousands of participants are beyond what the acceptor (unary ids, association
        # maps) evaluates in reasonable time: they are judged by the python oracle only
        return "[]"
    return clist("(%s)" % x for x in events_of_log(log, scn))


# ------------------------------------------------------------------------------------------
# scenario generation
# ------------------------------------------------------------------------------------------
class Builder:
    def __init__(self, rng, accept_delay=None):
        self.rng = rng
        self.payloads = {}
        self.services = {}
        self.runners = [{"accept_delay": accept_delay or rng.choice([0.02, 0.05, 0.05, 0.1])}]
        self.main = []
        self.helpers = []
        self.np = 0
        self.ns = 0
        self.meta = {}

    def payload(self, flavour, script, cleanup=None, args=None, kwargs=None):
        pid = self.np
        self.np += 1
        spec = {"flavour": flavour, "script": script}
        if self.rng.random() < 0.15:
            # not a plain function: a decorated one, a lambda, a callable object, a bound method
            spec["shape"] = self.rng.choice(["wrapped", "lambda", "object", "method", "nomodule"])
        if cleanup:
            spec["cleanup"] = cleanup
        if args:
            spec["args"] = args
        if kwargs:
            spec["kwargs"] = kwargs
        self.payloads[str(pid)] = spec
        return pid

    def service(self, flavour, script, cleanup=None, drop=False):
        sid = self.ns
        self.ns += 1
        spec = {"flavour": flavour, "script": script}
        if cleanup:
            spec["cleanup"] = cleanup
        if drop:
            spec["drop"] = True
        elif self.rng.random() < 0.15:
            spec["falsy"] = True
        if self.rng.random() < 0.15:
            spec["subclass"] = True      # an instance of an undecorated subclass that replaces the constructor
        self.services[str(sid)] = spec
        return sid

    def scenario(self, timeout=12, linger=0.3, **extra):
        timeout = timeout * TIME_SCALE[0]
        scn = {"runners": self.runners, "payloads": self.payloads, "services": self.services,
               "main": self.main, "helpers": self.helpers, "timeout": timeout, "linger": linger,
               "meta": self.meta}
        scn.update(extra)
        return scn


def rnd_cleanup(rng, flavour):
    if flavour == "threading":
        return None
    r = rng.random()
    if r < 0.3:
        return None
    c = {"sync": rng.randint(0, 3)}
    if flavour == "asyncio" and rng.random() < 0.25:
        c["swallow"] = rng.choice([1, 1, 2])
    if flavour == "trio" and rng.random() < 0.5:
        c["shield"] = rng.choice([0.02, 0.1, 0.3])
        c["shield_steps"] = rng.randint(1, 3)
    return c


def rnd_bystander_script(rng, flavour):
    r = rng.random()
    if flavour == "threading":
        if r < 0.4:
            return [["beat", 3000, 0.01]]
        if r < 0.7:
            return [["step"], ["forever"]]
        return [["beat", 5, 0.01], ["block", 30]]
    if r < 0.4:
        return [["beat", 3000, 0.01]]
    if r < 0.55:
        return [["step"], ["forever"]]
    if r < 0.65:
        return [["step"], ["park"]]
    if r < 0.8:
        return [["spin", 150], ["forever"]]
    return [["beat", 3, 0.005], ["forever"]]


def rnd_args(rng):
    pool = [0, 1, -3, "a", "", None, True, [1, "x"], [[2], None], "\u00a7badrepr"]
    args = [rng.choice(pool) for _ in range(rng.choice([0, 0, 1, 2, 3]))]
    kwargs = {k: rng.choice(pool) for k in rng.sample(["k", "key", "x", "flavour_", "args"], rng.choice([0, 0, 1, 2]))}
    return args, kwargs


def rnd_failure(rng, allow_base=True):
    r = rng.random()
    if r < 0.45:
        return ["return", rng.randrange(N_VALUES)]
    if r < 0.9 or not allow_base:
        return ["raise", 6 if rng.random() < 0.12 else rng.randrange(N_EXC_EXCEPTION)]      # 6: the falsy CustomError
    return ["raise", rng.randrange(N_EXC_EXCEPTION, N_EXC - 1)]   # SystemExit, CustomBase (GeneratorExit excluded)


SETTLE = 0.45        # quiet period before a "settled" mark; stretched by main() on a loaded machine
TIME_SCALE = [1.0]


def add_bystanders(b, rng, n, helper_prog, pre_ok=True):
    """bystander payloads/services of mixed flavours, registered before start / after start /
    from inside other payloads"""
    ids = []
    for _ in range(n):
        fl = rng.choice(FLS)
        mode = rng.random()
        if mode < 0.2:
            sid = b.service(fl, rnd_bystander_script(rng, fl), rnd_cleanup(rng, fl))
            if rng.random() < 0.5 and pre_ok:
                b.main.append(["service", sid])
            else:
                helper_prog.append(["service", sid])
            ids.append(("s", sid, fl))
            continue
        args, kwargs = rnd_args(rng)
        pid = b.payload(fl, rnd_bystander_script(rng, fl), rnd_cleanup(rng, fl), args, kwargs)
        ids.append(("p", pid, fl))
        if mode < 0.5 and pre_ok:
            b.main.append(["adopt", 0, pid])
        elif mode < 0.8:
            helper_prog.append(["adopt", 0, pid])
        else:
            # adopted from inside a parent payload of a random flavour
            pfl = rng.choice(FLS)
            parent = b.payload(pfl, [["adopt", 0, pid]] + rnd_bystander_script(rng, pfl), rnd_cleanup(rng, pfl))
            ids.append(("p", parent, pfl))
            if rng.random() < 0.5 and pre_ok:
                b.main.append(["adopt", 0, parent])
            else:
                helper_prog.append(["adopt", 0, parent])
    return ids


def gen_fail(rng):
    """C01: one or several background payloads fail (nearly) simultaneously"""
    b = Builder(rng)
    h = [["wait_running", 0]]
    add_bystanders(b, rng, rng.choice([0, 1, 2, 3, 4, 6]), h)
    nfail = rng.choice([1, 1, 1, 2, 2, 3])
    immediate = rng.random() < 0.2
    same_flavour = rng.random() < 0.4
    fl0 = rng.choice(FLS)
    fails = []
    burst = rng.random() < 0.2
    early = False
    if burst:            # several thread payloads failing at the same instant
        nfail, same_flavour, fl0, immediate = rng.choice([3, 4, 6]), True, "threading", False
    for _ in range(nfail):
        fl = fl0 if same_flavour else rng.choice(FLS)
        end = rnd_failure(rng)
        if not burst and rng.random() < 0.15:
            # fails when called: never becomes a coroutine
            pid = b.payload(fl, [])
            b.payloads[str(pid)]["callfail"] = rng.randrange(N_EXC_EXCEPTION)
            fails.append(["p", pid, fl, ["raise", b.payloads[str(pid)]["callfail"]]])
            (b.main if rng.random() < 0.5 else h).append(["adopt", 0, pid])
            early = True          # fails as soon as it is started: no quiet period before the failure
            continue
        pre = [] if immediate else [["wait", "fail"]]
        if not immediate and rng.random() < 0.3:
            pre.append(["sleep", rng.choice([0.0, 0.001, 0.01])])
        mode = rng.random()
        if mode < 0.25:
            sid = b.service(fl, pre + [end])
            (b.main if rng.random() < 0.5 else h).append(["service", sid])
            fails.append(["s", sid, fl, end])
            continue
        pid = b.payload(fl, pre + [end], args=rnd_args(rng)[0])
        fails.append(["p", pid, fl, end])
        if mode < 0.5:
            b.main.append(["adopt", 0, pid])
        elif mode < 0.7:
            h.append(["adopt", 0, pid])
        elif mode < 0.8:
            # submitted from a thread that drives an event loop of its own (outside thread or thread payload)
            if rng.random() < 0.5:
                h.append(["adopt_private_loop", 0, pid])
            else:
                parent = b.payload("threading", [["adopt_private_loop", 0, pid], ["step"], ["forever"]])
                h.append(["adopt", 0, parent])
        else:
            pfl = rng.choice(FLS)
            parent = b.payload(pfl, [["adopt", 0, pid]] + rnd_bystander_script(rng, pfl), rnd_cleanup(rng, pfl))
            (b.main if rng.random() < 0.5 else h).append(["adopt", 0, parent])
    stalls = False
    if rng.random() < 0.3 and not burst:
        # a bystander that keeps executing payloads of another flavour: the failure is likely to arrive while such a
        # synchronous cross-flavour call is in flight (the closing runners must not wait for each other)
        cfl, tfl = rng.choice([("trio", "asyncio")] * 3 + [("asyncio", "trio")] * 3 + [("threading", "asyncio"), ("threading", "trio"),
                                                                                      ("trio", "threading"), ("asyncio", "threading")])
        script = []
        for _ in range(12):
            body = [["step"]] if (tfl == "threading" and cfl != "threading") else [["step"], ["sleep", rng.choice([0.02, 0.05])]]
            script.append(["execute", 0, b.payload(tfl, body)])
        caller = b.payload(cfl, [["wait", "fail"]] + script + rnd_bystander_script(rng, cfl), rnd_cleanup(rng, cfl))
        b.main.append(["adopt", 0, caller])
        stalls = cfl != "threading"
    b.main.append(["accept", 0])
    if not immediate and not early:
        h += [["sleep", SETTLE]] + ([] if stalls else [["mark", "settled"]]) + [["set", "fail"]]
    elif not immediate:
        h += [["sleep", 0.05], ["set", "fail"]]
    b.helpers.append(h)
    b.meta = {"family": "fail", "fails": fails, "immediate": immediate or early, "burst": burst}
    if burst:
        return b.scenario(switchinterval=rng.choice([1e-6, 1e-5, 1e-4]))
    return b.scenario()


def gen_stop(rng):
    """C02/C12: termination by shutdown / SIGINT / thread-payload shutdown / KeyboardInterrupt payload / failure"""
    b = Builder(rng)
    h = [["wait_running", 0]]
    add_bystanders(b, rng, rng.choice([0, 1, 2, 3, 5, 7]), h)
    stalls = False
    if rng.random() < 0.35:
        # a coroutine / thread payload that keeps executing payloads of another flavour: termination is
        # likely to arrive while such a call is in flight
        cfl = rng.choice(FLS)
        tfl = rng.choice([f for f in FLS if f != cfl])
        script = []
        for _ in range(12):
            # (an executed THREAD payload runs in the caller's thread: from a coroutine caller it must not block)
            body = [["step"]] if (tfl == "threading" and cfl != "threading") else [["step"], ["sleep", rng.choice([0.02, 0.05])]]
            q = b.payload(tfl, body)
            script.append(["execute", 0, q])
        caller = b.payload(cfl, script + rnd_bystander_script(rng, cfl), rnd_cleanup(rng, cfl))
        h.append(["adopt", 0, caller])
        stalls = cfl != "threading"      # a coroutine caller blocks its own loop while it waits
    trigger = rng.choice(["shutdown", "shutdown", "sigint", "thread_shutdown", "coroutine_shutdown", "coroutine_shutdown", "kbd", "fail"])
    when = rng.choice(["early", "mid", "late"])
    if rng.random() < 0.3:
        h.append(["gc"])             # a full collection while everything is up (parked payloads are only held by the runtime)
    if when == "mid":
        h.append(["sleep", rng.choice([0.01, 0.03, 0.07, 0.12])])
    elif when == "late":
        # no quiescence claim while a coroutine payload keeps stalling its own loop with blocking calls
        h += [["sleep", SETTLE]] + ([] if stalls else [["mark", "settled"]])
    if trigger == "shutdown":
        if rng.random() < 0.4:
            # several threads ask for the shutdown within a few milliseconds of each other: each call returns
            h.append(["set", "stopnow"])
            for _ in range(rng.choice([2, 3, 5])):
                b.helpers.append([["wait", "stopnow"], ["sleep", rng.choice([0.0, 0.005, 0.02, 0.04, 0.08])], ["shutdown", 0]])
        h.append(["shutdown", 0])
    elif trigger == "sigint":
        h.append(["sigint"])
    elif trigger == "thread_shutdown":
        pid = b.payload("threading", [["wait", "go"], ["shutdown", 0]])
        b.main.append(["adopt", 0, pid])
        h.append(["set", "go"])
    elif trigger == "coroutine_shutdown":
        pid = b.payload(rng.choice(["asyncio", "trio"]), [["wait", "go"], ["shutdown_via_thread", 0], ["forever"]])
        b.main.append(["adopt", 0, pid])
        h.append(["set", "go"])
    elif trigger == "kbd":
        fl = rng.choice(["asyncio", "threading"])
        pid = b.payload(fl, [["wait", "go"], ["kbd"]])
        b.main.append(["adopt", 0, pid])
        h.append(["set", "go"])
    else:
        fl = rng.choice(FLS)
        pid = b.payload(fl, [["wait", "go"], rnd_failure(rng, allow_base=False)])
        b.main.append(["adopt", 0, pid])
        h.append(["set", "go"])
    second = None
    if trigger in ("fail", "shutdown", "thread_shutdown", "coroutine_shutdown") and rng.random() < 0.3:
        # a second trigger while the first one is still being worked off: an interrupt arrives during a slow
        # shielded cleanup (the run still ends only when that cleanup is through)
        slow = b.payload("trio", [["beat", 3000, 0.01]], {"sync": 1, "shield": rng.choice([0.4, 0.8]), "shield_steps": 5})
        b.main.insert(0, ["adopt", 0, slow])
        second = rng.choice([0.05, 0.15, 0.3])
        h += [["sleep", second], ["sigint_if_running", 0]]
    if rng.random() < 0.3:
        # a trio payload whose shielded cleanup hands follow-up work to the runtime (adopt during the shutdown window)
        follow = b.payload(rng.choice(FLS), [["step"]])
        cleaner = b.payload("trio", [["beat", 3000, 0.01]], {"sync": 1, "shield": 0.2, "shield_steps": 2, "adopt": follow})
        b.main.insert(0, ["adopt", 0, cleaner])
    b.main.append(["accept", 0])
    b.helpers.append(h)
    b.meta = {"family": "stop", "trigger": trigger, "when": when, "second_sigint": second}
    if rng.random() < 0.3 and when != "late":
        return b.scenario(linger=0.5, timeout=25, perturb=rnd_perturbation(rng))
    return b.scenario(linger=0.5)


_RUNNER_FUNCS = []


def runner_functions():
    """qualified names of all functions/methods defined in the runtime's own modules (for targeted
    schedule perturbation); read from the current sources"""
    if not _RUNNER_FUNCS:
        import ast
        d = os.path.join(common.REPO, "src", "cobald", "daemon", "runners")
        for fn in sorted(os.listdir(d)):
            if not fn.endswith(".py"):
                continue
            with open(os.path.join(d, fn)) as fh:
                tree = ast.parse(fh.read())

            def walk(node, prefix):
                for n in ast.iter_child_nodes(node):
                    if isinstance(n, (ast.FunctionDef, ast.AsyncFunctionDef)):
                        _RUNNER_FUNCS.append((fn, prefix + n.name))
                        walk(n, prefix + n.name + ".<locals>.")
                    elif isinstance(n, ast.ClassDef):
                        walk(n, prefix + n.name + ".")
            walk(tree, "")
    return _RUNNER_FUNCS


PREFER_FILES = []      # set by main(): the runner modules named in the property's anchors


def rnd_perturbation(rng):
    """either many short random delays anywhere in the runtime's code, or long delays inside one or two
    randomly chosen functions of it (holding a thread in the middle of that function for several
    polling cycles)"""
    if rng.random() < 0.4:
        return {"p": rng.choice([0.01, 0.03, 0.08]), "sleep": rng.choice([0.001, 0.004, 0.015]), "seed": rng.randrange(10 ** 6)}
    allf = runner_functions()
    pref = [q for (f, q) in allf if f in PREFER_FILES] or [q for (_f, q) in allf]
    rest = [q for (_f, q) in allf]
    k = min(len(rest), rng.choice([6, 10, 16]))
    picked = set(rng.sample(pref, min(len(pref), (2 * k) // 3)))
    while len(picked) < k:
        picked.add(rng.choice(rest))
    return {"funcs": sorted(picked), "p": 0.3, "sleep": rng.choice([0.08, 0.15]),
            "max": 8, "total": 30, "seed": rng.randrange(10 ** 6), "budget_s": 30 * 0.15}


def gen_adopt(rng):
    """C03: many payloads/services, every submission context and time, several polling cycles,
    optionally a burst of adoptions racing the final shutdown"""
    b = Builder(rng, accept_delay=rng.choice([0.02, 0.05, 0.1, 0.2]))
    h = [["wait_running", 0]]
    n = rng.choice([1, 3, 5, 8, 12])
    add_bystanders(b, rng, n, h)
    # finite payloads too (return None quickly)
    for _ in range(rng.choice([0, 2, 4])):
        fl = rng.choice(FLS)
        args, kwargs = rnd_args(rng)
        pid = b.payload(fl, [["step"]], args=args, kwargs=kwargs)
        (b.main if rng.random() < 0.4 else h).append(["adopt", 0, pid])
    late = []
    h.append(["sleep", rng.choice([0.05, 0.15, 0.3])])
    for _ in range(rng.choice([0, 1, 3])):          # long after start: after several polling cycles
        fl = rng.choice(FLS)
        if rng.random() < 0.4:
            sid = b.service(fl, rnd_bystander_script(rng, fl), rnd_cleanup(rng, fl))
            h.append(["service", sid])
        else:
            args, kwargs = rnd_args(rng)
            pid = b.payload(fl, rnd_bystander_script(rng, fl), rnd_cleanup(rng, fl), args, kwargs)
            h.append(["adopt", 0, pid])
    # submission from a thread that runs a private asyncio loop (outside thread or thread payload)
    for _ in range(rng.choice([0, 0, 1, 2])):
        fl = rng.choice(FLS)
        args, kwargs = rnd_args(rng)
        pid = b.payload(fl, rnd_bystander_script(rng, fl), rnd_cleanup(rng, fl), args, kwargs)
        if rng.random() < 0.5:
            h.append(["adopt_private_loop", 0, pid])
        else:
            parent = b.payload("threading", [["adopt_private_loop", 0, pid], ["step"], ["forever"]])
            h.append(["adopt", 0, parent])
    # ONE function object adopted several times in quick succession (a worker function started n times):
    # every adoption is a payload of its own, equal callables or not
    for _ in range(rng.choice([0, 0, 1, 2])):
        fl = rng.choice(FLS)
        grp = "a%d" % rng.randrange(10 ** 6)
        script = rng.choice([[["step"]], [["step"], ["sleep", 0.3]], [["step"], ["forever"]]])
        if fl == "threading" and script[-1] == ["forever"]:
            script = [["beat", 3000, 0.01]]
        ids = []
        for _k in range(rng.choice([2, 3, 5, 12])):
            pid = b.payload(fl, script, rnd_cleanup(rng, fl))
            b.payloads[str(pid)]["shared"] = grp
            ids.append(pid)
        gap = rng.choice([0.0, 0.0, 0.0, 0.002])
        if rng.random() < 0.5:
            for pid in ids:
                h += [["adopt", 0, pid]] + ([["sleep", gap]] if gap else [])
        else:
            pfl = rng.choice(FLS)
            parent = b.payload(pfl, [["adopt", 0, pid] for pid in ids] + rnd_bystander_script(rng, pfl), rnd_cleanup(rng, pfl))
            h.append(["adopt", 0, parent])
    perturb = None
    if rng.random() < 0.5:
        perturb = rnd_perturbation(rng)
    h += [["sleep", (SETTLE + 2.5 * b.runners[0]["accept_delay"]) * (2.5 if perturb else 1.0)
           + (perturb.get("budget_s", 0.0) if perturb else 0.0)], ["mark", "settled"]]
    race = rng.random() < 0.5
    if race:
        h2 = [["wait", "burst"]]
        for _ in range(rng.choice([4, 8, 12])):
            fl = rng.choice(FLS)
            pid = b.payload(fl, [["step"]] if rng.random() < 0.5 else rnd_bystander_script(rng, fl), rnd_cleanup(rng, fl))
            h2 += [["adopt", 0, pid], ["sleep", rng.choice([0.0, 0.002, 0.005, 0.02])]]
        b.helpers.append(h2)
        # a slow shielded trio cleanup keeps the runtime in its closing window while the burst goes on
        if rng.random() < 0.6:
            slow = b.payload("trio", [["forever"]], {"sync": 1, "shield": 0.3, "shield_steps": 2})
            b.main.append(["adopt", 0, slow])
        h += [["set", "burst"], ["sleep", rng.choice([0.0, 0.005, 0.02])]]
    h.append(["shutdown", 0])
    if rng.random() < 0.3:
        # a second outside thread adopts while accept() is still launching the runners
        h3 = [["wait", "launch"]]
        for _ in range(rng.choice([2, 4, 6])):
            fl = rng.choice(FLS)
            pid = b.payload(fl, rnd_bystander_script(rng, fl), rnd_cleanup(rng, fl), *rnd_args(rng))
            h3 += [["adopt", 0, pid], ["sleep", rng.choice([0.0, 0.001, 0.003])]]
        b.helpers.append(h3)
        b.main.append(["set", "launch"])
    b.main.append(["accept", 0])
    b.helpers.insert(0, h)
    b.meta = {"family": "adopt", "race": race, "perturbed": bool(perturb)}
    if perturb:
        return b.scenario(linger=0.5, timeout=25, perturb=perturb)
    return b.scenario(linger=0.5)


def gen_exec(rng):
    """C10: execute from outside threads and from payloads of other flavours, all outcomes"""
    b = Builder(rng)
    h = [["wait_running", 0]]
    add_bystanders(b, rng, rng.choice([1, 2, 3, 4]), h)
    h.append(["sleep", 0.05])
    calls = []
    cross = rng.choice([("asyncio", "trio"), ("trio", "asyncio")])
    if rng.random() < 0.4:
        # payloads registered before the start whose FIRST action is an execute: the runners are up as soon as any
        # payload runs, whatever else of the runtime is still on its way up
        for _ in range(rng.choice([1, 2, 3])):
            cfl = rng.choice(FLS)
            fl = rng.choice([f for f in FLS if f != cfl and (cfl == "threading" or f == "threading" or (cfl, f) == cross)] or ["threading"])
            body = [["step"]] if (fl == "threading" and cfl != "threading") else [["step"], ["sleep", rng.choice([0, 0.005])]]
            end = [] if rng.random() < 0.3 else [rnd_failure(rng, allow_base=False)]
            pid = b.payload(fl, body + end)
            parent = b.payload(cfl, [["execute", 0, pid]] + rnd_bystander_script(rng, cfl), rnd_cleanup(rng, cfl))
            b.main.append(["adopt", 0, parent])
            calls.append([pid, fl, "early"])
    for _ in range(rng.choice([1, 3, 6, 10, 20])):
        fl = rng.choice(FLS)
        r = rng.random()
        end = [] if r < 0.25 else [rnd_failure(rng, allow_base=False)]
        args, kwargs = rnd_args(rng)
        pre = [["step"]] + ([["sleep", rng.choice([0, 0.005, 0.02])]] if rng.random() < 0.5 else [])
        if rng.random() < 0.3:
            pre.append(["section", 300])
        caller = rng.choice(["outside", "outside", "thread", "other", "private_trio"])
        if caller == "other" and fl == "threading":
            pre = [["step"]]             # runs in the (coroutine) caller's thread: must not block it
        pid = b.payload(fl, pre + end, args=args, kwargs=kwargs)
        if caller == "outside":
            h.append(["execute", 0, pid])
        elif caller == "private_trio":
            # a thread payload that drives a trio run of its own executes from one of that run's worker threads
            parent = b.payload("threading", [["execute_private_trio", 0, pid], ["step"], ["forever"]])
            h.append(["adopt", 0, parent])
        else:
            if caller == "thread":
                cfl = "threading"
            else:
                # a blocking execute from a coroutine payload stalls its whole loop; two loops executing
                # into each other at the same time deadlock by construction (API misuse, outside C10):
                # per scenario only ONE direction of coroutine-to-coroutine calls is generated
                cfl = rng.choice([f for f in FLS if f != fl])
                if cfl != "threading" and fl != "threading" and (cfl, fl) != cross:
                    cfl = "threading"
            parent = b.payload(cfl, [["execute", 0, pid]] + rnd_bystander_script(rng, cfl), rnd_cleanup(rng, cfl))
            h.append(["adopt", 0, parent])
        calls.append([pid, fl, caller])
    if rng.random() < 0.5:
        # the SAME payload object executed by several callers at overlapping times
        fl = rng.choice(["asyncio", "trio"])
        grp = "g%d" % rng.randrange(1000)
        for k in range(rng.choice([2, 3])):
            hk = [["wait_running", 0], ["sleep", 0.06]]
            for _ in range(rng.choice([2, 4])):
                pid = b.payload(fl, [["step"], ["sleep", rng.choice([0.005, 0.02])]])
                b.payloads[str(pid)]["shared"] = grp
                hk.append(["execute", 0, pid])
                calls.append([pid, fl, "shared"])
            b.helpers.append(hk)
    h += [["sleep", SETTLE], ["mark", "settled"], ["shutdown", 0]]
    b.main.append(["accept", 0])
    b.helpers.insert(0, h)
    b.meta = {"family": "exec", "calls": calls}
    return b.scenario(linger=0.4)


def gen_overlap(rng):
    """C11: coroutine payloads with synchronous sections, adopted / service / executed, plus
    blocking thread payloads; heartbeats must go on"""
    b = Builder(rng)
    h = [["wait_running", 0]]
    for fl in ["asyncio", "trio"]:
        for _ in range(rng.choice([1, 2, 3])):
            script = []
            for _ in range(rng.choice([20, 40])):
                script += [["section", rng.choice([200, 1000, 3000])], ["sleep", 0]]
            script += [["forever"]]
            mode = rng.random()
            if mode < 0.3:
                sid = b.service(fl, script)
                (b.main if rng.random() < 0.5 else h).append(["service", sid])
            else:
                pid = b.payload(fl, script)
                (b.main if rng.random() < 0.5 else h).append(["adopt", 0, pid])
        hb = b.payload(fl, [["beat", 3000, 0.01]])
        b.main.append(["adopt", 0, hb])
    for _ in range(rng.choice([1, 2, 4])):
        pid = b.payload("threading", [["step"], ["block", rng.choice([0.2, 0.4])], ["section", 2000], ["beat", 3000, 0.01]])
        (b.main if rng.random() < 0.5 else h).append(["adopt", 0, pid])
    # executed coroutine payloads run in the same loops
    for k in range(rng.choice([0, 1, 2])):
        h2 = [["wait_running", 0], ["sleep", 0.03]]
        for _ in range(rng.choice([3, 8])):
            fl = rng.choice(["asyncio", "trio"])
            pid = b.payload(fl, [["section", 1500], ["sleep", 0], ["section", 1500]])
            h2.append(["execute", 0, pid])
        b.helpers.append(h2)
    # coroutine payloads adopted from a thread that runs a private asyncio loop must still land in the
    # runtime's loops
    for _ in range(rng.choice([0, 1, 2])):
        fl = rng.choice(["asyncio", "trio"])
        script = []
        for _ in range(20):
            script += [["section", rng.choice([200, 1000])], ["sleep", 0]]
        pid = b.payload(fl, script + [["forever"]])
        if rng.random() < 0.5:
            h.append(["adopt_private_loop", 0, pid])
        else:
            parent = b.payload("threading", [["adopt_private_loop", 0, pid], ["step"], ["forever"]])
            h.append(["adopt", 0, parent])
    teardown = rng.random() < 0.35
    if teardown:
        # the runtime is torn down by a failure while thread payloads keep executing coroutine payloads:
        # a slow shielded trio cleanup holds the teardown window open
        slow = b.payload("trio", [["forever"]], {"sync": 1, "shield": 0.6, "shield_steps": 3})
        b.main.append(["adopt", 0, slow])
        for _ in range(2):
            script = []
            for _ in range(40):
                fl = rng.choice(["asyncio", "trio"])
                q = b.payload(fl, [["section", 800], ["sleep", 0], ["section", 800]])
                script += [["execute", 0, q], ["sleep", 0.01]]
            caller = b.payload("threading", script)
            h.append(["adopt", 0, caller])
        failing = b.payload(rng.choice(["asyncio", "threading"]), [["wait", "fail"], ["raise", 0]])
        b.main.append(["adopt", 0, failing])
        h += [["sleep", 0.25], ["set", "fail"]]
    elif rng.random() < 0.4:
        # an outside thread executes a thread payload that blocks for a long time while coroutine payloads submit
        # work from inside their loops (adopt, a new service): blocking inside thread payloads stalls nobody
        blk = b.payload("threading", [["step"], ["block", 1.4]])
        b.helpers.append([["wait_running", 0], ["sleep", 0.1], ["execute", 0, blk]])
        if rng.random() < 0.5:
            # ... and several dozen thread payloads are blocked at the same time (threads are not a scarce resource
            # the coroutine payloads would have to wait for)
            blockers = [b.payload("threading", [["block", 1.4]]) for _ in range(rng.choice([36, 48]))]
            b.helpers.append([["wait_running", 0]] + [["adopt", 0, q] for q in blockers])
            for fl in ("asyncio", "trio"):
                late = b.payload("threading", [["step"]])
                b.main.append(["adopt", 0, b.payload(fl, [["sleep", 0.35], ["adopt", 0, late], ["forever"]])])
        for fl in ("asyncio", "trio"):
            w = b.payload(rng.choice(FLS), [["step"], ["forever"]] if fl else [])
            sid = b.service(rng.choice(["asyncio", "trio"]), [["step"], ["forever"]])
            sub = b.payload(fl, [["sleep", 0.3], ["adopt", 0, w], ["sleep", 0.05], ["service", sid], ["forever"]])
            b.main.append(["adopt", 0, sub])
        h += [["sleep", 1.9 * TIME_SCALE[0]], ["shutdown", 0]]
    else:
        h += [["sleep", SETTLE + 0.3], ["mark", "settled"], ["shutdown", 0]]
    b.main.append(["accept", 0])
    b.helpers.insert(0, h)
    b.meta = {"family": "overlap", "teardown": teardown}
    return b.scenario(linger=0.3, switchinterval=rng.choice([0.005, 0.0005, 0.00005]))


def gen_lifecycle(rng):
    """C12: histories over several runner instances: accept / concurrent accept / shutdown / SIGINT /
    failing payload / accept again"""
    b = Builder(rng)
    nr = rng.choice([2, 2, 3])
    b.runners = [{"accept_delay": rng.choice([0.02, 0.05, 0.1])} for _ in range(nr + 1)]
    for r in range(1, nr):
        if rng.random() < 0.45:
            b.runners[r] = {"same_as": r - 1}      # the same runtime object is run again after its run has ended
    extra = nr           # instance used only for the rejected concurrent attempt
    h = []
    ends = []
    relay = False
    for r in range(nr):
        for _ in range(rng.choice([0, 1, 3])):
            fl = rng.choice(FLS)
            pid = b.payload(fl, rnd_bystander_script(rng, fl), rnd_cleanup(rng, fl))
            b.main.append(["adopt", r, pid])
        if r > 0 and relay:
            # the previous run ended while a slow shielded cleanup was in progress: the next run starts
            # coroutine payloads of the same flavours at once
            for fl in ("trio", "asyncio"):
                pid = b.payload(fl, [["beat", 3000, 0.01]], rnd_cleanup(rng, fl))
                b.main.append(["adopt", r, pid])
        relay = rng.random() < 0.4
        if relay:
            pid = b.payload("trio", [["beat", 3000, 0.01]], {"sync": 1, "shield": rng.choice([0.3, 0.6]), "shield_steps": 4})
            b.main.append(["adopt", r, pid])
        how = rng.choice(["shutdown", "shutdown", "sigint", "fail", "kbd", "kbd", "thread_shutdown"])
        ends.append(how)
        h.append(["wait_running", r])
        if r == 0 or rng.random() < 0.4:
            for _ in range(rng.choice([1, 2, 3])):
                h.append(["accept", extra])      # concurrent accept on another instance: must be rejected, every time
                b.runners.append({"accept_delay": 0.05})
                extra = len(b.runners) - 1
        offs = rng.choice([0.0, 0.0, 0.013, 0.05, 0.2])
        if offs:
            h.append(["sleep", offs])
        if rng.random() < 0.5:
            h += [["sleep", SETTLE], ["mark", "settled%d" % r]]
        ev = "go%d" % r
        if how == "shutdown":
            h.append(["shutdown", r])
        elif how == "sigint":
            h.append(["sigint"])
        elif how == "fail":
            fl = rng.choice(FLS)
            pid = b.payload(fl, [["wait", ev], rnd_failure(rng, allow_base=False)])
            b.main.append(["adopt", r, pid])
            h.append(["set", ev])
        elif how == "kbd":
            fl = rng.choice(["asyncio", "threading"])
            pid = b.payload(fl, [["wait", ev], ["kbd"]])
            b.main.append(["adopt", r, pid])
            h.append(["set", ev])
        else:
            pid = b.payload("threading", [["wait", ev], ["shutdown", r]])
            b.main.append(["adopt", r, pid])
            h.append(["set", ev])
        for _ in range(rng.choice([0, 0, 1, 2])):
            sfl = rng.choice(FLS)
            b.main.append(["service", b.service(sfl, rnd_bystander_script(rng, sfl), rnd_cleanup(rng, sfl))])
        if rng.random() < 0.3:
            b.main.append(["shutdown_idle", r])          # shutdown() of a runtime that is not running: no effect on its next run
            if rng.random() < 0.5:
                b.main.append(["shutdown_idle", r])
        b.main.append(["accept", r])
        h.append(["wait", "ended%d" % r])
        b.main.append(["set", "ended%d" % r])
        if rng.random() < 0.3:
            b.main.append(["shutdown_idle", r])          # ... nor has a late cleanup call after the run has ended
    b.helpers.append(h)
    b.meta = {"family": "lifecycle", "ends": ends}
    if rng.random() < 0.4:
        # (no quiescence claims under long injected delays)
        b.helpers = [[st for st in prog if st[0] != "mark"] for prog in b.helpers]
        return b.scenario(timeout=30, linger=0.3, perturb=rnd_perturbation(rng))
    return b.scenario(timeout=20, linger=0.3)


def gen_churn(rng):
    """C12/C02/C03: termination arrives while adopters keep adopting: outside threads and payloads
    *inside* the runtime (a manager coroutine or thread spawning short-lived workers every fraction of
    a millisecond) call adopt all the way through shutdown / SIGINT / a failure"""
    b = Builder(rng, accept_delay=rng.choice([0.02, 0.05]))
    h = [["wait_running", 0]]
    add_bystanders(b, rng, rng.choice([0, 1, 2, 4]), h)
    slowmo = rng.random() < 0.4      # hold the main thread inside MetaRunner's life-cycle methods (see below)

    def workers(n):
        out = []
        for _ in range(n):
            fl = rng.choice(FLS)
            r = rng.random()
            if r < 0.4:
                script = [["step"]]
            elif r < 0.7:
                script = [["step"], ["sleep", rng.choice([0.3, 1.0, 5.0])]]
            else:
                script = [["step"], ["forever"]] if fl != "threading" else [["step"], ["sleep", 0.2]]
            out.append(b.payload(fl, script, rnd_cleanup(rng, fl)))
        return out
    inside = rng.sample(FLS, rng.choice([1, 1, 2, 3]))
    for mfl in inside:
        ws = workers(rng.choice([40, 80, 120]))
        mgr = b.payload(mfl, [["adopt_many", 0, ws, rng.choice([0.0, 0.0005, 0.002])], ["forever"]],
                        rnd_cleanup(rng, mfl))
        (b.main if rng.random() < 0.5 else h).append(["adopt", 0, mgr])
    for _ in range(rng.choice([0, 1, 1, 2])):
        ws = workers(rng.choice([40, 80, 120]))
        b.helpers.append([["wait_running", 0], ["adopt_many", 0, ws, rng.choice([0.0, 0.0005, 0.002])]])
    if slowmo:
        # an outside adopter paced so that it is still adopting when the (slowed down) run is on its way out
        b.helpers.append([["wait_running", 0], ["adopt_many", 0, workers(300), 0.012]])
    trigger = rng.choice(["shutdown", "shutdown", "sigint", "thread_shutdown", "fail", "fail"])
    if slowmo and rng.random() < 0.5:
        trigger = "fail"
    h.append(["sleep", rng.choice([0.0, 0.003, 0.01, 0.03, 0.06])])
    if trigger == "shutdown":
        h.append(["shutdown", 0])
    elif trigger == "sigint":
        h.append(["sigint"])
    elif trigger == "thread_shutdown":
        pid = b.payload("threading", [["wait", "go"], ["shutdown", 0]])
        b.main.append(["adopt", 0, pid])
        h.append(["set", "go"])
    else:
        fl = rng.choice(FLS)
        pid = b.payload(fl, [["wait", "go"], rnd_failure(rng, allow_base=False)])
        b.main.append(["adopt", 0, pid])
        h.append(["set", "go"])
    b.main.append(["accept", 0])
    b.helpers.append(h)
    b.meta = {"family": "churn", "trigger": trigger, "inside": inside}
    if slowmo:
        # hold the threads inside the registry functions of MetaRunner (and only there) for many polling cycles
        names = [q for (f, q) in runner_functions() if f == "meta_runner.py" and q.startswith("MetaRunner.")
                 and q.split(".")[-1] in ("_manage_runners", "_launch_runners", "_unqueue_payloads", "_aclose_runners", "stop")]
        b.meta["perturbed"] = "registry"
        return b.scenario(linger=0.5, timeout=30, perturb={"funcs": names, "p": 0.6, "sleep": rng.choice([0.03, 0.08]),
                                                          "max": 12, "total": 40, "seed": rng.randrange(10 ** 6)})
    return b.scenario(linger=0.5, timeout=15)


STORM = ([100, 200], [60, 120])
STORM_BIG = ([400, 800], [200, 400])


def gen_storm(rng):
    """C03: very many service instances: a large population defined before start and several outside
    threads defining hundreds more at full speed while the accept loop is polling (short thread switch
    interval), then a quiet period: every one of them has been started exactly once"""
    b = Builder(rng, accept_delay=rng.choice([0.01, 0.02]))
    b.main.append(["switchinterval", rng.choice([1e-4, 2e-5])])
    big = rng.random() < 0.5
    sizes = STORM_BIG if big else STORM

    def many(n):
        out = []
        for _ in range(n):
            fl = rng.choice(FLS)
            out.append(b.service(fl, [["step"]] if fl == "threading" else rng.choice([[["step"]], [["step"], ["forever"]]])))
        return out
    b.main.append(["service_many", many(rng.choice(sizes[0]))])
    for _ in range(rng.choice([2, 3])):
        b.helpers.append([["wait_running", 0], ["service_many", many(rng.choice(sizes[1]))], ["set", "made%d" % len(b.helpers)]])
    h = [["wait_running", 0]] + [["wait", "made%d" % k] for k in range(len(b.helpers))]
    h += [["sleep", SETTLE + 0.6], ["mark", "settled"], ["shutdown", 0]]
    b.main.append(["accept", 0])
    b.helpers.append(h)
    b.meta = {"family": "storm", "services": b.ns, "oracle_only": big}
    return b.scenario(linger=0.5, timeout=40, oracle_only=big)


FAMILIES = {"storm": gen_storm, "churn": gen_churn, "fail": gen_fail, "stop": gen_stop, "adopt": gen_adopt, "exec": gen_exec,
            "overlap": gen_overlap, "lifecycle": gen_lifecycle}

MIX = {
    "C01": [("fail", 0.8), ("stop", 0.1), ("lifecycle", 0.1)],
    "C02": [("stop", 0.55), ("fail", 0.27), ("lifecycle", 0.08), ("churn", 0.1)],
    "C03": [("adopt", 0.66), ("stop", 0.07), ("fail", 0.06), ("churn", 0.08), ("storm", 0.06), ("lifecycle", 0.07)],
    "C10": [("exec", 0.9), ("overlap", 0.1)],
    "C11": [("overlap", 0.6), ("exec", 0.25), ("lifecycle", 0.15)],
    "C12": [("lifecycle", 0.45), ("stop", 0.35), ("churn", 0.2)],
}
N_QUICK = {"C01": 128, "C02": 96, "C03": 80, "C10": 72, "C11": 48, "C12": 72}
N_THOROUGH = {"C01": 900, "C02": 900, "C03": 700, "C10": 600, "C11": 400, "C12": 400}


def corpus(pid):
    """hand-written boundary scenarios, always run first"""
    out = []
    if pid == "C01":
        # every falsy return value / each flavour, registered before start, with a bystander
        k = 0
        for vid in range(N_VALUES):
            fl = FLS[k % 3]
            k += 1
            out.append({"runners": [{"accept_delay": 0.05}],
                        "payloads": {"0": {"flavour": fl, "script": [["wait", "fail"], ["return", vid]]},
                                     "1": {"flavour": FLS[(k + 1) % 3], "script": [["beat", 3000, 0.01]]}},
                        "services": {}, "main": [["adopt", 0, 0], ["adopt", 0, 1], ["accept", 0]],
                        "helpers": [[["wait_running", 0], ["sleep", 0.2], ["mark", "m"], ["set", "fail"]]],
                        "timeout": 10, "linger": 0.3,
                        "meta": {"family": "fail", "fails": [["p", 0, fl, ["return", vid]]], "immediate": False}})
        # every kind of exception / each flavour, alone (incl. the falsy CustomError, a group, BaseException subclasses)
        for eid in range(N_EXC - 1):
            for fl in FLS:
                if eid >= N_EXC_EXCEPTION and fl != FLS[eid % 3]:
                    continue
                out.append({"runners": [{"accept_delay": 0.05}],
                            "payloads": {"0": {"flavour": fl, "script": [["wait", "fail"], ["raise", eid]]},
                                         "1": {"flavour": FLS[(eid + 1) % 3], "script": [["beat", 3000, 0.01]]}},
                            "services": {}, "main": [["adopt", 0, 0], ["adopt", 0, 1], ["accept", 0]],
                            "helpers": [[["wait_running", 0], ["sleep", 0.15], ["set", "fail"]]],
                            "timeout": 10, "linger": 0.3,
                            "meta": {"family": "fail", "fails": [["p", 0, fl, ["raise", eid]]], "immediate": False}})
        # a payload that fails when it is CALLED (a plain callable that never becomes a coroutine), each flavour, alone
        for k, fl in enumerate(FLS):
            out.append({"runners": [{"accept_delay": 0.05}],
                        "payloads": {"0": {"flavour": fl, "script": [], "callfail": k},
                                     "1": {"flavour": FLS[(k + 1) % 3], "script": [["beat", 3000, 0.01]]}},
                        "services": {}, "main": [["adopt", 0, 1], ["accept", 0]],
                        "helpers": [[["wait_running", 0], ["sleep", 0.15], ["adopt", 0, 0]]],
                        "timeout": 10, "linger": 0.3,
                        "meta": {"family": "fail", "fails": [["p", 0, fl, ["raise", k]]], "immediate": True}})
        # a payload fails while a coroutine bystander of the other loop is inside a synchronous cross-flavour execute
        # (the closing runners must not wait for each other): both directions x a failing asyncio / thread payload
        for (cfl, tfl) in (("trio", "asyncio"), ("asyncio", "trio")):
            for ffl in ("asyncio", "threading"):
                if ffl == cfl:
                    continue
                payloads = {"0": {"flavour": cfl, "script": [["execute", 0, k] for k in range(10, 30)] + [["forever"]]},
                            "1": {"flavour": ffl, "script": [["wait", "fail"], ["raise", 0]]}}
                for k in range(10, 30):
                    payloads[str(k)] = {"flavour": tfl, "script": [["step"], ["sleep", 0.03]]}
                out.append({"runners": [{"accept_delay": 0.05}], "payloads": payloads, "services": {},
                            "main": [["adopt", 0, 1], ["accept", 0]],
                            "helpers": [[["wait_running", 0], ["adopt", 0, 0], ["sleep", 0.2], ["set", "fail"]]],
                            "timeout": 10, "linger": 0.3,
                            "meta": {"family": "fail", "fails": [["p", 1, ffl, ["raise", 0]]], "immediate": False}})
        # two flavours failing at the same time, adopted from inside another payload
        out.append({"runners": [{"accept_delay": 0.05}],
                    "payloads": {"0": {"flavour": "asyncio", "script": [["wait", "fail"], ["raise", 0]]},
                                 "1": {"flavour": "trio", "script": [["wait", "fail"], ["return", 0]]},
                                 "2": {"flavour": "threading", "script": [["adopt", 0, 0], ["adopt", 0, 1], ["forever"]]},
                                 "3": {"flavour": "trio", "script": [["forever"]], "cleanup": {"sync": 1, "shield": 0.1}}},
                    "services": {}, "main": [["adopt", 0, 3], ["accept", 0]],
                    "helpers": [[["wait_running", 0], ["adopt", 0, 2], ["sleep", 0.3], ["mark", "m"], ["set", "fail"]]],
                    "timeout": 10, "linger": 0.3,
                    "meta": {"family": "fail", "fails": [["p", 0, "asyncio", ["raise", 0]], ["p", 1, "trio", ["return", 0]]], "immediate": False}})
    if pid == "C03":
        # adoption from an outside thread WHILE accept() is launching the runners (fixed defect
        # C03-adopt-during-launch): the launch is held open by delays inside the launching functions
        for seed in (3, 5, 8):
            out.append({"runners": [{"accept_delay": 0.05}],
                        "payloads": {str(k): {"flavour": FLS[k % 3], "script": [["forever"]], "args": [k]} for k in range(6)},
                        "services": {}, "main": [["set", "go"], ["accept", 0]],
                        "helpers": [[["wait", "go"], ["adopt", 0, 0], ["adopt", 0, 1], ["adopt", 0, 2], ["sleep", 0.002],
                                     ["adopt", 0, 3], ["adopt", 0, 4], ["adopt", 0, 5], ["sleep", 2.5], ["mark", "m"], ["shutdown", 0]]],
                        "perturb": {"funcs": ["MetaRunner.register_payload", "MetaRunner._launch_runners",
                                              "MetaRunner._unqueue_payloads", "MetaRunner._manage_runners"],
                                    "p": 0.5, "sleep": 0.05, "max": 8, "total": 40, "seed": seed},
                        "timeout": 15, "linger": 0.3, "meta": {"family": "adopt", "launch_race": True}})
    if pid in ("C02", "C03", "C12"):
        # fixed defect C12-cross-flavour-register-deadlock: a trio payload keeps executing asyncio payloads
        # while an asyncio payload (and the pre-start queue) keeps adopting trio payloads; then shutdown
        payloads = {"0": {"flavour": "trio", "script": [["execute", 0, k] for k in range(10, 22)] + [["forever"]]},
                    "1": {"flavour": "asyncio", "script": [["adopt", 0, k] for k in range(30, 36)] + [["forever"]]},
                    "2": {"flavour": "trio", "script": [["execute", 0, 22], ["forever"]]},
                    "3": {"flavour": "trio", "script": [["step"], ["forever"]]}}
        for k in range(10, 23):
            payloads[str(k)] = {"flavour": "asyncio", "script": [["step"], ["sleep", 0.03]]}
        for k in range(30, 36):
            payloads[str(k)] = {"flavour": "trio", "script": [["step"], ["forever"]]}
        out.append({"runners": [{"accept_delay": 0.05}], "payloads": payloads, "services": {},
                    "main": [["adopt", 0, 2], ["adopt", 0, 3], ["accept", 0]],
                    "helpers": [[["wait_running", 0], ["adopt", 0, 0], ["adopt", 0, 1], ["sleep", 0.6], ["shutdown", 0]]],
                    "timeout": 10, "linger": 0.3, "meta": {"family": "stop", "trigger": "shutdown", "when": "late"}})
    if pid in ("C02", "C12"):
        # a coroutine payload stops the runtime through a worker thread it waits for (trio.to_thread / run_in_executor)
        for fl in ("trio", "asyncio"):
            out.append({"runners": [{"accept_delay": 0.05}],
                        "payloads": {"0": {"flavour": fl, "script": [["wait", "go"], ["shutdown_via_thread", 0], ["forever"]]},
                                     "1": {"flavour": "trio", "script": [["beat", 3000, 0.01]], "cleanup": {"sync": 1, "shield": 0.2, "shield_steps": 2}},
                                     "2": {"flavour": "asyncio", "script": [["beat", 3000, 0.01]], "cleanup": {"sync": 2}},
                                     "3": {"flavour": "threading", "script": [["beat", 3000, 0.01]]}},
                        "services": {}, "main": [["adopt", 0, 0], ["adopt", 0, 1], ["adopt", 0, 2], ["adopt", 0, 3], ["accept", 0]],
                        "helpers": [[["wait_running", 0], ["sleep", 0.2], ["set", "go"]]],
                        "timeout": 10, "linger": 0.4, "meta": {"family": "stop", "trigger": "coroutine_shutdown", "when": "mid"}})
    if pid == "C02":
        for fl in ("asyncio", "threading"):
            out.append({"runners": [{"accept_delay": 0.05}],
                        "payloads": {"0": {"flavour": fl, "script": [["wait", "go"], ["raise", 12]]},
                                     "1": {"flavour": "trio", "script": [["forever"]], "cleanup": {"sync": 1, "shield": 0.3, "shield_steps": 3}},
                                     "2": {"flavour": "asyncio", "script": [["forever"]], "cleanup": {"sync": 2}}},
                        "services": {}, "main": [["adopt", 0, 0], ["adopt", 0, 1], ["adopt", 0, 2], ["accept", 0]],
                        "helpers": [[["wait_running", 0], ["sleep", 0.2], ["set", "go"]]],
                        "timeout": 10, "linger": 0.7, "meta": {"family": "fail", "fails": [["p", 0, fl, ["raise", 12]]]}})
    if pid == "C10":
        # known finding witness: asyncio payload raising TimeoutError executed from an outside thread;
        # plus every other exception class / a falsy value for each flavour
        payloads = {"0": {"flavour": "trio", "script": [["beat", 3000, 0.01]]}}
        h = [["wait_running", 0]]
        k = 1
        for fl in FLS:
            for end in (["raise", 11], ["raise", 0], ["return", 0], ["return", 10], None):
                payloads[str(k)] = {"flavour": fl, "script": [["step"]] + ([end] if end else []), "args": [k, "a"], "kwargs": {"k": None}}
                h.append(["execute", 0, k])
                k += 1
        h += [["sleep", 0.2], ["mark", "m"], ["shutdown", 0]]
        out.append({"runners": [{"accept_delay": 0.05}], "payloads": payloads, "services": {},
                    "main": [["adopt", 0, 0], ["accept", 0]], "helpers": [h], "timeout": 10, "linger": 0.3,
                    "meta": {"family": "exec"}})
    return out


def gen_scenarios(pid, rng, n):
    out = corpus(pid)
    for scn in out:          # hand-written scenarios: time bounds and quiet periods follow the machine's load, too
        scn["timeout"] = scn.get("timeout", 10) * TIME_SCALE[0]
        for prog in scn.get("helpers", []):
            for st in prog:
                if st[0] == "sleep" and st[1] >= 0.1:
                    st[1] = st[1] * TIME_SCALE[0]
    fams, weights = zip(*MIX[pid])
    while len(out) < n:
        fam = rng.choices(fams, weights)[0]
        out.append(FAMILIES[fam](rng))
    return out[:max(n, len(corpus(pid)))]


# ------------------------------------------------------------------------------------------
# python oracles: the properties restated on the raw log (independent of the Coq model)
# ------------------------------------------------------------------------------------------
class View:
    def __init__(self, scn, res):
        self.scn, self.res = scn, res
        self.log = res.get("log", [])
        self.ev = [(i, r["t"], r["tid"], r["ev"]) for i, r in enumerate(self.log)]

    def find(self, name, pred=lambda e: True):
        return [(i, t, tid, e) for (i, t, tid, e) in self.ev if e[0] == name and pred(e)]

    def spec(self, kind, n):
        return (self.scn["payloads"] if kind == "p" else self.scn["services"])[str(n)]

    def owner_of(self):
        """map (kind, n) -> runner id (payloads: from AdoptCall/ExecCall; services: runner accepting at Start)"""
        own = {}
        for (_i, _t, _tid, e) in self.ev:
            if e[0] == "AdoptCall":
                own[("p", e[3])] = e[2]
            elif e[0] == "ExecCall":
                own[("p", e[3])] = e[2]
        # a service belongs to the runner whose (admitted) accept call is in progress when its run starts
        live = None
        for (_i, _t, _tid, e) in self.ev:
            if e[0] == "AcceptCall" and live is None:
                live = e[2]
            elif e[0] == "AcceptEnd":
                if e[3] != ["exclusive"] and e[2] == live:
                    live = None
            elif e[0] == "AcceptCall":
                # a concurrent call: rejected as exclusive on a correct runtime (its AcceptEnd says so); the runner
                # already accepting stays the owner
                pass
            if e[0] == "Start" and e[1] == "s":
                own.setdefault(("s", e[2]), live if live is not None else 0)
        return own


def harness_problems(v):
    out = []
    if v.res.get("crash"):
        out.append("scenario process crashed: %s" % v.res["crash"][-400:])
    for (_i, _t, _tid, e) in v.find("HarnessError"):
        out.append("harness error: %s" % e[1])
    if v.find("Timeout") or (v.log and not v.find("End")):
        out.append("scenario did not finish within its time bound")
    if not v.log and not v.res.get("crash"):
        out.append("empty log")
    return out


def executed_ids(v):
    return {e[3] for (_i, _t, _tid, e) in v.find("ExecCall")}


def oracle_C01(v):
    out = []
    ex = executed_ids(v)
    own = v.owner_of()
    triggers = [i for (i, _t, _tid, e) in v.ev if e[0] in ("Sigint", "ShutdownCall") or (e[0] == "Finish" and e[3] == "kbd")]
    first_trigger = min(triggers) if triggers else None
    for (i, t, _tid, e) in v.find("Finish"):
        kind, n, fk, ident = e[1], e[2], e[3], e[4]
        if kind == "p" and n in ex:
            continue
        if fk not in ("ret_val", "raise"):
            continue
        r = own.get((kind, n), 0)
        ends = [(j, e2) for (j, _t2, _tid2, e2) in v.find("AcceptEnd") if e2[2] == r]
        calls = [j for (j, _t2, _tid2, e2) in v.find("AcceptCall") if e2[2] == r]
        if not calls or calls[0] > i:
            continue          # failed before the runtime was even started (not possible for scripted payloads)
        if ends and ends[0][0] < i:
            continue          # thread payload failing after the run has ended
        if first_trigger is not None and first_trigger < i:
            continue          # failure during a requested stop/interrupt: outside C01 (C12 governs)
        if not ends:
            out.append("no-end: background %s%d failed (%s %s) but the run of runner %d never ended" % (kind, n, fk, ident, r))
            continue
        o = ends[0][1][3]
        later_trigger = [x for x in triggers if i < x < ends[0][0]]
        if o[0] == "returned":
            if not later_trigger:
                out.append("silent-return: background %s%d failed (%s %s) but accept returned normally" % (kind, n, fk, ident))
            continue
        exception_like = (fk == "ret_val") or (ident is not None and ident < N_EXC_EXCEPTION)
        allf = [e2 for (_j, _t2, _tid2, e2) in v.find("Finish") if e2[3] in ("ret_val", "raise", "kbd") and not (e2[1] == "p" and e2[2] in ex)]
        all_exception_like = all((f[3] == "ret_val") or (f[3] == "raise" and f[4] < N_EXC_EXCEPTION) for f in allf)
        if o[0] == "runtime":
            leaves = o[1]
            if not leaves:
                out.append("no-cause: RuntimeError without cause leaves")
            for leaf in leaves:
                okl = False
                for f in allf:
                    if leaf[0] in ("exc", "svc_exc") and f[3] == "raise" and f[2] == leaf[1] and (f[1] == "p") == (leaf[0] == "exc"):
                        okl = True
                    if leaf[0] in ("orphan", "svc_orphan") and f[3] == "ret_val" and f[2] == leaf[1] and (f[1] == "p") == (leaf[0] == "orphan"):
                        okl = True
                if not okl:
                    out.append("wrong-cause: cause leaf %s is not an original failure" % (leaf,))
        elif o[0] == "other":
            if all_exception_like:
                out.append("wrong-type: only Exception-like failures but accept raised %s instead of RuntimeError" % o[1])
        elif o[0] == "exclusive":
            out.append("wrong-type: exclusive error for a running runner")
    return out


def coroutine_keys(v):
    ks = {}
    for (_i, _t, _tid, e) in v.find("Start"):
        if e[3] in ("asyncio", "trio"):
            ks[(e[1], e[2])] = e[3]
    return ks


def oracle_C02(v):
    out = []
    own = v.owner_of()
    ex = executed_ids(v)
    cor = coroutine_keys(v)
    for (j, _t, _tid, e) in v.find("AcceptEnd"):
        r = e[2]
        if e[3][0] == "exclusive":
            continue
        # known finding: SystemExit raised by an asyncio/thread background payload kills the asyncio loop;
        # accept() then raises while trio payloads are still unwinding
        loopkill = any(e2[3] == "raise" and e2[4] == 12 and not (e2[1] == "p" and e2[2] in ex)
                       and v.spec(e2[1], e2[2])["flavour"] != "trio" and own.get((e2[1], e2[2]), 0) == r
                       for (i2, _t2, _x2, e2) in v.find("Finish") if i2 < j)
        n0 = len(out)
        for key, fl in cor.items():
            if own.get(key, 0) != r or (key[0] == "p" and key[1] in ex):
                continue
            st = [i for (i, _t2, _tid2, e2) in v.find("Start") if (e2[1], e2[2]) == key]
            if not st or st[0] > j:
                if st and st[0] > j:
                    out.append("step-after-end: %s%d started after accept of runner %d ended" % (key[0], key[1], r))
                continue
            fin = [i for (i, _t2, _tid2, e2) in v.find("Finish") if (e2[1], e2[2]) == key and i < j]
            if fin:
                continue
            can = [i for (i, _t2, _tid2, e2) in v.find("Cancelled") if (e2[1], e2[2]) == key and i < j]
            cln = [i for (i, _t2, _tid2, e2) in v.find("CleanupDone") if (e2[1], e2[2]) == key and i < j]
            if not can:
                out.append("not-cancelled: %s payload %s%d still running when accept of runner %d ended" % (fl, key[0], key[1], r))
            elif not cln or cln[0] < can[0]:
                out.append("cleanup-unfinished: %s payload %s%d cancelled but cleanup not finished when accept ended" % (fl, key[0], key[1]))
            for (i, _t2, _tid2, e2) in v.ev[j + 1:]:
                if e2[0] in ("Step", "Enter", "CleanStep", "Finish", "Cancelled") and (e2[1], e2[2]) == key:
                    out.append("step-after-end: %s payload %s%d executed %s after accept ended" % (fl, key[0], key[1], e2[0]))
                    break
        if loopkill:
            out[n0:] = [("KNOWN:C02-systemexit-skips-trio-cleanup:" + m) if " trio payload" in m else m for m in out[n0:]]
    return out


def oracle_C03(v):
    out = []
    starts = {}
    for (i, _t, _tid, e) in v.find("Start"):
        starts.setdefault((e[1], e[2]), []).append((i, e))
    for key, lst in starts.items():
        if len(lst) > 1:
            out.append("duplicate-start: %s%d started %d times" % (key[0], key[1], len(lst)))
        for (_i, e) in lst:
            spec = v.spec(*key)
            if e[3] != spec["flavour"]:
                out.append("wrong-flavour: %s%d asked %s ran as %s" % (key[0], key[1], spec["flavour"], e[3]))
            if e[4] <= 0 and e[3] != "threading":
                out.append("wrong-flavour: %s%d (%s) does not see its runner's loop" % (key[0], key[1], e[3]))
            if e[3] == "threading" and e[4] != 0 and not (key[0] == "p" and key[1] in executed_ids(v)):
                # (an EXECUTED thread payload runs in its caller's thread, which may be a loop thread)
                out.append("wrong-flavour: thread payload %s%d runs inside an event loop" % (key[0], key[1]))
            if not e[6]:
                out.append("wrong-args: %s%d received %s %s" % (key[0], key[1], e[7], e[8]))
    ends = {e[2]: i for (i, _t, _tid, e) in v.find("AcceptEnd")}
    for (i, _t, _tid, e) in v.find("Adopt"):
        if e[5] != "ok":
            r = e[2]
            if r in ends and ends[r] < i:
                continue
            out.append("adopt-raised: adopt of p%d into runner %d gave %s" % (e[3], e[2], e[5]))
    marks = v.find("Mark")
    trig = [i for (i, _t, _tid, e) in v.ev if e[0] in ("Sigint", "ShutdownCall") or (e[0] == "Finish" and e[3] in ("ret_val", "raise", "kbd"))]
    for (m, _t, _tid, _e) in marks:
        if any(x < m for x in trig):
            continue
        # exactly-once at quiescence: everything adopted / created before the mark has started
        for (i, _t2, _tid2, e) in v.find("AdoptCall"):
            if i < m and not [s for s in starts.get(("p", e[3]), []) if s[0] < m]:
                acc = [j for (j, _t3, _tid3, e3) in v.find("AcceptCall") if e3[2] == e[2] and j < m]
                if acc:
                    out.append("lost: p%d adopted before the quiet mark was never started" % e[3])
        for (i, _t2, _tid2, e) in v.find("NewService"):
            if i < m and not v.spec("s", e[2]).get("drop") and not [s for s in starts.get(("s", e[2]), []) if s[0] < m]:
                out.append("lost: service s%d created before the quiet mark was never started" % e[2])
    return out


def oracle_C10(v):
    out = []
    trig0 = [i for (i, _t, _tid, e) in v.ev if e[0] in ("ShutdownCall", "Sigint")
             or (e[0] == "Finish" and e[3] in ("ret_val", "raise", "kbd") and not (e[1] == "p" and e[2] in executed_ids(v)))]
    for (i, _t, _tid, e) in v.find("ExecEnd"):
        pid, o = e[3], e[4]
        if o[0] == "aborted":
            if not trig0 or min(trig0) > i:
                out.append("exec-outcome: execute of p%d was broken off (%s) although the runtime was not stopping" % (pid, o[1]))
            continue
        if "shared" in v.spec("p", pid):
            # runs of one shared function object are interchangeable (all return None)
            if o[0] != "ret_none":
                out.append("exec-outcome: caller of shared payload p%d saw %s, every run returns None" % (pid, o))
            continue
        fin = [e2 for (_j, _t2, _tid2, e2) in v.find("Finish") if e2[1] == "p" and e2[2] == pid]
        st = [e2 for (_j, _t2, _tid2, e2) in v.find("Start") if e2[1] == "p" and e2[2] == pid]
        if len(st) != 1:
            out.append("exec-count: executed p%d ran %d times" % (pid, len(st)))
            continue
        if not st[0][6]:
            out.append("exec-args: executed p%d received wrong arguments" % pid)
        if st[0][3] != v.spec("p", pid)["flavour"] or (st[0][3] != "threading" and st[0][4] <= 0):
            out.append("exec-flavour: executed p%d did not run in its flavour's runner" % pid)
        if not fin:
            out.append("exec-outcome: execute returned but p%d never finished" % pid)
            continue
        f = fin[0]
        if (len(o) > 2 and o[2] == "copy" and st[0][3] == "asyncio" and f[3] == "raise" and f[4] == 11
                and (o[0], o[1]) == (f[3], f[4])):
            # asyncio.run_coroutine_threadsafe re-creates TimeoutError while chaining futures
            out.append("KNOWN:C10-asyncio-timeouterror-copied: execute(flavour=asyncio) re-raised an equal copy of the payload's TimeoutError, not the same object (p%d)" % pid)
        elif (o[0], (o[1] if len(o) > 1 else None)) != (f[3], f[4]) or (len(o) > 2 and o[2] != "same"):
            out.append("exec-outcome: caller saw %s but p%d ended with %s %s" % (o, pid, f[3], f[4]))
    calls = {e[3] for (_i, _t, _tid, e) in v.find("ExecCall")}
    done = {e[3] for (_i, _t, _tid, e) in v.find("ExecEnd")}
    for pid in calls - done:
        out.append("exec-no-return: execute of p%d never returned" % pid)
    # the runtime must keep running: no accept end before the harness's own shutdown
    sh = [i for (i, _t, _tid, e) in v.ev if e[0] in ("ShutdownCall", "Sigint")]
    bg_fail = [i for (i, _t, _tid, e) in v.find("Finish") if e[3] in ("ret_val", "raise", "kbd") and not (e[1] == "p" and e[2] in calls)]
    for (j, _t, _tid, e) in v.find("AcceptEnd"):
        if e[3][0] != "returned" and not bg_fail and e[3][0] != "exclusive":
            out.append("exec-disturbed: accept ended with %s although only executed payloads failed" % (e[3],))
        if (not sh or j < sh[0]) and not bg_fail and e[3][0] != "exclusive":
            out.append("exec-disturbed: accept ended before the harness asked for shutdown")
    if v.scn.get("meta", {}).get("family") == "exec":
        for (i, _t, _tid, e) in v.find("Cancelled"):
            if not sh or i < sh[0]:
                out.append("exec-disturbed: bystander %s%d cancelled before shutdown" % (e[1], e[2]))
    return out


def oracle_C11(v):
    out = []
    if v.res.get("overlaps"):
        out.append("overlap: non-atomic section counter saw two %s payloads inside at once: %s" % (v.res["overlaps"][0][0], v.res["overlaps"][:3]))
    own = v.owner_of()
    homes = {}
    thr = {}
    ex = executed_ids(v)
    for (_i, _t, tid, e) in v.find("Start"):
        key = (e[1], e[2])
        r = own.get(key, 0)
        if e[3] in ("asyncio", "trio"):
            h = homes.setdefault((r, e[3]), (tid, e[4]))
            if h != (tid, e[4]):
                out.append("second-loop: %s payload %s%d runs on thread/loop %s, others on %s" % (e[3], e[1], e[2], (tid, e[4]), h))
            if e[5]:
                out.append("second-loop: %s payload %s%d sees a foreign event loop too" % (e[3], e[1], e[2]))
        elif not (e[1] == "p" and e[2] in ex):
            thr[key] = tid
    for key, tid in thr.items():
        for (rf, h) in homes.items():
            if h[0] == tid:
                out.append("thread-in-loop: thread payload %s%d runs on the %s loop thread" % (key[0], key[1], rf[1]))
    # interleaving of Enter/Exit in the log
    inside = {}
    cor = coroutine_keys(v)
    for (_i, _t, _tid, e) in v.ev:
        if e[0] == "Enter" and (e[1], e[2]) in cor:
            fl = cor[(e[1], e[2])]
            r = own.get((e[1], e[2]), 0)
            if inside.get((r, fl)):
                out.append("overlap: %s payloads %s and %s%d inside sections at once" % (fl, inside[(r, fl)], e[1], e[2]))
            inside[(r, fl)] = "%s%d" % (e[1], e[2])
        elif e[0] == "Exit" and (e[1], e[2]) in cor:
            inside[(own.get((e[1], e[2]), 0), cor[(e[1], e[2])])] = None
    # the synchronous part of a coroutine payload (a decorator's body, a lambda) runs where its coroutine runs
    start_tid = {(e[1], e[2]): tid for (_i, _t, tid, e) in v.find("Start")}
    for (_i, _t, tid, e) in v.find("Call"):
        key = (e[1], e[2])
        if key in cor and key in start_tid and start_tid[key] != tid:
            out.append("off-loop: the synchronous part of %s payload %s%d ran on thread %s, its coroutine on thread %s"
                       % (cor[key], key[0], key[1], tid, start_tid[key]))
    # two loops of one flavour at once: a coroutine payload of a run that has ENDED is still executing (steps,
    # cleanup) after a coroutine payload of the same flavour of a later run has started
    ended = {}
    for (i, _t, _tid, e) in v.ev:
        if e[0] == "AcceptEnd" and e[3] != ["exclusive"]:
            ended.setdefault(e[2], i)
    later_start = {}
    for (i, _t, _tid, e) in v.find("Start"):
        key = (e[1], e[2])
        if e[3] in ("asyncio", "trio") and own.get(key) is not None:
            for r0, i0 in ended.items():
                if own[key] != r0 and i > i0:
                    later_start.setdefault((r0, e[3]), (i, "%s%d" % key))
    for (i, _t, _tid, e) in v.ev:
        if e[0] in ("Step", "CleanStep", "CleanupDone", "Enter") and (e[1], e[2]) in cor:
            key = (e[1], e[2])
            r0 = own.get(key)
            ls = later_start.get((r0, cor[key]))
            if ls and i > ls[0]:
                out.append("parallel-loops: %s payload %s%d of the ended run of runner %s still executes (%s) after %s of a later "
                           "run has started" % (cor[key], key[0], key[1], r0, e[0], ls[1]))
                break
    # coroutine heartbeats go on while thread payloads block
    if v.scn.get("meta", {}).get("family") == "overlap":
        end = [t for (_i, t, _tid, e) in v.ev if e[0] in ("ShutdownCall", "Sigint")]
        tend = end[0] if end else 1e9
        for key, fl in cor.items():
            spec = v.spec(*key)
            if spec["script"] and spec["script"][0][0] == "beat" and spec["script"][0][2] <= 0.011:
                ts = [t for (_i, t, _tid, e) in v.find("Step") if (e[1], e[2]) == key and t < tend]
                gaps = [b - a for a, b in zip(ts, ts[1:])]
                if gaps and max(gaps) > 1.0:
                    out.append("stall: %s heartbeat %s%d stalled for %.2fs" % (fl, key[0], key[1], max(gaps)))
    return out


def oracle_C12(v):
    out = []
    for (_i, _t, _tid, e) in v.find("IdleShutdown"):
        if e[3] != "ok":
            out.append("idle-shutdown: shutdown() of runner %d while it was not running gave %s" % (e[2], e[3]))
    live = None
    for (i, t, _tid, e) in v.ev:
        if e[0] == "AcceptCall":
            pass
        if e[0] == "AcceptEnd":
            r, o = e[2], e[3]
            call = [(j, t2) for (j, t2, _x, e2) in v.find("AcceptCall") if e2[2] == r]
            others = [(j, e2) for (j, _t2, _x, e2) in v.find("AcceptCall") if e2[2] != r and j < call[0][0]]
            active_other = False
            for (j, e2) in others:
                endj = [k for (k, _t3, _x3, e3) in v.find("AcceptEnd") if e3[2] == e2[2]]
                if not endj or endj[0] > call[0][0]:
                    # the other accept was in progress when r called accept; was it a rejected one itself?
                    oo = [e3[3] for (_k, _t3, _x3, e3) in v.find("AcceptEnd") if e3[2] == e2[2]]
                    if not oo or oo[0][0] != "exclusive":
                        active_other = True
            if o[0] == "exclusive" and not active_other:
                out.append("guard-leak: accept of runner %d rejected although no other runner was accepting" % r)
            if o[0] != "exclusive" and active_other:
                out.append("not-exclusive: runner %d accepted while another runner was accepting" % r)
    for (i, t, _tid, e) in v.find("ShutdownCall"):
        r = e[2]
        send = [(j, t2, e2) for (j, t2, _x, e2) in v.find("ShutdownEnd") if e2[2] == r and j > i]
        aend = [(j, t2, e2) for (j, t2, _x, e2) in v.find("AcceptEnd") if e2[2] == r]
        if not send:
            out.append("shutdown-hangs: shutdown() of runner %d never returned" % r)
        elif send[0][2][3] != "ok":
            out.append("shutdown-raised: %s" % send[0][2][3])
        if not aend:
            out.append("accept-hangs: accept of runner %d did not end after shutdown" % r)
        else:
            fails = [j for (j, _t2, _x, e2) in v.find("Finish") if e2[3] in ("ret_val", "raise") and j < aend[0][0]]
            if aend[0][2][3][0] != "returned" and not fails:
                out.append("shutdown-not-graceful: accept of runner %d ended with %s after shutdown" % (r, aend[0][2][3]))
            if aend[0][1] - t > 5.0:
                out.append("shutdown-slow: accept took %.1fs to end after shutdown" % (aend[0][1] - t))
    for (i, t, _tid, e) in v.find("Sigint"):
        aend = [(j, t2, e2) for (j, t2, _x, e2) in v.find("AcceptEnd") if j > i and e2[3][0] != "exclusive"]
        fails = [j for (j, _t2, _x, e2) in v.find("Finish") if e2[3] in ("ret_val", "raise")]
        if not aend:
            out.append("accept-hangs: accept did not end after SIGINT")
        elif aend[0][2][3][0] != "returned" and not fails:
            out.append("sigint-not-graceful: accept ended with %s after SIGINT" % (aend[0][2][3],))
    return out


ORACLES = {"C01": oracle_C01, "C02": oracle_C02, "C03": oracle_C03, "C10": oracle_C10,
           "C11": oracle_C11, "C12": oracle_C12}

RULES = {
    "C01": "scenarios = flavour x failure kind (13 return values incl. all falsy ones, 12 Exception classes incl. ExceptionGroup, SystemExit, custom BaseException) x registration (queued, adopted from outside thread, adopted from inside a payload of each flavour, service) x 0-6 bystanders x 1-3 simultaneous failures; non-trivial = trace contains a failing background payload",
    "C02": "scenarios = trigger (shutdown, SIGINT, shutdown from thread payload, KeyboardInterrupt payload, failure) x trigger time x 0-7 coroutine/thread bystanders with sync / shielded cleanup; non-trivial = at least one coroutine payload running at the trigger",
    "C03": "scenarios = 1-12 payloads and services of all flavours with argument tuples/dicts, submitted before start / after start / long after start / from inside payloads, accept_delay 0.02-0.2, optional burst of adoptions racing shutdown; non-trivial = >= 3 adoptions",
    "C10": "scenarios = 1-20 execute calls x flavour x caller (outside thread, thread payload, coroutine payload of another flavour) x outcome (None, 13 values, 12 exception classes) with heartbeat bystanders; non-trivial = >= 1 execute with a non-None outcome",
    "C11": "scenarios = 1-3 section-spinning coroutine payloads per flavour (adopted, service, executed) + blocking thread payloads + heartbeats, switch interval 5e-5..5e-3; non-trivial = >= 2 coroutine payloads of one flavour with sections",
    "C12": "scenarios = histories over 2-3 runner instances of accept / concurrent accept / shutdown / SIGINT / failing payload / KeyboardInterrupt / accept again with 0-3 payloads each; non-trivial = >= 2 accepts ended",
}


def nontrivial(pid, v):
    if pid == "C01":
        return bool([1 for (_i, _t, _x, e) in v.find("Finish") if e[3] in ("ret_val", "raise")])
    if pid == "C02":
        return bool(v.find("Cancelled"))
    if pid == "C03":
        return len(v.find("AdoptCall")) + len(v.find("NewService")) >= 3
    if pid == "C10":
        return bool([1 for (_i, _t, _x, e) in v.find("ExecEnd") if e[4][0] != "ret_none"])
    if pid == "C11":
        return len(v.find("Enter")) >= 4
    if pid == "C12":
        return len(v.find("AcceptEnd")) >= 2
    return True


# ------------------------------------------------------------------------------------------
# driver
# ------------------------------------------------------------------------------------------
def diagnose(pid, trace_term):
    """ask Coq where the model rejects the trace / what is still owed"""
    d = os.path.join(common.BUILD, "diag", pid)
    os.makedirs(d, exist_ok=True)
    path = os.path.join(d, "diag_%d.v" % os.getpid())
    with open(path, "w") as fh:
        fh.write("From Coq Require Import List.\nImport ListNotations.\n" + CORR_PRELUDE + "\n")
        fh.write("Eval vm_compute in (RTCorr.diagnose %s).\n" % trace_term)
    p = subprocess.run(["timeout", "120", "coqc", "-R", common.COQDIR, "Cobald", "-w", "none", path],
                       stdout=subprocess.PIPE, stderr=subprocess.STDOUT, text=True, cwd=d)
    return " ".join(p.stdout.split())[:600]


def filter_known(chk, msgs):
    """oracle messages of the form KNOWN:<finding id>:<text> are listed known findings (if listed)"""
    out = []
    for m in msgs:
        if m.startswith("KNOWN:"):
            fid = m.split(":")[1]
            if chk is not None and chk.is_known(fid):
                chk.known_finding(fid, m)
                continue
            m = m[len("KNOWN:"):]
        out.append(m)
    return out


def evaluate(chk, pid, scns, results, tag):
    """returns (oracle_violations, mismatches): lists of (index, messages)"""
    views = [View(s, r) for s, r in zip(scns, results)]
    viol, harness_bad = [], []
    for i, v in enumerate(views):
        hp = harness_problems(v)
        msgs = ORACLES[pid](v) if v.log else []
        msgs = filter_known(chk, msgs)
        if pid in ("C01", "C02", "C12", "C03") and [m for m in hp if "did not finish" in m]:
            msgs = msgs + ["no-end: scenario did not reach its end within the time bound"]
        if msgs:
            viol.append((i, msgs))
        elif hp:
            harness_bad.append((i, hp))
    terms = [coq_trace(v.log, v.scn) for v in views]
    bad = common.coq_eval_cases(pid, CORR_PRELUDE, "RTCorr.check", "RTCorr.case", terms, shard=12, tag=tag)
    return views, viol, harness_bad, bad, terms


def main(pid, coq_targets, tier=None, seed=None, replay=None, tie_targets=None, regen=None):
    chk = common.Check(pid, tier, seed)
    if replay:
        with open(replay) as fh:
            rp = json.load(fh)
        scn = rp.get("scenario")
        res = run_scenario(scn, 0, "replay")
        v = View(scn, res)
        msgs = ORACLES[pid](v)
        for rec in v.log:
            print(rec["t"], rec["tid"], rec["ev"])
        print("oracle:", msgs)
        print("model:", diagnose(pid, coq_trace(v.log, v.scn)))
        return 1 if msgs else 0

    tie_T = None
    if regen is not None and not replay:
        try:
            regen(chk)
            tie_T = "ok"
        except Exception as e:
            tie_T = "broken: %s" % e
            chk.note("translator tie lost: %s" % e)
    ok_build, log = chk.build_props(coq_targets)
    broken = []
    if not ok_build:
        tail = "\n".join(log.splitlines()[-25:])
        chk.note("coq build failed:\n" + tail)
        broken.append({"kind": "proof", "detail": tail})
    escalate = False
    if tie_targets:
        if tie_T == "ok":
            ok_tie, log_tie = common.coq_make(tie_targets, timeout=600, force=tie_targets)
            tie_ass = common.parse_assumptions(log_tie)
            names = common.count_statements([t[:-1] for t in tie_targets])
            chk.coverage["tie_theorems"] = names
            chk.coverage["tie_print_assumptions"] = tie_ass
            if not ok_tie or any(a != "Closed under the global context" for a in tie_ass):
                tie_T = "broken: the generated kernel no longer provably meets its contract:\n" + "\n".join(log_tie.splitlines()[-10:])
                chk.note("translator tie lost: " + tie_T[-600:])
            else:
                chk.coverage["obligations"] = chk.coverage.get("obligations", 0) + len(names)
                chk.coverage["discharged"] = chk.coverage.get("discharged", 0) + len(names)
        if tie_T != "ok":
            escalate = True      # a lost tie alone is no alarm: run the scenario families at thorough strength
            chk.note("escalating to thorough-strength scenarios because the translator tie is lost")
    okc, logc = common.coq_make(COQ_TARGETS_COMMON)
    if not okc:
        broken.append({"kind": "correspondence", "detail": "RTCorr does not build: " + logc[-800:]})

    try:
        with open(os.path.join(common.VERIF, "properties.jsonl")) as fh:
            for line in fh:
                pr = json.loads(line)
                if pr["id"] == pid:
                    PREFER_FILES[:] = [os.path.basename(f) for f in pr["anchors"]["files"] if "/runners/" in f]
    except Exception:
        pass
    n = (N_THOROUGH if (chk.tier == "thorough" or escalate) else N_QUICK)[pid]
    global SETTLE
    TIME_SCALE[0] = common.load_scale()
    SETTLE = 0.45 * TIME_SCALE[0]
    chk.coverage["time_scale"] = round(TIME_SCALE[0], 2)
    rng = chk.rng("scenarios")
    scns = gen_scenarios(pid, rng, n)
    results = run_many(scns, tag="rt_" + pid)
    views, viol, harness_bad, bad, terms = evaluate(chk, pid, scns, results, "corr")

    def rerun(i):
        """a disagreement only counts if the same scenario reproduces it (timing robustness)"""
        scn2 = json.loads(json.dumps(scns[i]))
        res2 = run_scenario(scn2, 9000 + i, "rt_" + pid)
        v2 = View(scn2, res2)
        msgs2 = filter_known(chk, ORACLES[pid](v2)) if v2.log else ["no log"]
        hp2 = harness_problems(v2)
        if [m for m in hp2 if "did not finish" in m]:
            msgs2 = msgs2 + ["no-end: scenario did not reach its end within the time bound"]
        bad2 = common.coq_eval_cases(pid, CORR_PRELUDE, "RTCorr.check", "RTCorr.case", [coq_trace(v2.log, v2.scn)], tag="corr_rerun")
        return v2, msgs2, hp2, bool(bad2)

    reported = set()
    tried = {}
    n_viol = 0
    n_mism = 0
    for (i, msgs) in viol:
        kinds0 = sorted({m.split(":")[0] for m in msgs})
        if all(k in reported or tried.get(k, 0) >= 3 for k in kinds0):
            n_viol += 1 if any(k in reported for k in kinds0) else 0
            continue
        for k in kinds0:
            tried[k] = tried.get(k, 0) + 1
        kinds = set()
        for _attempt in range(3):      # a timing-dependent complaint counts once the same scenario shows it again
            v2, msgs2, _hp2, _b2 = rerun(i)
            kinds = {m.split(":")[0] for m in msgs} & {m.split(":")[0] for m in msgs2}
            if kinds:
                break
        if not kinds:
            chk.note("scenario %d: oracle complaint not reproduced on re-run (%s)" % (i, msgs[0][:120]))
            continue
        k = sorted(kinds)[0]
        n_viol += 1
        if k in reported:
            continue
        reported.add(k)
        chk.violation({"what": [m for m in msgs2 if m.startswith(k)][0], "all": msgs2, "scenario": scns[i],
                       "log": [[r["t"], r["tid"], r["ev"]] for r in v2.log][:400],
                       "model": diagnose(pid, coq_trace(v2.log, v2.scn))})
    mism_detail = []
    for i in bad:
        if i in [x for (x, _m) in viol] or len(mism_detail) >= 3:
            continue
        v2, msgs2, hp2, b2 = rerun(i)
        if not b2:
            chk.note("scenario %d: model disagreement not reproduced on re-run" % i)
            continue
        n_mism += 1
        mism_detail.append({"scenario": scns[i], "model": diagnose(pid, coq_trace(v2.log, v2.scn)),
                            "oracle": msgs2, "harness": hp2,
                            "log": [[r["t"], r["tid"], r["ev"]] for r in v2.log][:400]})
    if mism_detail:
        broken.append({"kind": "correspondence", "detail": "%d traces rejected by RT / left obligations" % len(mism_detail)})
    for (i, hp) in harness_bad:
        chk.note("scenario %d: harness problem: %s" % (i, hp[0][:200]))
    if len(harness_bad) > max(2, len(scns) // 10):
        broken.append({"kind": "harness", "detail": "%d scenarios could not be run: %s" % (len(harness_bad), harness_bad[0][1][0][:300])})

    if broken and not chk.violations:
        # something no longer checks: look harder for a concrete failing history
        chk.note("a proof obligation / the correspondence broke; searching for a failing history")
        rng2 = chk.rng("search")
        scns2 = gen_scenarios(pid, rng2, max(2 * n, 150))
        res2 = run_many(scns2, tag="rt_" + pid)
        found = False
        for s2, r2 in zip(scns2, res2):
            v = View(s2, r2)
            msgs = filter_known(chk, ORACLES[pid](v)) if v.log else []
            if msgs:
                v3 = View(s2, run_scenario(s2, 9999, "rt_" + pid))
                m3 = filter_known(chk, ORACLES[pid](v3)) if v3.log else []
                if {m.split(":")[0] for m in msgs} & {m.split(":")[0] for m in m3}:
                    chk.violation({"what": m3[0], "all": m3, "scenario": s2,
                                   "log": [[r["t"], r["tid"], r["ev"]] for r in v3.log][:400]})
                    found = True
                    break
        if not found:
            chk.violation({"what": "property no longer shown to hold; no failing history found",
                           "broken": broken, "disagreeing_traces": mism_detail[:3]}, no_input=True)

    distinct = {}
    fam = {}
    for s, v in zip(scns, views):
        fam[s.get("meta", {}).get("family", "corpus")] = fam.get(s.get("meta", {}).get("family", "corpus"), 0) + 1
        if v.log and nontrivial(pid, v):
            distinct[common.canon_hash(s)] = 1
    sample_i = 0
    chk.coverage.update({
        "evaluations": len(scns),
        "distinct_nontrivial": len(distinct),
        "traces_validated_against_impl": len(scns) - len(bad) - len([x for x in scns if x.get("oracle_only")]),
        "oracle_only_histories": len([x for x in scns if x.get("oracle_only")]),
        "late_service_threads": LATE_SERVICE_THREADS[0],
        "rule": RULES[pid],
        "samples": [{"scenario": scns[sample_i], "log_head": [[r["t"], r["tid"], r["ev"]] for r in views[sample_i].log][:40]}],
        "events_total": sum(len(v.log) for v in views),
        "families": fam,
        "oracle_violations": n_viol,
        "model_disagreements": n_mism,
        "harness_problems": len(harness_bad),
        "mean_wall_s": round(sum(r.get("wall", 0) for r in results) / max(1, len(results)), 2),
        "tie": ("trace correspondence (real runtime traces replayed through RT.run by vm_compute)"
                + ("" if tie_T is None else (" + translator tie (" + {"C12": "the guard kernel of guard.py", "C03": "the payload registry of meta_runner.py"}.get(pid, "-") + ")" if tie_T == "ok"
                                             else "; translator tie lost: " + tie_T[:200]))),
    })
    chk.write_evidence(TRUSTED_BASE, ASSUMPTIONS)
    return chk.exit_code()
