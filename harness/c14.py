"""C14 — config sections validated, then digested once each in constraint order:
generators, implementation runner (fake entry points + recording digests), oracle, Coq printer."""
from .common import clist, cnat, cbool

ID = "C14"
COQ_TARGETS = ["props/C14.vo"]
CORR_TARGETS = ["corr/C14Corr.vo"]
CORR_PRELUDE = "From Cobald Require Import kit.Corr model.Toposort model.Sections corr.C14Corr."
CORR_CHECK = "C14Corr.check"
CORR_TYPE = "C14Corr.case"
N_QUICK, N_THOROUGH = 1500, 12000
RULE = ("0-10 section plugins as fake entry points (name, load(), extras) substituted for "
        "cobald.daemon.core.config.get_entrypoints; before/after constraints from a random DAG over the "
        "installed names extended with 0-4 names of plugins that are not installed (incl. chains through "
        "them), self constraints, random required flags, digests returning None / falsy / other values; "
        "configuration = random subset of the sections +- unknown keys +- logging ({'version': 1}); "
        "malformed stream: cycles (also through absent names), entry points with extras, duplicate section "
        "names, a plugin called 'logging'.  The REAL load_section_plugins and load_configuration run; the "
        "order is judged by admissible_order (layers) in Coq, everything else by equality.  "
        "non-trivial = load succeeded with >= 2 plugins and >= 1 constraint between installed plugins")
TRUSTED_BASE = [
    "Coq 8.16.1 kernel + vm_compute (bytecode VM) for evaluating the model on the cases",
    "harness/c14.py: fake entry points, recording digests, patch of logging.config.dictConfig, numbering of names",
    "model/Sections.v + model/Toposort.v are hand-written; tied to core/config.py, config/mapping.py, plugins.py "
    "and site-packages/toposort.py by the correspondence run; the dependency computation of load_section_plugins "
    "(core/config.py) additionally by translation (py2coq/units.py:gen_sections, trusted, fail-closed: exact four-statement "
    "skeleton) and the phases of load_configuration (config/mapping.py: order of logging / validation / digests, the tests on a "
    "missing section and on a digest's result); gen/Gen_sections.v regenerated on every run, kit/SectionsIR.v, props/C14_tie.v; "
    "SectionPlugin.load, constraints and toposort by correspondence only",
    "python dict/set semantics (unique keys, set difference) as transcribed in the model",
]
ASSUMPTIONS = [
    "the constraint graph over ALL names mentioned (installed or not) is acyclic; a cycle that runs through "
    "a name of a plugin that is not installed is reported by toposort as CircularDependencyError",
    "section names are unique among the entry points (for the ordering theorems); duplicates are modelled "
    "(later entry wins) and compared, but no ordering claim is made for them",
    "digests terminate without raising; section contents and digest results are opaque",
    "the iteration order of a python set is an arbitrary permutation (input of the model)",
]

FALSY = 4  # ret tokens 0..3 are falsy python values


TRICKY = [901, 902, 903, 904, 905, 906]   # names of sections nobody claims that are PARTS of what is claimed


def sname(case, k):
    salt = case.get("salt", "s")
    if k in TRICKY:
        inst = sorted("%s%d" % (salt, e["name"]) for e in case["entries"] if e["name"] != 0)
        nm = {901: "", 902: salt, 903: ", ", 904: (inst[0][1:] if inst else "1"),
              905: (", ".join(inst[:2]) if len(inst) >= 2 else ","), 906: (inst[-1][:-1] if inst else "s")}[k]
        return nm + "," if (nm in inst or nm == "logging") else nm
    return "logging" if k == 0 else "%s%d" % (salt, k)


# ------------------------------------------------------------------ generation
def _shaped(names, k):
    """the same names as any kind of Iterable[str] the signature of `constraints` admits, one-shot ones included"""
    return [names, tuple(names), set(names), frozenset(names), (n for n in names), iter(names),
            map(str, names), dict.fromkeys(names).keys()][k % 8]


def _entry(pid, name, before=(), after=(), required=False, ret=None, extras=False, plain=False):
    return {"pid": pid, "name": name, "before": sorted(before), "after": sorted(after),
            "required": required, "ret": ret, "extras": extras, "plain": plain}


def corpus():
    E = _entry
    # no plugins at all
    yield {"salt": "s", "entries": [], "config": []}
    yield {"salt": "s", "entries": [], "config": [[0, 10]]}
    yield {"salt": "s", "entries": [], "config": [[3, 10]]}
    # the shipped shape: one required plugin
    yield {"salt": "s", "entries": [E(0, 1, required=True, ret=5)], "config": [[1, 10]]}
    yield {"salt": "s", "entries": [E(0, 1, required=True, ret=5)], "config": []}
    yield {"salt": "s", "entries": [E(0, 1, required=True, ret=5)], "config": [[1, 10], [2, 11]]}
    # chain a < b < c through after / before, all present
    yield {"salt": "s", "entries": [E(0, 3, after=[2], ret=None), E(1, 2, after=[1], ret=0), E(2, 1, ret=1)],
           "config": [[3, 10], [2, 11], [1, 12], [0, 13]]}
    yield {"salt": "s", "entries": [E(0, 3, ret=2), E(1, 2, before=[3], ret=3), E(2, 1, before=[2], ret=4)],
           "config": [[3, 10], [1, 12]]}
    # the same chains with the constraints given as one-shot iterables (generator / iterator / map)
    for sh in (4 + 8 * 5, 5 + 8 * 6, 6 + 8 * 4):
        yield {"salt": "s", "entries": [dict(E(0, 3, after=[2], ret=None), shape=sh), dict(E(1, 2, after=[1], ret=0), shape=sh), E(2, 1, ret=1)],
               "config": [[3, 10], [2, 11], [1, 12]]}
        yield {"salt": "s", "entries": [E(0, 3, ret=2), dict(E(1, 2, before=[3], ret=3), shape=sh), dict(E(2, 1, before=[2], ret=4), shape=sh)],
               "config": [[3, 10], [2, 11], [1, 12]]}
    # constraints naming plugins that are not installed (both kinds), chain through an absent name
    yield {"salt": "s", "entries": [E(0, 1, before=[9], ret=5), E(1, 2, after=[9], ret=6)], "config": [[1, 10], [2, 11]]}
    yield {"salt": "s", "entries": [E(0, 1, before=[9]), E(1, 2, after=[8], before=[7])], "config": [[2, 11]]}
    # cycle through an absent name only (installed constraints: 2 before 1): CircularDependencyError
    yield {"salt": "s", "entries": [E(0, 1, before=[9]), E(1, 2, after=[9], before=[1])], "config": [[1, 10]]}
    # plain cycle, self constraint (ignored by toposort)
    yield {"salt": "s", "entries": [E(0, 1, after=[2]), E(1, 2, after=[1])], "config": [[1, 10]]}
    yield {"salt": "s", "entries": [E(0, 1, after=[1], before=[1], ret=7)], "config": [[1, 10]]}
    # required plugin missing after an earlier plugin was digested; unknown section AND missing required
    yield {"salt": "s", "entries": [E(0, 1, ret=5), E(1, 2, after=[1], required=True)], "config": [[1, 10]]}
    yield {"salt": "s", "entries": [E(0, 1, ret=5), E(1, 2, after=[1], required=True)], "config": [[1, 10], [5, 11]]}
    for t in TRICKY:
        yield {"salt": "sec", "entries": [E(0, 1, ret=5), E(1, 12, after=[1])], "config": [[1, 10], [t, 11], [12, 12]]}
    # extras, duplicate sections, a plugin called logging
    yield {"salt": "s", "entries": [E(0, 1), E(1, 2, extras=True)], "config": [[1, 10]]}
    yield {"salt": "s", "entries": [E(0, 1, ret=5), E(1, 1, ret=6), E(2, 2, after=[1])], "config": [[1, 10], [2, 11]]}
    yield {"salt": "s", "entries": [E(0, 0, required=True, ret=5)], "config": [[0, 10]]}
    yield {"salt": "s", "entries": [E(0, 0, ret=5), E(1, 1, plain=True, ret=6)], "config": [[1, 10]]}


def gen_random(rng):
    n = rng.choice([0, 1, 2, 2, 3, 3, 4, 4, 5, 5, 6, 7, 8, 9, 10])
    salt = rng.choice(["s", "sec", "x", "plug_", "Z", "q%d_" % rng.randint(0, 999)])
    names = list(range(1, n + 1))
    rng.shuffle(names)
    n_abs = rng.choice([0, 0, 1, 2, 3, 4])
    absent = list(range(n + 1, n + 1 + n_abs))
    # a linear order over installed and absent names; constraints follow it => acyclic
    line = names + absent
    rng.shuffle(line)
    where = {x: i for i, x in enumerate(line)}
    dens = rng.choice([0.0, 0.1, 0.25, 0.5, 0.9])
    before = {x: set() for x in names}
    after = {x: set() for x in names}
    for i, a in enumerate(line):
        for b in line[i + 1:]:
            if a in absent and b in absent:
                continue
            p = dens if (a in before and b in before) else dens * 0.7 + 0.05
            if rng.random() >= p:
                continue
            # a must come before b
            how = rng.random()
            if a in before and (b not in before or how < 0.5):
                before[a].add(b)
            if b in after and (a not in after or how >= 0.4):
                after[b].add(a)
    malformed = rng.random() < 0.18
    kind = None
    if malformed and n:
        kind = rng.choice(["cycle", "cycle", "extras", "dup", "logging", "self"])
    entries = []
    for pid, x in enumerate(names):
        r = rng.random()
        ret = None if r < 0.35 else (rng.randrange(FALSY) if r < 0.6 else rng.randint(FALSY, 9))
        entries.append(_entry(pid, x, before[x], after[x], required=rng.random() < 0.25, ret=ret))
        if rng.random() < 0.5:
            entries[-1]["shape"] = rng.randrange(64)
    for e in entries:
        if not e["before"] and not e["after"] and not e["required"] and rng.random() < 0.3:
            e["plain"] = True
    if kind == "cycle":
        # a back edge along the line (possibly via an absent name)
        cand = [(a, b) for a in line for b in line if where[a] < where[b] and (a in before or b in before)]
        if cand:
            a, b = rng.choice(cand)    # add: b before a
            if b in before and (a not in before or rng.random() < 0.5):
                entries[names.index(b)]["before"] = sorted(set(entries[names.index(b)]["before"]) | {a})
            else:
                entries[names.index(a)]["after"] = sorted(set(entries[names.index(a)]["after"]) | {b})
            # make sure there is a forward path a ... b: direct edge
            if a in before:
                entries[names.index(a)]["before"] = sorted(set(entries[names.index(a)]["before"]) | {b})
            else:
                entries[names.index(b)]["after"] = sorted(set(entries[names.index(b)]["after"]) | {a})
            for e in entries:
                e["plain"] = False
    elif kind == "extras":
        rng.choice(entries)["extras"] = True
    elif kind == "dup" and n >= 2:
        i, j = rng.sample(range(n), 2)
        entries[j]["name"] = entries[i]["name"]
    elif kind == "logging":
        rng.choice(entries)["name"] = 0
    elif kind == "self":
        e = rng.choice(entries)
        e["after"] = sorted(set(e["after"]) | {e["name"]})
        e["plain"] = False
    # configuration
    mode = rng.random()
    config = []
    tok = 10
    for e in entries:
        x = e["name"]
        if x == 0 or any(x == k for k, _ in config):
            continue
        present = True if mode < 0.45 else (rng.random() < (0.5 if not e["required"] else 0.85))
        if present:
            config.append([x, tok])
            tok += 1
    if rng.random() < (0.08 if mode < 0.45 else 0.3):
        for _ in range(rng.choice([1, 1, 2])):
            k = rng.choice(absent + [n + 6, n + 7]) if absent else n + 6 + rng.randint(0, 1)
            if rng.random() < 0.4:
                k = rng.choice(TRICKY)
            if not any(k == kk for kk, _ in config):
                config.append([k, tok])
                tok += 1
    if rng.random() < 0.4:
        config.append([0, tok])
    rng.shuffle(config)
    return {"salt": salt, "entries": entries, "config": config}


def gen_cases(rng, n):
    out = list(corpus())
    for c in out:
        yield c
    for _ in range(max(0, n - len(out))):
        yield gen_random(rng)


# ------------------------------------------------------------------ implementation
class _Ret:
    """a non-None digest result"""
    def __init__(self, t):
        self.t = t


def _ret_values():
    vals = [0, "", [], False]
    return vals + [_Ret(t) for t in range(FALSY, 12)]


class _FakeEntryPoint:
    def __init__(self, name, digest, extras):
        self.name = name
        self._digest = digest
        self.extras = ["extra"] if extras else None
        self.module_name = "fake"
        self.object_name = name

    def load(self):
        return self._digest


def run_impl(case):
    import logging.config
    import cobald.daemon.core.config as core_config
    from cobald.daemon.config import mapping
    from cobald.daemon.plugins import constraints
    try:
        from toposort import CircularDependencyError
    except Exception:  # pragma: no cover
        CircularDependencyError = ()

    log = []
    config_ref = {}    # section name -> configured content (filled below)
    singleton_tok = {} # section name -> token, for contents that are falsy singletons
    contents = {}      # id(content object) -> token
    keep = []
    retvals = _ret_values()

    def tok_of(obj):
        return contents.get(id(obj), 999)

    def mk_digest(e):
        rv = None if e["ret"] is None else retvals[e["ret"]]

        def digest(content):
            # contents are identified by object identity; falsy singletons (None, 0, '', False, which YAML
            # produces for `section:` / `section: 0` ...) by being the very value configured for this section
            sec = sname(case, e["name"])
            if sec in config_ref and content is config_ref[sec] and sec in singleton_tok:
                log.append(["D", e["pid"], singleton_tok[sec]])
            else:
                log.append(["D", e["pid"], tok_of(content)])
            return rv
        digest._pid = e["pid"]
        if not e["plain"]:
            digest = constraints(before=_shaped([sname(case, b) for b in e["before"]], e.get("shape", 0)),
                                 after=_shaped([sname(case, a) for a in e["after"]], e.get("shape", 0) // 8),
                                 required=e["required"])(digest)
        return digest

    digests = [mk_digest(e) for e in case["entries"]]
    eps = [_FakeEntryPoint(sname(case, e["name"]), d, e["extras"]) for e, d in zip(case["entries"], digests)]

    obs = {}
    saved = core_config.get_entrypoints
    core_config.get_entrypoints = lambda group: iter(list(eps))
    try:
        try:
            plugins = core_config.load_section_plugins("cobald.config.sections")
            obs["plugins"] = {"order": [p.digest._pid for p in plugins]}
        except Exception as err:
            plugins = None
            if CircularDependencyError and isinstance(err, CircularDependencyError):
                obs["plugins"] = {"err": "Circular"}
            elif type(err) is ValueError:
                obs["plugins"] = {"err": "ValueError"}
            else:
                obs["plugins"] = {"err": "Other:" + type(err).__name__}
    finally:
        core_config.get_entrypoints = saved
    if plugins is None:
        from cobald.daemon.plugins import PluginRequirements
        plugins = tuple(
            mapping.SectionPlugin(section=ep.name, digest=d,
                                  requirements=getattr(d, "__requirements__", PluginRequirements()))
            for ep, d in zip(eps, digests))
    obs["tuple"] = [p.digest._pid for p in plugins]

    config = {}
    for k, t in case["config"]:
        if k == 0:
            c = {"version": 1}
        else:
            # one section in five holds a falsy value: a present section with empty content is still present
            c = [{"token": t}, [t], {"__token__": t, "nested": {"a": [1, 2]}}, {"token": t}, None, [t],
                 {"token": t}, 0, [t], "", {"token": t}, False, [t], [], {"token": t}][t % 15]
        keep.append(c)
        if c is None or c is False or c == 0 or c == "" and isinstance(c, (int, str, bool, type(None))):
            if isinstance(c, (int, str, bool, type(None))):
                singleton_tok[sname(case, k)] = t
        contents[id(c)] = t
        config[sname(case, k)] = c
        config_ref[sname(case, k)] = c

    saved_dc = logging.config.dictConfig
    logging.config.dictConfig = lambda m: log.append(["L", tok_of(m)])
    try:
        try:
            result = mapping.load_configuration(config, plugins=plugins)
            content = []
            for p in plugins:
                if p in result:
                    v = result[p]
                    t = [i for i, rv in enumerate(retvals) if rv is v]
                    content.append([p.digest._pid, t[0] if t else (998 if v is not None else 997)])
            extra = [1 for k in result if not any(k is p for p in plugins)]
            obs["outcome"] = {"content": content} if not extra else {"err": "Other:foreign keys in result"}
        except mapping.ConfigurationError as err:
            obs["outcome"] = {"err": "ConfigurationError", "where": str(getattr(err, "where", None))}
        except Exception as err:
            obs["outcome"] = {"err": "Other:" + type(err).__name__}
    finally:
        logging.config.dictConfig = saved_dc
    obs["log"] = log
    return obs


# ------------------------------------------------------------------ oracle (the property, on implementation observations)
def _acyclic(case):
    """full constraint graph over all names mentioned; self constraints do not count"""
    succ = {}
    for e in case["entries"]:
        x = e["name"]
        succ.setdefault(x, set())
        for a in e["after"]:
            if a != x:
                succ.setdefault(a, set()).add(x)
        for b in e["before"]:
            if b != x:
                succ.setdefault(x, set()).add(b)
                succ.setdefault(b, set())
    state = {}

    def visit(u):
        state[u] = 1
        for v in succ.get(u, ()):
            if state.get(v) == 1:
                return False
            if state.get(v) is None and not visit(v):
                return False
        state[u] = 2
        return True
    return all(state.get(u) == 2 or visit(u) for u in list(succ))


def oracle(case, obs):
    if "harness_error" in obs:
        return [(None, "harness error: " + obs["harness_error"])]
    v = []
    entries = case["entries"]
    by_pid = {e["pid"]: e for e in entries}
    names = [e["name"] for e in entries]
    unique = len(set(names)) == len(names)
    clean = unique and not any(e["extras"] for e in entries)
    # --- A. load_section_plugins: order
    if clean and _acyclic(case):
        if "order" not in obs["plugins"]:
            v.append((None, "load failed: load_section_plugins raised %s on an acyclic constraint graph"
                      % obs["plugins"]["err"]))
        else:
            order = obs["plugins"]["order"]
            if sorted(order) != sorted(by_pid):
                v.append((None, "result set: loaded plugins %s are not exactly the installed ones %s"
                          % (order, sorted(by_pid))))
            else:
                at = {by_pid[p]["name"]: i for i, p in enumerate(order)}
                for e in entries:
                    for a in e["after"]:
                        if a in at and a != e["name"] and not at[a] < at[e["name"]]:
                            v.append((None, "order: plugin %s (after %s) placed before it: %s" % (e["name"], a, order)))
                    for b in e["before"]:
                        if b in at and b != e["name"] and not at[e["name"]] < at[b]:
                            v.append((None, "order: plugin %s (before %s) placed after it: %s" % (e["name"], b, order)))
    # --- B. load_configuration on the tuple it was given
    tup = [by_pid[p] for p in obs["tuple"]]
    cfg = {k: t for k, t in case["config"] if k != 0}
    has_logging = any(k == 0 for k, _ in case["config"])
    dcalls = [x[1:] for x in obs["log"] if x[0] == "D"]
    lcalls = [x[1] for x in obs["log"] if x[0] == "L"]
    out = obs["outcome"]
    if out.get("err", "").startswith("Other"):
        v.append((None, "unexpected exception: load_configuration raised %s" % out["err"]))
        return v
    claimed = {e["name"] for e in tup}
    unknown = [k for k in cfg if k not in claimed]
    # every digest call is for a present section with exactly its content, at most once
    seen = set()
    for (p, t) in dcalls:
        e = by_pid.get(p)
        if e is None or e["name"] not in cfg or cfg[e["name"]] != t:
            v.append((None, "content: digest %s called with %s, not its section's content" % (p, t)))
        if p in seen:
            v.append((None, "twice: digest %s called more than once" % p))
        seen.add(p)
    if unknown:
        if out.get("err") != "ConfigurationError":
            v.append((None, "unknown section: %s not rejected with ConfigurationError" % unknown))
        if dcalls:
            v.append((None, "validate first: digests %s ran although sections %s are unknown" % (dcalls, unknown)))
        return v
    missing = [e["name"] for e in tup if e["required"] and e["name"] not in cfg]
    if missing:
        if out.get("err") != "ConfigurationError":
            v.append((None, "required: sections %s missing but no ConfigurationError" % missing))
        return v
    if "err" in out:
        v.append((None, "spurious error: %s on a valid configuration" % out["err"]))
        return v
    want_calls = [[e["pid"], cfg[e["name"]]] for e in tup if e["name"] in cfg]
    if dcalls != want_calls:
        v.append((None, "calls: digest calls %s, expected %s" % (dcalls, want_calls)))
    want_content = [[e["pid"], e["ret"]] for e in tup if e["name"] in cfg and e["ret"] is not None]
    if out["content"] != want_content:
        v.append((None, "results: content %s, expected the non-None results %s" % (out["content"], want_content)))
    if has_logging != (len(lcalls) == 1):
        v.append((None, "logging: section %s, configure calls %s" % (has_logging, lcalls)))
    # call order respects constraints between installed plugins (end to end)
    if clean and "order" in obs["plugins"]:
        at = {by_pid[p]["name"]: i for i, (p, _t) in enumerate(dcalls)}
        for e in tup:
            for a in e["after"]:
                if a in at and e["name"] in at and a != e["name"] and not at[a] < at[e["name"]]:
                    v.append((None, "call order: %s digested before %s" % (e["name"], a)))
            for b in e["before"]:
                if b in at and e["name"] in at and b != e["name"] and not at[e["name"]] < at[b]:
                    v.append((None, "call order: %s digested after %s" % (e["name"], b)))
    return v


def nontrivial(case, obs):
    if "order" not in obs.get("plugins", {}) or len(case["entries"]) < 2:
        return False
    names = {e["name"] for e in case["entries"]}
    return any((set(e["after"]) | set(e["before"])) & (names - {e["name"]}) for e in case["entries"])


# ------------------------------------------------------------------ Coq printing
def _names(l):
    return clist(cnat(x) for x in l) if l else "(@nil nat)"


def _plugin(e):
    ret = "None" if e["ret"] is None else "(Some %s)" % cnat(e["ret"])
    return "(mkPlugin %s %s %s %s %s %s %s)" % (cnat(e["pid"]), cnat(e["name"]), cbool(e["extras"]),
                                                 cbool(e["required"]), _names(e["before"]), _names(e["after"]), ret)


def _pairs(l):
    return clist("(%s, %s)" % (cnat(a), cnat(b)) for a, b in l) if l else "(@nil (nat * nat))"


def coq_case(case, obs):
    if "harness_error" in obs:
        return "(mkCase nil nil POther nil OOther nil)"
    pl = obs["plugins"]
    if "order" in pl:
        p = "(POrder %s)" % _names(pl["order"])
    else:
        p = {"Circular": "(PErr ECircular)", "ValueError": "(PErr EValueError)"}.get(pl["err"], "POther")
    out = obs["outcome"]
    if "content" in out:
        o = "(OContent %s)" % _pairs(out["content"])
    else:
        o = "OConfigurationError" if out["err"] == "ConfigurationError" else "OOther"
    log = clist(("(EvLogging %s)" % cnat(x[1])) if x[0] == "L" else ("(EvDigest %s %s)" % (cnat(x[1]), cnat(x[2])))
                for x in obs["log"]) if obs["log"] else "(@nil event)"
    ents = clist(_plugin(e) for e in case["entries"]) if case["entries"] else "(@nil plugin)"
    return "(mkCase %s %s %s %s %s %s)" % (ents, _pairs(case["config"]), p, _names(obs["tuple"]), o, log)


def distribution(results):
    d = {"plugins": {}, "load_section_plugins": {}, "load_configuration": {}, "absent_constraints": 0,
         "with_logging": 0, "unknown_section": 0, "required_missing": 0}
    for (c, o, _v) in results:
        n = str(len(c["entries"]))
        d["plugins"][n] = d["plugins"].get(n, 0) + 1
        if "plugins" not in o:
            continue
        k = "ok" if "order" in o["plugins"] else o["plugins"]["err"]
        d["load_section_plugins"][k] = d["load_section_plugins"].get(k, 0) + 1
        k = "ok" if "content" in o["outcome"] else o["outcome"]["err"]
        d["load_configuration"][k] = d["load_configuration"].get(k, 0) + 1
        names = {e["name"] for e in c["entries"]}
        if any((set(e["after"]) | set(e["before"])) - names for e in c["entries"]):
            d["absent_constraints"] += 1
        if any(k == 0 for k, _ in c["config"]):
            d["with_logging"] += 1
        if any(k != 0 and k not in names for k, _ in c["config"]):
            d["unknown_section"] += 1
        cfg = {k for k, _ in c["config"] if k != 0}
        if any(e["required"] and e["name"] not in cfg for e in c["entries"]):
            d["required_missing"] += 1
    return d


def shrink(case, still_fails):
    cur = case

    def attempt(cand):
        try:
            return still_fails(cand)
        except Exception:
            return False
    changed = True
    while changed:
        changed = False
        for i in range(len(cur["entries"])):
            cand = dict(cur, entries=cur["entries"][:i] + cur["entries"][i + 1:])
            if attempt(cand):
                cur, changed = cand, True
                break
        if changed:
            continue
        for i in range(len(cur["config"])):
            cand = dict(cur, config=cur["config"][:i] + cur["config"][i + 1:])
            if attempt(cand):
                cur, changed = cand, True
                break
        if changed:
            continue
        for i, e in enumerate(cur["entries"]):
            for fld in ("before", "after"):
                for x in e[fld]:
                    e2 = dict(e, **{fld: [y for y in e[fld] if y != x]})
                    cand = dict(cur, entries=cur["entries"][:i] + [e2] + cur["entries"][i + 1:])
                    if attempt(cand):
                        cur, changed = cand, True
                        break
                if changed:
                    break
            if changed:
                break
    return cur


# ------------------------------------------------------------------ translator tie
TIE_TARGETS = ["props/C14_tie.vo"]


def regen(chk):
    """regenerate gen/Gen_sections.v from the current daemon/core/config.py"""
    import os
    from . import common
    from py2coq import units
    res = units.regen(common.REPO, os.path.join(common.COQDIR, "gen"), ["Gen_sections.v"])
    chk.coverage["translator"] = res
    bad = [v for v in res.values() if v != "ok"]
    if bad:
        raise RuntimeError(bad[0])
