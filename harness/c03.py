"""C03 — runtime property; see harness/rt.py.  The payload registry of MetaRunner (register_payload and the four
life-cycle methods) is additionally tied by translation: gen/Gen_registry.v is regenerated from
src/cobald/daemon/runners/meta_runner.py on every run and props/C03_tie.v proves, for all interleavings over any
number of runs of one runtime object, that registering never raises, that payloads registered between runs are
queued and flushed to the next run's runners, and that nothing is handed to dead runners between runs."""
import os

from . import common, rt

ID = "C03"
COQ_TARGETS = ["props/C03.vo"]
TIE_TARGETS = ["props/C03_tie.vo"]


def regen(chk):
    from py2coq import units
    res = units.regen(common.REPO, os.path.join(common.COQDIR, "gen"), ["Gen_registry.v"])
    chk.coverage["translator"] = res
    bad = [v for v in res.values() if v != "ok"]
    if bad:
        raise RuntimeError(bad[0])


def main(tier=None, seed=None, replay=None):
    return rt.main(ID, COQ_TARGETS, tier=tier, seed=seed, replay=replay, tie_targets=TIE_TARGETS, regen=regen)
