"""C11 — runtime property; see harness/rt.py"""
from . import rt

ID = "C11"
COQ_TARGETS = ["props/C11.vo"]


def main(tier=None, seed=None, replay=None):
    return rt.main(ID, COQ_TARGETS, tier=tier, seed=seed, replay=replay)
