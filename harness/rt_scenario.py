"""
Run ONE runtime scenario against the real cobald runtime and print its event log as JSON.

Usage:  python rt_scenario.py <scenario.json>        (run in its own subprocess, PYTHONPATH=/repo/src)

The scenario scripts payloads, services, the main thread and helper threads (see DESIGN.md 4.3).
Every model event is appended to one lock-protected list *before* the announced step is performed
(results of calls are appended after the call returned), so the log is a linearisation of the real
happens-before order.  No source hook in cobald is needed.
"""
import asyncio
import gc
import json
import os
import signal
import sys
import threading
import time
import weakref

import trio

from cobald.daemon.runners.service import ServiceRunner, service
from cobald.daemon.runners.base_runner import OrphanedReturn

FLAV = {"asyncio": asyncio, "trio": trio, "threading": threading}

LOG = []
LOCK = threading.Lock()
T0 = time.monotonic()
TLS = threading.local()
_tok = [0]
KEEP = []          # keeps loops / tokens / services / values alive so ids are never reused
LOOPS = []         # identity table of event loops / trio tokens
EVENTS = {}
COUNTERS = {"asyncio": 0, "trio": 0}     # deliberately non-atomic overlap counters
OVERLAPS = []


def thread_token():
    t = getattr(TLS, "tok", None)
    if t is None:
        with LOCK:
            _tok[0] += 1
            t = TLS.tok = _tok[0]
    return t


def log(*ev):
    tok = thread_token()
    with LOCK:
        LOG.append({"t": round(time.monotonic() - T0, 4), "tid": tok, "ev": list(ev)})


def loop_identity(flavour):
    """0 = no loop of either kind visible; else a small index identifying the loop / trio run."""
    ident = None
    try:
        ident = ("aio", asyncio.get_running_loop())
    except RuntimeError:
        pass
    tident = None
    try:
        tident = ("trio", trio.lowlevel.current_trio_token())
    except RuntimeError:
        pass
    if flavour == "asyncio":
        chosen = ident
        other = tident
    elif flavour == "trio":
        chosen = tident
        other = ident
    else:
        chosen = ident or tident
        other = None
        if chosen is None:
            return 0, 0
    if chosen is None:
        return -1, 0          # expected loop not visible
    with LOCK:
        for i, (k, o) in enumerate(LOOPS):
            if k == chosen[0] and o is chosen[1]:
                idx = i + 1
                break
        else:
            LOOPS.append(chosen)
            idx = len(LOOPS)
        oidx = 0
        if other is not None:
            for i, (k, o) in enumerate(LOOPS):
                if k == other[0] and o is other[1]:
                    oidx = i + 1
                    break
            else:
                LOOPS.append(other)
                oidx = len(LOOPS)
    return idx, oidx


def event(name):
    with LOCK:
        e = EVENTS.get(name)
        if e is None:
            e = EVENTS[name] = threading.Event()
    return e


# ------------------------------------------------------------------------------------------
# values / exceptions tables
# ------------------------------------------------------------------------------------------
class CustomError(Exception):
    """an application exception that is a (here: empty) collection of problems: a FALSY object - an exception is
    an exception whatever its truth value"""

    def __len__(self):
        return 0


class CustomBase(BaseException):
    pass


def make_value(vid):
    return [lambda: 0, lambda: 0.0, lambda: False, lambda: "", lambda: [], lambda: (), lambda: b"",
            lambda: {}, lambda: "x", lambda: 1, lambda: object(), lambda: [1, 2], lambda: 3.5,
            lambda: ValueError("an exception object handed back as a VALUE")][vid]()


N_VALUES = 14
EXC_KINDS = ["ValueError", "KeyError", "LookupError", "RuntimeError", "OSError", "ZeroDivisionError",
             "CustomError", "ExceptionGroup", "AssertionError", "TypeError", "StopIteration", "TimeoutError",
             "SystemExit", "CustomBase", "GeneratorExit"]
N_EXC_EXCEPTION = 12     # the first 12 are Exception subclasses


def make_exc(eid):
    k = EXC_KINDS[eid]
    if k == "CustomError":
        return CustomError("scripted")
    if k == "CustomBase":
        return CustomBase("scripted")
    if k == "ExceptionGroup":
        return ExceptionGroup("scripted", [ValueError("inner")])
    if k == "SystemExit":
        return SystemExit(3)
    import builtins
    return getattr(builtins, k)("scripted")


PAYLOAD_OBJ = {}     # pid -> returned value / raised exception object (identity)


# ------------------------------------------------------------------------------------------
# scripted payloads
# ------------------------------------------------------------------------------------------
class Ctx:
    def __init__(self, scn):
        self.scn = scn
        # {"same_as": k}: the very runtime object of entry k, used for a further run after its earlier run ended
        # (every run is a runner of its own to the model; what the object carries over is the code's business)
        self.runners = []
        for r in scn["runners"]:
            self.runners.append(self.runners[r["same_as"]] if "same_as" in r
                                else ServiceRunner(accept_delay=r.get("accept_delay", 0.05)))
        self.services = {}
        self.ended = set()          # runners whose accept() has returned
        self.accepting = set()      # runners whose accept() is in progress
        for i, r in enumerate(self.runners):
            threading.Thread(target=self._watch_running, args=(i, r), daemon=True).start()

    def _watch_running(self, i, r):
        prev = self.scn["runners"][i].get("same_as")
        while prev is not None and prev not in self.ended:
            time.sleep(0.002)
        r.running.wait()
        log("RunningSet", i)

    # ---- actions available to every actor -------------------------------------------------
    def do_adopt(self, who, rid, pid):
        spec = self.scn["payloads"][str(pid)]
        fl = spec["flavour"]
        fn = make_payload(self, pid)
        args = decode_args(spec.get("args", []))
        kwargs = {k: decode_arg(v) for k, v in spec.get("kwargs", {}).items()}
        if "shared" in spec:
            tok = thread_token()
            with LOCK:        # announce, then make the id available to the shared function, atomically
                LOG.append({"t": round(time.monotonic() - T0, 4), "tid": tok, "ev": ["AdoptCall", who, rid, pid, fl]})
                SHARED[spec["shared"]][1].append(pid)
        else:
            log("AdoptCall", who, rid, pid, fl)
        try:
            res = self.runners[rid].adopt(fn, *args, flavour=FLAV[fl], **kwargs)
            out = "ok" if res is None else "returned:%s" % type(res).__name__
        except BaseException as e:  # noqa
            out = "raised:%s" % type(e).__name__
        log("Adopt", who, rid, pid, fl, out)

    def do_execute(self, who, rid, pid):
        spec = self.scn["payloads"][str(pid)]
        fl = spec["flavour"]
        if rid in self.ended or (not self.runners[rid].running.is_set() and rid not in self.accepting):
            return            # the run call has ended (or never began): scripted callers stop calling
        fn = make_payload(self, pid, executed=True)
        args = decode_args(spec.get("args", []))
        kwargs = {k: decode_arg(v) for k, v in spec.get("kwargs", {}).items()}
        if "shared" in spec:
            tok = thread_token()
            with LOCK:        # announce, then make the id available to the shared function, atomically
                LOG.append({"t": round(time.monotonic() - T0, 4), "tid": tok, "ev": ["ExecCall", who, rid, pid, fl]})
                SHARED[spec["shared"]][1].append(pid)
        else:
            log("ExecCall", who, rid, pid, fl)
        try:
            res = self.runners[rid].execute(fn, *args, flavour=FLAV[fl], **kwargs)
            want = PAYLOAD_OBJ.get(("p", pid), None)
            if res is None and want is None:
                out = ["ret_none"]
            elif res is want:
                out = ["ret_val", spec_end(spec)[1], "same"]
            else:
                out = ["ret_val", -1, "different:%r" % (res,)]
        except BaseException as e:  # noqa
            want = PAYLOAD_OBJ.get(("p", pid), None)
            import concurrent.futures
            if type(e) is RuntimeError and e.__cause__ is want and isinstance(want, StopIteration):
                e = want             # PEP 479: the payload's StopIteration, as coroutines / futures can carry it
            no_runner = isinstance(e, KeyError) and bool(e.args) and any(e.args[0] is m for m in FLAV.values())
            # (KeyError(<flavour module>): MetaRunner.run_payload found no runner - the run is over or on its way out)
            if e is not want and (no_runner or isinstance(e, (asyncio.CancelledError, concurrent.futures.CancelledError,
                                                 trio.RunFinishedError, trio.Cancelled))
                                  or not self.runners[rid].running.is_set() or rid in self.ended):
                out = ["aborted", type(e).__name__]
            elif e is want or (type(e) is RuntimeError and e.__cause__ is want and isinstance(want, StopIteration)):
                out = ["raise", spec_end(spec)[1], "same"]
            elif want is not None and type(e) is type(want) and e.args == getattr(want, "args", None):
                out = ["raise", spec_end(spec)[1], "copy"]
            else:
                out = ["raise", -1, "different:%s:%s" % (type(e).__name__, e)]
        log("ExecEnd", who, rid, pid, out)

    def do_service(self, who, sid):
        spec = self.scn["services"][str(sid)]
        fl = spec["flavour"]
        ctx = self

        @service(flavour=FLAV[fl])
        class Svc(object):
            def __init__(self):
                self.sid = sid

            if spec.get("falsy"):
                def __len__(self):          # a service that is an (empty) container: falsy, and a service all the same
                    return 0

            if fl == "threading":
                def run(self):
                    return run_sync(ctx, ("s", sid), spec, ())
            else:
                async def run(self):
                    return await run_async(ctx, ("s", sid), spec, ())

        if spec.get("subclass"):
            class Sub(Svc):                 # an undecorated subclass whose constructor does not chain up
                def __init__(self):         # noqa
                    self.sid = sid
            Svc = Sub                       # noqa: F811
        log("NewService", who, sid, fl)
        inst = Svc()
        if spec.get("drop"):
            weakref.finalize(inst, log, "DropService", sid)
            del inst
            gc.collect()
        else:
            self.services[sid] = inst

    def do_shutdown(self, who, rid):
        log("ShutdownCall", who, rid)
        try:
            self.runners[rid].shutdown()
            out = "ok"
        except BaseException as e:  # noqa
            out = "raised:%s" % type(e).__name__
        log("ShutdownEnd", who, rid, out)

    def do_accept(self, who, rid):
        log("AcceptCall", who, rid)
        self.accepting.add(rid)
        try:
            self.runners[rid].accept()
            out = ["returned"]
        except BaseException as e:  # noqa
            out = classify_accept_exc(e)
        self.ended.add(rid)
        self.accepting.discard(rid)
        log("AcceptEnd", who, rid, out)


def spec_end(spec):
    for st in spec.get("script", []):
        if st[0] in ("return", "raise", "kbd"):
            return st
    return ["return_none"]


def flatten_cause(exc):
    if exc is None:
        return []
    if isinstance(exc, BaseExceptionGroup):
        out = []
        for e in exc.exceptions:
            out += flatten_cause(e)
        return out
    return [exc]


def _who_key(who):
    """the scripted payload / service behind the `who` of an OrphanedReturn (a function named payload_<n>, a
    functools.partial of one, or the bound `run` of a scripted service)"""
    import functools
    while isinstance(who, functools.partial):
        who = who.func
    name = getattr(who, "__name__", "")
    if name.startswith("payload_") and name[8:].isdigit():
        return ("p", int(name[8:]))
    inst = getattr(who, "__self__", None)
    if inst is not None and hasattr(inst, "sid"):
        return ("s", inst.sid)
    return None


def describe_leaf(e):
    # several payloads may have returned the very same (interned) object, e.g. 0 or "" in two runs: the error
    # names its payload (`who`); failing that, the payload that finished last is meant
    found = None
    if type(e) is RuntimeError and isinstance(e.__cause__, StopIteration):
        e = e.__cause__          # PEP 479: a StopIteration cannot travel through coroutines / futures; Python (and the
        #                          thread runner) report it chained to a RuntimeError - the payload's own failure all the same
    for key, obj in list(PAYLOAD_OBJ.items()):
        pre = "" if key[0] == "p" else "svc_"
        if e is obj:
            return [pre + "exc", key[1]]
        if isinstance(obj, BaseExceptionGroup) and any(e is x for x in flatten_cause(obj)):
            return [pre + "exc", key[1]]
        if isinstance(e, OrphanedReturn) and e.value is obj:
            if _who_key(getattr(e, "who", None)) == key:
                return [pre + "orphan", key[1]]
            found = [pre + "orphan", key[1]]
    if found:
        return found
    if isinstance(e, OrphanedReturn):
        return ["orphan_unknown", repr(e.value)[:40]]
    return ["other", type(e).__name__, str(e)[:160]]


def classify_accept_exc(e):
    if isinstance(e, RuntimeError) and "exclusive call" in str(e) and e.__cause__ is None:
        return ["exclusive"]
    if isinstance(e, RuntimeError) and str(e) == "background task failed":
        leaves = flatten_cause(e.__cause__)
        return ["runtime", [describe_leaf(x) for x in leaves], type(e.__cause__).__name__]
    leaves = flatten_cause(e)
    return ["other", type(e).__name__, [describe_leaf(x) for x in leaves]]


class BadRepr(object):
    """an argument that cannot be printed"""

    def __repr__(self):
        raise RuntimeError("this object has no printable form")

    def __eq__(self, other):
        return isinstance(other, BadRepr)

    def __hash__(self):
        return 7


def decode_arg(v):
    if isinstance(v, list):
        return tuple(decode_arg(x) for x in v)
    if v == "\u00a7badrepr":
        return BadRepr()
    return v


def decode_args(vs):
    return [decode_arg(v) for v in vs]


def encode_arg(v):
    if isinstance(v, tuple):
        return [encode_arg(x) for x in v]
    if isinstance(v, BadRepr):
        return "\u00a7badrepr"
    return v


def who_of(key):
    return ["payload", key[1]] if key[0] == "p" else ["service", key[1]]


def start_event(key, fl, args, kwargs, spec):
    loop, other = loop_identity(fl)
    want_a = decode_args(spec.get("args", []))
    want_k = {k: decode_arg(v) for k, v in spec.get("kwargs", {}).items()}
    args_ok = (list(args) == want_a and dict(kwargs) == want_k)
    log("Start", key[0], key[1], fl, loop, other, args_ok,
        [encode_arg(a) for a in args], {k: encode_arg(v) for k, v in kwargs.items()})


def section(fl, key, k):
    """non-atomic enter/exit counter: a second payload of the same flavour executing between Enter
    and Exit shows up as an overlap"""
    log("Enter", key[0], key[1])
    if fl in COUNTERS:
        v = COUNTERS[fl]
        COUNTERS[fl] = v + 1
        if v != 0:
            OVERLAPS.append([fl, key[1]])
        x = 0
        for i in range(k):
            x += i * i
        COUNTERS[fl] = COUNTERS[fl] - 1
    else:
        x = 0
        for i in range(k):
            x += i * i
    log("Exit", key[0], key[1])


def finish(key, spec, kind, ident=None):
    log("Finish", key[0], key[1], kind, ident)


async def run_async(ctx, key, spec, args, kwargs=None, executed=False):
    fl = spec["flavour"]
    kwargs = kwargs or {}
    start_event(key, fl, args, kwargs, spec)
    sleep = trio.sleep if fl == "trio" else asyncio.sleep
    cancelled_types = (trio.Cancelled,) if fl == "trio" else (asyncio.CancelledError,)
    who = who_of(key)
    try:
        for st in spec.get("script", []):
            op = st[0]
            if op == "step":
                log("Step", key[0], key[1])
            elif op == "sleep":
                await sleep(st[1])
            elif op == "beat":
                for _ in range(st[1]):
                    log("Step", key[0], key[1])
                    await sleep(st[2])
            elif op == "spin":
                for _ in range(st[1]):
                    log("Step", key[0], key[1])
                    await sleep(0)
            elif op == "set":
                event(st[1]).set()
            elif op == "wait":
                e = event(st[1])
                while not e.is_set():
                    await sleep(0.003)
            elif op == "adopt":
                ctx.do_adopt(who, st[1], st[2])
            elif op == "adopt_many":
                for w in st[2]:
                    if st[1] in ctx.ended:
                        break
                    ctx.do_adopt(who, st[1], w)
                    await sleep(st[3])
            elif op == "execute":
                ctx.do_execute(who, st[1], st[2])
            elif op == "service":
                ctx.do_service(who, st[1])
            elif op == "section":
                section(fl, key, st[1])
            elif op == "park":
                # suspended on an awaitable nothing else references (the run-forever idiom of a service that waits
                # for an event of its own): only the runtime keeps such a payload alive
                if fl == "trio":
                    await trio.sleep_forever()
                else:
                    await asyncio.get_running_loop().create_future()
            elif op == "shutdown_via_thread":
                # a coroutine payload stops the runtime without blocking its loop: the blocking call runs in a worker thread
                if fl == "trio":
                    await trio.to_thread.run_sync(ctx.do_shutdown, ["helper", 90 + key[1]], st[1])
                else:
                    await asyncio.get_running_loop().run_in_executor(None, ctx.do_shutdown, ["helper", 90 + key[1]], st[1])
            elif op == "forever":
                while True:
                    await sleep(3600)
            elif op == "return":
                v = make_value(st[1])
                PAYLOAD_OBJ[key] = v
                finish(key, spec, "ret_val", st[1])
                return v
            elif op == "raise":
                e = make_exc(st[1])
                PAYLOAD_OBJ[key] = e
                finish(key, spec, "raise", st[1])
                raise e
            elif op == "kbd":
                finish(key, spec, "kbd", None)
                raise KeyboardInterrupt()
            else:
                raise RuntimeError("bad async script op %r" % (st,))
        finish(key, spec, "ret_none", None)
        return None
    except cancelled_types:
        log("Cancelled", key[0], key[1])
        cl = spec.get("cleanup", {})
        for _ in range(cl.get("swallow", 0) if fl == "asyncio" else 0):
            # a payload that takes a cancellation as "retry": it awaits again and only gives up when it is cancelled
            # once more (asyncio cancels once per request; closing must keep asking)
            try:
                await asyncio.sleep(3600)
            except asyncio.CancelledError:
                log("CleanStep", key[0], key[1])
        for _ in range(cl.get("sync", 0)):
            log("CleanStep", key[0], key[1])
        if cl.get("shield", 0) and fl == "trio":
            with trio.CancelScope(shield=True):
                if cl.get("adopt") is not None:
                    # part of the cleanup: hand some follow-up work to the runtime (it may be discarded while the
                    # runtime shuts down, but adopt itself does not fail the cleanup)
                    ctx.do_adopt(who, spec.get("owner_rid", 0), cl["adopt"])
                n = max(1, int(cl.get("shield_steps", 1)))
                for _ in range(n):
                    await trio.sleep(cl["shield"] / n)
                    log("CleanStep", key[0], key[1])
        log("CleanupDone", key[0], key[1])
        raise


def run_sync(ctx, key, spec, args, kwargs=None, executed=False):
    fl = spec["flavour"]
    kwargs = kwargs or {}
    start_event(key, fl, args, kwargs, spec)
    who = who_of(key)
    for st in spec.get("script", []):
        op = st[0]
        if op == "step":
            log("Step", key[0], key[1])
        elif op in ("sleep", "block"):
            time.sleep(st[1])
        elif op == "beat":
            for _ in range(st[1]):
                log("Step", key[0], key[1])
                time.sleep(st[2])
        elif op == "spin":
            for _ in range(st[1]):
                log("Step", key[0], key[1])
                time.sleep(0)
        elif op == "set":
            event(st[1]).set()
        elif op == "wait":
            event(st[1]).wait()
        elif op == "adopt":
            ctx.do_adopt(who, st[1], st[2])
        elif op == "adopt_many":
            for w in st[2]:
                if st[1] in ctx.ended:
                    break
                ctx.do_adopt(who, st[1], w)
                time.sleep(st[3])
        elif op == "execute":
            ctx.do_execute(who, st[1], st[2])
        elif op == "adopt_private_loop":
            adopt_in_private_loop(ctx, who, st[1], st[2])
        elif op == "execute_private_trio":
            # the thread drives a trio run of its own and executes from one of ITS worker threads
            async def private_main():
                await trio.to_thread.run_sync(ctx.do_execute, who, st[1], st[2])
            trio.run(private_main)
        elif op == "service":
            ctx.do_service(who, st[1])
        elif op == "shutdown":
            ctx.do_shutdown(who, st[1])
        elif op == "section":
            section(fl, key, st[1])
        elif op == "park":
            threading.Event().wait()
        elif op == "forever":
            threading.Event().wait()
        elif op == "return":
            v = make_value(st[1])
            PAYLOAD_OBJ[key] = v
            finish(key, spec, "ret_val", st[1])
            return v
        elif op == "raise":
            e = make_exc(st[1])
            PAYLOAD_OBJ[key] = e
            finish(key, spec, "raise", st[1])
            raise e
        elif op == "kbd":
            finish(key, spec, "kbd", None)
            raise KeyboardInterrupt()
        else:
            raise RuntimeError("bad sync script op %r" % (st,))
    finish(key, spec, "ret_none", None)
    return None


SHARED = {}          # group name -> (function object, deque of payload ids waiting to be run)


def make_payload(ctx, pid, executed=False):
    spec = ctx.scn["payloads"][str(pid)]
    if "callfail" in spec:
        # a payload that fails when it is CALLED (before any coroutine exists), e.g. a plain callable
        def payload(*args, **kwargs):
            start_event(("p", pid), spec["flavour"], args, kwargs, spec)
            e = make_exc(spec["callfail"])
            PAYLOAD_OBJ[("p", pid)] = e
            finish(("p", pid), spec, "raise", spec["callfail"])
            raise e
        payload.__name__ = "payload_%d" % pid
        return payload
    if "shared" in spec:
        # several executions of ONE function object: every run takes the next waiting payload id
        import collections
        with LOCK:
            ent = SHARED.get(spec["shared"])
            if ent is None:
                q = collections.deque()

                async def shared_payload():
                    mypid = q.popleft()
                    myspec = ctx.scn["payloads"][str(mypid)]
                    return await run_async(ctx, ("p", mypid), myspec, (), {}, True)

                def shared_sync():
                    mypid = q.popleft()
                    myspec = ctx.scn["payloads"][str(mypid)]
                    return run_sync(ctx, ("p", mypid), myspec, (), {}, True)
                ent = SHARED[spec["shared"]] = ((shared_sync if spec["flavour"] == "threading" else shared_payload), q)
        return ent[0]
    if spec["flavour"] == "threading":
        def payload(*args, **kwargs):
            return run_sync(ctx, ("p", pid), spec, args, kwargs, executed)
    else:
        async def payload(*args, **kwargs):
            return await run_async(ctx, ("p", pid), spec, args, kwargs, executed)
    payload.__name__ = "payload_%d" % pid
    return shaped(payload, spec.get("shape"), spec["flavour"] != "threading", lambda: log("Call", "p", pid))


def shaped(fn, shape, is_async, on_call=lambda: None):
    """the same payload as another kind of callable: anything that can be called without arguments and, for
    the coroutine flavours, returns an awaitable is a payload"""
    import functools
    if not shape or shape == "plain":
        return fn
    if shape == "nomodule":           # e.g. a function compiled with exec() in a bare namespace: no __module__
        fn.__module__ = None
        return fn
    if shape == "wrapped":            # a coroutine function behind an ordinary decorator
        @functools.wraps(fn)
        def wrapper(*args, **kwargs):
            on_call()                 # the synchronous part of the payload: runs wherever the payload is CALLED
            return fn(*args, **kwargs)
        del wrapper.__wrapped__
        return wrapper
    if shape == "lambda":
        lam = lambda *args, **kwargs: (on_call(), fn(*args, **kwargs))[1]      # noqa: E731
        lam.__name__ = fn.__name__
        return lam
    if shape == "object":
        if is_async:
            class CallableObject(object):
                async def __call__(self, *args, **kwargs):
                    return await fn(*args, **kwargs)
        else:
            class CallableObject(object):
                def __call__(self, *args, **kwargs):
                    return fn(*args, **kwargs)
        obj = CallableObject()
        obj.__name__ = fn.__name__
        return obj
    if shape == "method":
        class Holder(object):
            def __init__(self):
                self.fn = fn
            if is_async:
                async def payload(self, *args, **kwargs):
                    return await self.fn(*args, **kwargs)
            else:
                def payload(self, *args, **kwargs):
                    return self.fn(*args, **kwargs)
        h = Holder()
        Holder.payload.__name__ = fn.__name__
        return h.payload
    raise RuntimeError("bad payload shape %r" % (shape,))


# ------------------------------------------------------------------------------------------
# actors: main thread and helper threads run small programs
# ------------------------------------------------------------------------------------------
def adopt_in_private_loop(ctx, who, rid, pid):
    """adopt from a thread that is driving an asyncio event loop of its own (e.g. a thread payload that
    uses asyncio.run for its own purposes)"""
    async def inner():
        ctx.do_adopt(who, rid, pid)
        await asyncio.sleep(0)
    asyncio.run(inner())


def send_sigint():
    """interrupt the MAIN thread (where Python runs signal handlers).  A process-directed signal (os.kill) may be
    handed to any thread by the kernel; CPython then only sets a flag, and a main thread sleeping in select() -
    an idle asyncio loop - is not woken: the interrupt goes unnoticed until something else wakes the loop (seen as a
    1-in-3000 hang of idle runtimes, far more often on a loaded machine; a property of CPython's signal handling, not
    of the runtime under test)."""
    signal.pthread_kill(threading.main_thread().ident, signal.SIGINT)


def run_program(ctx, who, prog):
    for st in prog:
        op = st[0]
        if op == "adopt":
            ctx.do_adopt(who, st[1], st[2])
        elif op == "adopt_many":
            for w in st[2]:
                if st[1] in ctx.ended:
                    break
                ctx.do_adopt(who, st[1], w)
                time.sleep(st[3])
        elif op == "adopt_private_loop":
            adopt_in_private_loop(ctx, who, st[1], st[2])
        elif op == "execute":
            ctx.do_execute(who, st[1], st[2])
        elif op == "service":
            ctx.do_service(who, st[1])
        elif op == "service_many":
            for sid_ in st[1]:
                ctx.do_service(who, sid_)
        elif op == "accept":
            ctx.do_accept(who, st[1])
        elif op == "shutdown":
            ctx.do_shutdown(who, st[1])
        elif op == "gc":
            gc.collect()
        elif op == "shutdown_idle":
            # shutdown() of a runtime that is not running (never started, or its run has ended): a harmless no-op
            # for the caller, e.g. belt-and-braces cleanup; not an event of the model (nothing is running)
            if st[1] not in ctx.accepting:
                try:
                    ctx.runners[st[1]].shutdown()
                    log("IdleShutdown", who, st[1], "ok")
                except BaseException as e:  # noqa
                    log("IdleShutdown", who, st[1], "raised:%s" % type(e).__name__)
        elif op == "sigint":
            log("Sigint", who)
            send_sigint()
        elif op == "sigint_if_running":
            if st[1] in ctx.accepting and st[1] not in ctx.ended:
                log("Sigint", who)
                send_sigint()
        elif op == "wait_running":
            ctx.runners[st[1]].running.wait()
            log("RunningSet", st[1])
        elif op == "sleep":
            time.sleep(st[1])
        elif op == "wait":
            event(st[1]).wait()
        elif op == "set":
            event(st[1]).set()
        elif op == "mark":
            log("Mark", st[1])
        elif op == "switchinterval":
            sys.setswitchinterval(st[1])
        else:
            raise RuntimeError("bad program op %r" % (st,))


def install_perturbation(cfg):
    """Schedule perturbation: with probability cfg['p'] per executed source line of the runtime's own
    modules (cobald/daemon/runners/*.py) the executing thread sleeps cfg['sleep'] seconds.  This widens
    every preemption window the OS scheduler could produce anyway; it changes no behaviour."""
    import random
    rnd = random.Random(cfg.get("seed", 0))
    p, dt = cfg.get("p", 0.02), cfg.get("sleep", 0.002)
    funcs = set(cfg.get("funcs") or [])          # restrict to these function names (empty = all)
    per_call = cfg.get("max", 10 ** 9)           # at most this many delays inside one call of a function
    total = [cfg.get("total", 10 ** 9)]          # ... and this many in the whole scenario
    rlock = threading.Lock()
    marker = os.sep + os.path.join("cobald", "daemon", "runners") + os.sep

    def make_local():
        used = [0]

        def local(frame, event, arg):
            if event == "line":
                with rlock:
                    hit = rnd.random() < p and used[0] < per_call and total[0] > 0
                    if hit:
                        used[0] += 1
                        total[0] -= 1
                if hit:
                    time.sleep(dt)
            return local
        return local

    def tracer(frame, event, arg):
        if event == "call" and marker in frame.f_code.co_filename:
            if not funcs or frame.f_code.co_qualname in funcs:
                return make_local()
        return None
    threading.settrace(tracer)
    sys.settrace(tracer)


def main():
    with open(sys.argv[1]) as fh:
        scn = json.load(fh)
    if scn.get("switchinterval"):
        sys.setswitchinterval(scn["switchinterval"])
    import io
    import logging
    # the runtime logs as a real daemon would (formatting work included), into an in-memory sink
    logging.basicConfig(stream=io.StringIO(), level=logging.DEBUG)
    if scn.get("perturb"):
        install_perturbation(scn["perturb"])
    ctx = Ctx(scn)
    done = threading.Event()
    helpers = []
    for i, prog in enumerate(scn.get("helpers", [])):
        def helper(i=i, prog=prog):
            try:
                run_program(ctx, ["helper", i], prog)
            except BaseException as e:  # noqa
                log("HarnessError", "helper %d: %s: %s" % (i, type(e).__name__, e))
        t = threading.Thread(target=helper, daemon=True)
        helpers.append(t)
        t.start()

    def watchdog():
        if not done.wait(scn.get("timeout", 10)):
            log("Timeout")
            try:        # where is everybody?  (stderr; kept by the driver for diagnosis)
                import faulthandler
                faulthandler.dump_traceback(file=sys.stderr, all_threads=True)
            except Exception:  # noqa
                pass
            emit(scn)
            os._exit(3)
    threading.Thread(target=watchdog, daemon=True).start()
    try:
        run_program(ctx, ["main"], scn.get("main", []))
    except KeyboardInterrupt:
        log("HarnessError", "KeyboardInterrupt escaped to main program")
    except BaseException as e:  # noqa
        log("HarnessError", "main: %s: %s" % (type(e).__name__, e))
    for t in helpers:
        t.join(scn.get("join", 2.0))
    time.sleep(scn.get("linger", 0.3))
    log("End")
    done.set()
    emit(scn)
    os._exit(0)


def emit(scn):
    with LOCK:
        out = {"log": list(LOG), "overlaps": list(OVERLAPS)}
    sys.stdout.write(json.dumps(out))
    sys.stdout.flush()


if __name__ == "__main__":
    main()
