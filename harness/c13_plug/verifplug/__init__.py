"""
Instrumented pipeline classes for the process-level daemon check (C13).  Imported by the daemon
process through fake entry points (verifplug-0.0.dist-info) or by dotted name (__type__ / python
configs).  Every interesting moment is appended as one JSON line to $VERIF_C13_EVENTS.
"""
import asyncio
import json
import os
import threading
import time
import weakref

import trio

from cobald.interfaces import Pool, Controller, PoolDecorator
from cobald.daemon import service

_PATH = os.environ.get("VERIF_C13_EVENTS")
_LOCK = threading.Lock()
_TLS = threading.local()
_tok = [0]
_LOOPS = []
_T0 = time.monotonic()


def _token():
    t = getattr(_TLS, "tok", None)
    if t is None:
        with _LOCK:
            _tok[0] += 1
            t = _TLS.tok = _tok[0]
    return t


def _loops():
    """(asyncio loop index or 0, trio run index or 0)"""
    out = []
    for kind, get in (("aio", asyncio.get_running_loop), ("trio", trio.lowlevel.current_trio_token)):
        try:
            obj = get()
        except RuntimeError:
            out.append(0)
            continue
        with _LOCK:
            for i, (k, o) in enumerate(_LOOPS):
                if k == kind and o is obj:
                    out.append(i + 1)
                    break
            else:
                _LOOPS.append((kind, obj))
                out.append(len(_LOOPS))
    return out


def log(*ev):
    if not _PATH:
        return
    tok = _token()
    rec = {"t": round(time.monotonic(), 5), "tid": tok, "ev": list(ev)}
    with _LOCK:
        with open(_PATH, "a") as fh:
            fh.write(json.dumps(rec) + "\n")


def _probe(ident, slow):
    """a constructor that takes a while (probing a backend, reading a file) before it sets anything"""
    log("Constructing", ident)
    if slow:
        time.sleep(slow)


class _Instrumented(object):
    FLAVOUR = None

    def __repr__(self):
        return "<%s ident=%r beat=%r>" % (type(self).__name__, self.ident, self.beat)

    def _setup(self, ident, fail_after, fail_kind, beat, idle=False, churn=False, stubborn=False):
        self.stubborn = stubborn
        self.ident = ident
        self.fail_after = fail_after
        self.fail_kind = fail_kind
        self.beat = beat
        self.idle = idle          # suspend on an awaitable nothing else references instead of beating
        self.churn = churn        # produce cyclic garbage on every beat (makes the collector run)
        aio, tr = _loops()
        log("Constructed", ident, type(self).__name__, self.FLAVOUR, aio, tr)
        weakref.finalize(self, log, "Finalized", ident)

    def _end(self):
        k = self.fail_kind
        if k == "raise":
            log("Finish", self.ident, "raise")
            raise ValueError("scripted failure of %s" % self.ident)
        if k == "return":
            log("Finish", self.ident, "ret_val")
            return 0
        if k == "systemerror":
            log("Finish", self.ident, "raise")
            raise KeyError("scripted")
        if k in ("oserror", "timeout", "connection"):
            # OSError family without an errno (a timed-out wait, a dropped connection)
            log("Finish", self.ident, "raise")
            raise {"oserror": OSError("scripted, no errno"), "timeout": TimeoutError(), "connection": ConnectionError()}[k]
        if k in ("tuple", "emptytuple", "falsy"):
            log("Finish", self.ident, "ret_val")
            return {"tuple": ("stopped", "scripted reason"), "emptytuple": (), "falsy": ""}[k]
        log("Finish", self.ident, "ret_none")
        return None


def _garbage():
    for _ in range(300):
        cyc = []
        cyc.append(cyc)


def _make_run(flavour):
    if flavour == "threading":
        def run(self):
            aio, tr = _loops()
            log("Start", self.ident, flavour, aio, tr)
            t0 = time.monotonic()
            if self.idle:
                threading.Event().wait()
            while self.fail_after is None or time.monotonic() - t0 < self.fail_after:
                log("Step", self.ident)
                if self.churn:
                    _garbage()
                time.sleep(self.beat)
            return self._end()
        return run
    sleep = trio.sleep if flavour == "trio" else asyncio.sleep
    cancelled = trio.Cancelled if flavour == "trio" else asyncio.CancelledError

    async def run(self):
        aio, tr = _loops()
        log("Start", self.ident, flavour, aio, tr)
        t0 = time.monotonic()
        try:
            if self.idle:
                if flavour == "trio":
                    await trio.sleep_forever()
                else:
                    await asyncio.Future()       # the run-forever idiom: nothing else references this future
            while self.fail_after is None or time.monotonic() - t0 < self.fail_after:
                log("Step", self.ident)
                if self.churn:
                    _garbage()
                await sleep(self.beat)
            return self._end()
        except cancelled:
            log("Cancelled", self.ident)
            if flavour == "asyncio" and getattr(self, "stubborn", False):
                # flush state first: the first request to stop is absorbed, the service gives in to the next one
                try:
                    await asyncio.sleep(3600)
                except asyncio.CancelledError:
                    pass
            log("CleanupDone", self.ident)
            raise
    return run


class PlainPool(Pool):
    """a pool that is not a service"""
    supply = 0.0
    utilisation = 1.0
    allocation = 1.0

    def __init__(self, ident=0):
        self.ident = ident
        self._demand = 0.0
        aio, tr = _loops()
        log("Constructed", ident, type(self).__name__, None, aio, tr)
        weakref.finalize(self, log, "Finalized", ident)

    @property
    def demand(self):
        return self._demand

    @demand.setter
    def demand(self, value):
        self._demand = value


def _mk_pool(flavour, flavour_mod):
    @service(flavour=flavour_mod)
    class SPool(PlainPool):
        FLAVOUR = flavour

        def __init__(self, ident=0, fail_after=None, fail_kind=None, beat=0.02, idle=False, churn=False, slow=0, stubborn=False):
            _probe(ident, slow)
            self._demand = 0.0
            _Instrumented._setup(self, ident, fail_after, fail_kind, beat, idle, churn, stubborn)

        _end = _Instrumented._end
        __repr__ = _Instrumented.__repr__
        run = _make_run(flavour)
    SPool.__name__ = SPool.__qualname__ = "Pool" + flavour.capitalize()
    return SPool


def _mk_deco(flavour, flavour_mod):
    @service(flavour=flavour_mod)
    class SDeco(PoolDecorator):
        FLAVOUR = flavour

        def __init__(self, target, ident=0, fail_after=None, fail_kind=None, beat=0.02, idle=False, churn=False, slow=0, stubborn=False):
            _probe(ident, slow)
            super().__init__(target)
            _Instrumented._setup(self, ident, fail_after, fail_kind, beat, idle, churn, stubborn)
            log("Target", ident, getattr(target, "ident", None))

        _end = _Instrumented._end
        __repr__ = _Instrumented.__repr__
        run = _make_run(flavour)
    SDeco.__name__ = SDeco.__qualname__ = "Deco" + flavour.capitalize()
    return SDeco


def _mk_ctrl(flavour, flavour_mod):
    @service(flavour=flavour_mod)
    class SCtrl(Controller):
        FLAVOUR = flavour

        def __init__(self, target, ident=0, fail_after=None, fail_kind=None, beat=0.02, idle=False, churn=False, slow=0, stubborn=False):
            _probe(ident, slow)
            super().__init__(target)
            _Instrumented._setup(self, ident, fail_after, fail_kind, beat, idle, churn, stubborn)
            log("Target", ident, getattr(target, "ident", None))

        _end = _Instrumented._end
        __repr__ = _Instrumented.__repr__
        run = _make_run(flavour)
    SCtrl.__name__ = SCtrl.__qualname__ = "Ctrl" + flavour.capitalize()
    return SCtrl


class PlainDeco(PoolDecorator):
    def __init__(self, target, ident=0):
        super().__init__(target)
        self.ident = ident
        aio, tr = _loops()
        log("Constructed", ident, type(self).__name__, None, aio, tr)
        log("Target", ident, getattr(target, "ident", None))
        weakref.finalize(self, log, "Finalized", ident)


_MODS = {"trio": trio, "asyncio": asyncio, "threading": threading}
PoolTrio, PoolAsyncio, PoolThreading = (_mk_pool(f, _MODS[f]) for f in ("trio", "asyncio", "threading"))
DecoTrio, DecoAsyncio, DecoThreading = (_mk_deco(f, _MODS[f]) for f in ("trio", "asyncio", "threading"))
CtrlTrio, CtrlAsyncio, CtrlThreading = (_mk_ctrl(f, _MODS[f]) for f in ("trio", "asyncio", "threading"))

NAMES = ["PlainPool", "PlainDeco", "PoolTrio", "PoolAsyncio", "PoolThreading", "DecoTrio", "DecoAsyncio",
         "DecoThreading", "CtrlTrio", "CtrlAsyncio", "CtrlThreading"]
