"""
Loaded at interpreter start of the daemon process under test (C13) because this directory is on
PYTHONPATH.  It only WRAPS entry points of the runtime to log when they are called and how they end
(no behaviour is changed): ServiceRunner.accept, ServiceRunner.adopt and main._load_services.
"""
import os

if os.environ.get("VERIF_C13_EVENTS"):
    import asyncio
    import functools

    from verifplug import log, _loops

    import cobald.daemon.runners.service as _svc
    import cobald.daemon.core.main as _main

    _accept = _svc.ServiceRunner.accept

    @functools.wraps(_accept)
    def accept(self, *a, **k):
        log("AcceptCall")
        try:
            res = _accept(self, *a, **k)
        except BaseException as e:  # noqa
            cause = e.__cause__
            log("AcceptEnd", "raised", type(e).__name__, str(e)[:80], type(cause).__name__ if cause is not None else None)
            raise
        log("AcceptEnd", "returned")
        return res

    _svc.ServiceRunner.accept = accept

    _load = _main._load_services

    @functools.wraps(_load)
    async def _load_services(path):
        aio, tr = _loops()
        log("LoaderStart", aio, tr)
        try:
            res = await _load(path)
        except asyncio.CancelledError:
            log("LoaderCancelled")
            raise
        except BaseException as e:  # noqa
            log("LoaderFinish", "raise", type(e).__name__, str(e)[:200])
            raise
        log("LoaderFinish", "ret_none" if res is None else "ret_val")
        return res

    _main._load_services = _load_services

    _run = _main.run

    @functools.wraps(_run)
    def run(*a, **k):
        log("AdoptCall")
        return _run(*a, **k)

    _main.run = run
