"""C08 — controllers: generators, implementation runner, oracle, Coq case printer.

One case = raw constructor arguments of one controller + a behaviour table for the recording
rules / slave controllers + an initial pool state + a history of operations (regulation steps,
pool state changes, outside demand writes).  The real controller is driven against a recording
pool; LinearController / RelativeSupplyController / DemandSwitch through `regulate(interval)`,
Stepwise through its shipped `run()` under trio's MockClock (it has no `regulate`)."""
from fractions import Fraction as F
from .common import cQ, clist, cnat, cbool

ID = "C08"
COQ_TARGETS = ["props/C08.vo"]
CORR_TARGETS = ["corr/C08Corr.vo"]
CORR_PRELUDE = "From Cobald Require Import kit.QKit kit.Corr model.Controllers corr.C08Corr."
CORR_CHECK = "C08Corr.check"
CORR_TYPE = "C08Corr.case"
N_QUICK, N_THOROUGH = 700, 6000
RULE = ("constructor arguments (valid + malformed: rate<=0, low>high, scales on the wrong side of 1, duplicate / zero / "
        "negative thresholds, odd / ill-typed slave lists, foreign targets) for LinearController, RelativeSupplyController, "
        "Stepwise/RangeSelector (0-8 rules in random declaration order) and DemandSwitch (0-8 slaves, random order); "
        "histories of 1-40 operations (regulate / pool state change / outside demand write) with every compared value "
        "exactly on, 1/1024 below and 1/1024 above its threshold; exact Fractions, ints and dyadic floats; boundary corpus "
        "first, then seeded random.  non-trivial = accepted constructor and >= 1 regulation step observed")
TRUSTED_BASE = [
    "Coq 8.16.1 kernel + vm_compute (bytecode VM) for evaluating the model on the cases",
    "harness/c08.py: recording pool / rules / slave controllers, canonicalisation of numbers to exact rationals, "
    "trio MockClock driver for Stepwise.run",
    "model/Controllers.v is hand-written; tied to src/cobald/controller/{linear,relative_supply,stepwise,switch}.py and "
    "utility/__init__.py by the correspondence run and, by translation (py2coq, trusted, fail-closed; gen/Gen_controllers.v "
    "regenerated on every run, props/C08_tie.v): LinearController.regulate, RelativeSupplyController.regulate, and the "
    "selection loops of RangeSelector.get_rule and DemandSwitch.regulate (exact loop skeleton, condition transcribed as a "
    "comparison chain, kit/SelectIR.v); the bodies of Stepwise.run / DemandSwitch.run are matched as fixed statement lists; "
    "_compile_lookup, DemandSwitch.__init__ and UnboundStepwise by correspondence only",
    "ideal arithmetic: binary64 rounding is not modelled (cases use exact Fractions / ints / dyadic floats)",
]
ASSUMPTIONS = [
    "the target is a plain pool: attribute reads return the stored value and have no side effects, demand writes store",
    "rules are pure functions of (pool, interval); slave controllers write the target's demand at most once per regulate",
    "Stepwise domain: supply finite (>= 0 for the selection theorem; a supply below every range raises TypeError, which the "
    "model reproduces as ENoRule); interval >= 0 for the |delta| <= rate*interval bound",
    "constructor errors are observed as 'rejected' whatever exception type is raised",
]

EPS = F(1, 1024)


def fr(x):
    x = F(x)
    return "%d/%d" % (x.numerator, x.denominator)


def un(s):
    return F(s)


def num(s):
    """exact python number fed to the implementation: int when integral, else Fraction"""
    x = F(s)
    return int(x) if x.denominator == 1 else x


def fnum(s):
    """int or (dyadic, exact) float: DemandSwitch insists on isinstance(_, (int, float))"""
    x = F(s)
    if x.denominator == 1:
        return int(x)
    f = float(x)
    assert F(f) == x, "not dyadic: %s" % s
    return f


# ------------------------------------------------------------------ behaviours (harness' own recording rules / slaves)
def beh_value(beh, pool, interval):
    k = beh[0]
    if k == "none":
        return None
    if k == "const":
        return num(beh[1])
    if k == "add":
        return pool.demand + num(beh[1])
    if k == "scale":
        return pool.supply * num(beh[1])
    if k == "itv":
        return pool.demand + interval * num(beh[1])
    if k == "linear":
        if pool.utilisation < num(beh[1]):
            return pool.demand - interval * num(beh[3])
        elif pool.allocation > num(beh[2]):
            return pool.demand + interval * num(beh[3])
        return None
    if k == "relative":
        if pool.utilisation < num(beh[1]):
            return pool.supply * num(beh[3])
        elif pool.allocation > num(beh[2]):
            return pool.supply * num(beh[4])
        return pool.supply
    raise ValueError(beh)


class _Plain:
    """oracle's own pool state"""
    def __init__(self, s, d, u, a):
        self.supply, self.demand, self.utilisation, self.allocation = s, d, u, a


# ------------------------------------------------------------------ generation
GRID = [F(i, 16) for i in range(0, 17)]
RATES = [F(1), F(1, 2), F(3), F(7, 3), F(1, 1024), F(1000), F(5, 4)]
ITVS = [F(0), F(1, 8), F(1), F(3), F(10), F(7, 3), F(1, 2)]
DYADIC_ITVS = [F(1, 8), F(1, 2), F(1), F(3), F(10)]


def around(rng, t):
    return t + rng.choice([-EPS, 0, 0, EPS])


def rnd_fit(rng):
    return rng.choice(GRID)


def rnd_amount(rng):
    r = rng.random()
    if r < 0.2:
        return F(0)
    if r < 0.5:
        return F(rng.randint(0, 40))
    return F(rng.randint(0, 640), rng.choice([1, 2, 3, 4, 7, 8, 16]))


def rnd_beh(rng, allow_none=True):
    r = rng.random()
    if r < 0.15 and allow_none:
        return ["none"]
    if r < 0.21:
        return ["const", "0/1"]          # "give everything up": an answer of exactly 0 is an answer
    if r < 0.3:
        return ["const", fr(rnd_amount(rng))]
    if r < 0.45:
        return ["add", fr(rng.choice([-1, 1]) * rnd_amount(rng))]
    if r < 0.6:
        return ["scale", fr(rng.choice([F(9, 10), F(11, 10), F(1, 2), F(2), F(1)]))]
    if r < 0.75:
        return ["itv", fr(rng.choice([-1, 1]) * rng.choice(RATES))]
    if r < 0.9:
        lo = rnd_fit(rng)
        hi = rng.choice([g for g in GRID if g >= lo])
        return ["linear", fr(lo), fr(hi), fr(rng.choice(RATES))]
    lo = rnd_fit(rng)
    hi = rng.choice([g for g in GRID if g >= lo])
    return ["relative", fr(lo), fr(hi), fr(F(9, 10)), fr(F(11, 10))]


def gen_fit_ops(rng, low, high, n, itvs, demand_writes=True):
    """history for Linear / Relative: utilisation / allocation exactly on and around the thresholds"""
    ops = []
    for _ in range(n):
        r = rng.random()
        if r < 0.5:
            u = around(rng, low) if rng.random() < 0.7 else rnd_fit(rng)
            a = around(rng, high) if rng.random() < 0.7 else rnd_fit(rng)
            ops.append(["state", fr(rnd_amount(rng)), fr(u), fr(a)])
            ops.append(["reg", fr(rng.choice(itvs))])
        elif r < 0.85:
            ops.append(["reg", fr(rng.choice(itvs))])
        elif demand_writes:
            ops.append(["demand", fr(rnd_amount(rng))])
    if not any(o[0] == "reg" for o in ops):
        ops.append(["reg", fr(rng.choice(itvs))])
    return ops


def gen_linear(rng):
    low = rnd_fit(rng)
    high = rng.choice([g for g in GRID if g >= low])
    rate = rng.choice(RATES)
    m = rng.random()
    if m < 0.06:
        rate = rng.choice([F(0), F(-1), F(-1, 2)])
    elif m < 0.12:
        low, high = high + EPS, low
    elif m < 0.2:
        high = low
    itv = rng.choice(ITVS)
    itvs = [itv] if rng.random() < 0.5 else ITVS
    return {"kind": "linear", "args": [fr(low), fr(high), fr(rate), fr(itv)], "table": [],
            "pool": [fr(rnd_amount(rng)), fr(rnd_amount(rng)), fr(around(rng, low)), fr(around(rng, high))],
            "ops": gen_fit_ops(rng, low, high, rng.randint(1, 20), itvs)}


def gen_relative(rng):
    low = rnd_fit(rng)
    high = rng.choice([g for g in GRID if g >= low])
    ls = rng.choice([F(9, 10), F(1, 2), F(0), F(-1), F(1023, 1024)])
    hs = rng.choice([F(11, 10), F(2), F(1025, 1024), F(100)])
    m = rng.random()
    if m < 0.05:
        ls = rng.choice([F(1), F(11, 10)])
    elif m < 0.1:
        hs = rng.choice([F(1), F(1, 2)])
    elif m < 0.15:
        low, high = high + EPS, low
    itv = rng.choice(ITVS)
    return {"kind": "relative", "args": [fr(low), fr(high), fr(ls), fr(hs), fr(itv)], "table": [],
            "pool": [fr(rnd_amount(rng)), fr(rnd_amount(rng)), fr(around(rng, low)), fr(around(rng, high))],
            "ops": gen_fit_ops(rng, low, high, rng.randint(1, 16), [itv])}


def rnd_thresholds(rng, n, dyadic):
    pool = set()
    while len(pool) < n:
        r = rng.random()
        if r < 0.5:
            pool.add(F(rng.randint(1, 30)))
        elif r < 0.8:
            pool.add(F(rng.randint(1, 400), rng.choice([2, 4, 8, 16])))
        elif r < 0.9:
            pool.add(F(2) ** rng.choice([-10, 20, 30]))
        elif dyadic:
            pool.add(F(rng.randint(1, 400), 32))
        else:
            pool.add(F(rng.randint(1, 90), rng.choice([3, 7, 9])))
    ts = list(pool)
    rng.shuffle(ts)
    return ts


def gen_stepwise(rng):
    n = rng.choice([0, 1, 1, 2, 2, 3, 4, 5, 6, 8])
    ts = rnd_thresholds(rng, n, dyadic=False)
    nb = rng.randint(1, min(9, n + 2))           # number of distinct rule objects
    rules = [[fr(t), rng.randrange(nb)] for t in ts]
    base = rng.randrange(nb)
    m = rng.random()
    if m < 0.05 and rules:       # duplicate threshold, same rule object
        rules.insert(rng.randrange(len(rules) + 1), list(rng.choice(rules)))
    elif m < 0.1 and rules and nb > 1:      # duplicate threshold, another rule
        t, r = rng.choice(rules)
        rules.insert(rng.randrange(len(rules) + 1), [t, (r + 1) % nb])
    elif m < 0.14:      # zero threshold
        rules.insert(rng.randrange(len(rules) + 1), ["0/1", rng.randrange(nb)])
    elif m < 0.18:      # negative threshold
        rules.insert(rng.randrange(len(rules) + 1), [fr(-rng.randint(1, 5)), rng.randrange(nb)])
    itv = rng.choice(DYADIC_ITVS)
    table = [rnd_beh(rng) for _ in range(nb)]
    allts = [un(t) for t, _ in rules]

    def rnd_supply():
        r = rng.random()
        if allts and r < 0.7:
            return around(rng, rng.choice(allts))
        if r < 0.8:
            return F(0)
        if r < 0.84:
            return -rnd_amount(rng) - EPS
        return rnd_amount(rng)
    ops = []
    for _ in range(rng.randint(1, 14)):
        r = rng.random()
        if r < 0.6:
            ops.append(["state", fr(rnd_supply()), fr(rnd_fit(rng)), fr(rnd_fit(rng))])
            ops.append(["reg", fr(itv)])
        elif r < 0.85:
            ops.append(["reg", fr(itv)])
        else:
            ops.append(["demand", fr(rnd_amount(rng))])
    probes = sorted(set([F(0), -EPS, F(-3)] + [t + e for t in allts for e in (-EPS, 0, EPS)]))
    return {"kind": "stepwise", "skeleton": rng.choice([None, None, "late", "early", "early"]), "base": base, "rules": rules, "itv": fr(itv), "table": table,
            "pool": [fr(rnd_supply()), fr(rnd_amount(rng)), fr(rnd_fit(rng)), fr(rnd_fit(rng))],
            "ops": ops, "probes": [fr(p) for p in probes]}


def gen_switch(rng):
    n = rng.choice([0, 1, 1, 2, 2, 3, 4, 5, 6, 8])
    ts = rnd_thresholds(rng, n, dyadic=True)
    if rng.random() < 0.15 and ts:
        ts[rng.randrange(len(ts))] = F(rng.choice([0, -1, -5, F(-3, 2)]))
        ts = list(dict.fromkeys(ts))
        n = len(ts)
    nc = rng.randint(1, min(9, n + 2))
    default = rng.randrange(nc)
    pairs = [[t, rng.randrange(nc)] for t in ts]
    m = rng.random()
    if m < 0.06 and pairs:      # duplicate threshold, same controller
        pairs.insert(rng.randrange(len(pairs) + 1), list(rng.choice(pairs)))
    elif m < 0.12 and pairs and nc > 1:     # duplicate threshold, other controller
        t, c = rng.choice(pairs)
        pairs.insert(rng.randrange(len(pairs) + 1), [t, (c + 1) % nc])
    items = []
    for t, c in pairs:
        items += [["num", fr(t)], ["ctl", c]]
    if m >= 0.12:
        if m < 0.16:
            items.append(rng.choice([["num", "3/1"], ["ctl", 0], ["junk"]]))      # odd
        elif m < 0.2 and items:
            i = rng.randrange(len(items) // 2) * 2
            items[i], items[i + 1] = items[i + 1], items[i]                        # swapped pair
        elif m < 0.23:
            items += [["junk"], ["ctl", 0]]
        elif m < 0.26:
            items += [["num", "1/1"], ["junk"]]
    tags = [rng.choice(["none", "none", "same", "equal"]) for _ in range(nc + 1)]     # one extra controller never passed
    if rng.random() < 0.08:
        tags[rng.randrange(nc + 1)] = "other"
    table = [rnd_beh(rng) for _ in range(nc + 1)]
    itv = rng.choice(ITVS)

    def rnd_demand():
        if ts and rng.random() < 0.75:
            return around(rng, rng.choice(ts))
        return rnd_amount(rng) * rng.choice([1, 1, 1, -1])
    ops = []
    for _ in range(rng.randint(1, 16)):
        r = rng.random()
        if r < 0.55:
            ops.append(["demand", fr(rnd_demand())])
            ops.append(["reg", fr(rng.choice(ITVS))])
        elif r < 0.8:
            ops.append(["reg", fr(itv)])
        else:
            ops.append(["state", fr(rnd_amount(rng)), fr(rnd_fit(rng)), fr(rnd_fit(rng))])
    return {"kind": "switch", "tags": tags, "default": default, "items": items, "itv": fr(itv), "table": table,
            "pool": [fr(rnd_amount(rng)), fr(rnd_demand()), fr(rnd_fit(rng)), fr(rnd_fit(rng))], "ops": ops}


def corpus():
    h = "1/2"
    lo, on, up = fr(F(1, 2) - EPS), h, fr(F(1, 2) + EPS)
    # linear: every combination of utilisation / allocation below / on / above the (equal) thresholds
    ops = []
    for u in (lo, on, up):
        for a in (lo, on, up):
            ops += [["state", "10/1", u, a], ["reg", "1/1"]]
    yield {"kind": "linear", "args": [h, h, "1/1", "1/1"], "table": [], "pool": ["10/1", "5/1", h, h], "ops": ops}
    yield {"kind": "linear", "args": ["1/4", "3/4", "7/3", "10/1"], "table": [], "pool": ["10/1", "5/1", "1/8", "7/8"],
           "ops": [["reg", "10/1"], ["state", "1/1", "1/4", "3/4"], ["reg", "10/1"], ["state", "1/1", "1/2", "7/8"],
                   ["reg", "0/1"], ["reg", "1/8"], ["demand", "0/1"], ["state", "0/1", "0/1", "1/1"], ["reg", "3/1"]]}
    for args in (["1/2", "1/2", "0/1", "1/1"], ["1/2", "1/2", "-1/1", "1/1"], ["3/4", "1/2", "1/1", "1/1"]):
        yield {"kind": "linear", "args": args, "table": [], "pool": ["1/1", "1/1", h, h], "ops": [["reg", "1/1"]]}
    yield {"kind": "relative", "args": [h, h, "9/10", "11/10", "1/1"], "table": [], "pool": ["10/1", "5/1", h, h], "ops": ops}
    for args in ([h, h, "1/1", "11/10", "1/1"], [h, h, "9/10", "1/1", "1/1"], ["3/4", h, "9/10", "11/10", "1/1"]):
        yield {"kind": "relative", "args": args, "table": [], "pool": ["1/1", "1/1", h, h], "ops": [["reg", "1/1"]]}
    # stepwise: documented example shape, declaration order reversed; supply on every boundary
    tbl = [["const", "10/1"], ["linear", "1/2", "1/2", "1/1"], ["scale", "11/10"], ["none"]]
    sups = ["0/1", fr(10 - EPS), "10/1", fr(10 + EPS), fr(100 - EPS), "100/1", fr(100 + EPS), "5000/1"]
    sops = []
    for s in sups:
        sops += [["state", s, "1/4", "3/4"], ["reg", "1/1"]]
    for rules in ([["100/1", 2], ["10/1", 1]], [["10/1", 1], ["100/1", 2]], [["100/1", 3], ["10/1", 1], ["50/1", 0]]):
        yield {"kind": "stepwise", "base": 0, "rules": rules, "itv": "1/1", "table": tbl,
               "pool": ["0/1", "3/1", "1/2", "1/2"], "ops": sops, "probes": sups + ["-1/1"]}
    yield {"kind": "stepwise", "base": 0, "rules": [], "itv": "1/2", "table": tbl, "pool": ["0/1", "3/1", "1/2", "1/2"],
           "ops": [["reg", "1/2"], ["state", "-1/1", "1/2", "1/2"], ["reg", "1/2"], ["reg", "1/2"]], "probes": ["0/1", "-1/1", "7/1"]}
    for rules in ([["10/1", 1], ["10/1", 1]], [["10/1", 1], ["10/1", 2]], [["0/1", 1]], [["-1/1", 1], ["0/1", 2]],
                  [["5/1", 1], ["10/1", 2], ["5/1", 3]]):
        yield {"kind": "stepwise", "base": 0, "rules": rules, "itv": "1/1", "table": tbl,
               "pool": ["3/1", "3/1", "1/2", "1/2"], "ops": [["reg", "1/1"]], "probes": ["0/1", "-1/2", "-1/1", "5/1"]}
    # switch: documented example DemandSwitch(pool, linear_control, 10, supply_control)
    stbl = [["linear", "1/2", "1/2", "1/1"], ["relative", "1/2", "1/2", "9/10", "11/10"], ["add", "1/1"], ["none"]]
    dops = []
    for d in ("0/1", fr(10 - EPS), "10/1", fr(10 + EPS), "20/1", fr(20 + EPS), "-1/1"):
        dops += [["demand", d], ["reg", "1/1"]]
    for items in ([["num", "10/1"], ["ctl", 1]], [["num", "20/1"], ["ctl", 2], ["num", "10/1"], ["ctl", 1]],
                  [["num", "10/1"], ["ctl", 1], ["num", "20/1"], ["ctl", 2]], []):
        yield {"kind": "switch", "tags": ["none", "same", "none", "none"], "default": 0, "items": items, "itv": "1/1",
               "table": stbl, "pool": ["12/1", "5/1", "1/4", "3/4"], "ops": dops}
    for items, tags in (([["num", "10/1"]], ["none"] * 4), ([["ctl", 1], ["num", "10/1"]], ["none"] * 4),
                        ([["num", "10/1"], ["ctl", 1], ["num", "10/1"], ["ctl", 2]], ["none"] * 4),
                        ([["num", "10/1"], ["ctl", 1], ["num", "10/1"], ["ctl", 1]], ["none"] * 4),
                        ([["num", "10/1"], ["ctl", 1]], ["none", "other", "none", "none"]),
                        ([["num", "10/1"], ["ctl", 1]], ["other", "none", "none", "none"]),
                        ([["num", "10/1"], ["ctl", 1]], ["none", "none", "none", "other"]),
                        ([["junk"], ["ctl", 1]], ["none"] * 4)):
        yield {"kind": "switch", "tags": tags, "default": 0, "items": items, "itv": "1/1", "table": stbl,
               "pool": ["12/1", "10/1", "1/4", "3/4"], "ops": [["reg", "1/1"]]}


def gen_cases(rng, n):
    out = list(corpus())
    for c in out:
        yield c
    gens = [gen_linear, gen_relative, gen_stepwise, gen_stepwise, gen_switch, gen_switch]
    for i in range(max(0, n - len(out))):
        yield gens[i % len(gens)](rng)


# ------------------------------------------------------------------ implementation
def _mk_pool(log, spec, touch=None, changes_only=False):
    """recording pool: logs every demand write (with changes_only: only writes of a different value);
    `touch` (optional) is called on every attribute access"""
    from cobald.interfaces import Pool

    def read(name):
        def get(self):
            if touch is not None:
                touch()
            return getattr(self, name)
        return property(get)

    class RecPool(Pool):
        supply = utilisation = allocation = demand = None

        def __init__(self, s, d, u, a):
            self._s, self._d, self._u, self._a = s, d, u, a

        supply = read("_s")
        utilisation = read("_u")
        allocation = read("_a")

        @property
        def demand(self):
            if touch is not None:
                touch()
            return self._d

        @demand.setter
        def demand(self, v):
            if touch is not None:
                touch()
            if not (changes_only and v == self._d):
                log.append(["w", v])
            self._d = v

    return RecPool(*[num(x) for x in spec])


def _q(x):
    if isinstance(x, bool) or not isinstance(x, (int, float, F)):
        return "bad:%s" % type(x).__name__
    if isinstance(x, float) and (x != x or x in (float("inf"), float("-inf"))):
        return "bad:nonfinite"
    return fr(F(x))


def _canon_log(entries):
    out = []
    for e in entries:
        if e[0] == "w":
            out.append(["w", _q(e[1])])
        else:
            out.append([e[0], e[1], bool(e[2]), _q(e[3])])
    return out


def _exc_kind(e):
    """unwrap exception groups; TypeError (calling None) -> norule"""
    while hasattr(e, "exceptions") and len(e.exceptions) == 1:
        e = e.exceptions[0]
    return "norule" if isinstance(e, TypeError) else "other:%s" % type(e).__name__


def _apply_env(pool, op):
    if op[0] == "state":
        pool._s, pool._u, pool._a = num(op[1]), num(op[2]), num(op[3])
    elif op[0] == "demand":
        pool._d = num(op[1])        # an outside write, not through the controller (not logged)


def _run_direct(ctrl, pool, log, ops):
    obs = []
    for op in ops:
        mark = len(log)
        if op[0] == "reg":
            try:
                ctrl.regulate(num(op[1]))
            except Exception as e:
                obs.append(["err", _exc_kind(e)])
                break
        else:
            _apply_env(pool, op)
        obs.append(["ok", _q(pool._d), _canon_log(log[mark:])])
    return obs


def _run_stepwise(ctrl, pool, log, ops, itv):
    """drive the shipped Stepwise.run() under a virtual clock: body k runs at k*itv, the harness
    looks (and lets the environment act) at k*itv + itv/2"""
    import trio
    import trio.testing
    obs = []
    half = float(F(itv) / 2)
    full = float(F(itv))
    assert F(half) * 2 == F(itv) and half > 0
    first = next((i for i, op in enumerate(ops) if op[0] == "reg"), len(ops))
    for op in ops[:first]:
        _apply_env(pool, op)
        obs.append(["ok", _q(pool._d), []])
    rest = ops[first:]
    if not rest:
        return obs

    mark = [len(log)]

    async def main():
        async with trio.open_nursery() as nursery:
            nursery.start_soon(ctrl.run)
            started = False
            for op in rest:
                if op[0] == "reg":
                    await trio.sleep(full if started else half)
                    started = True
                    obs.append(["ok", _q(pool._d), _canon_log(log[mark[0]:])])
                    mark[0] = len(log)
                else:
                    _apply_env(pool, op)
                    obs.append(["ok", _q(pool._d), []])
            nursery.cancel_scope.cancel()

    try:
        trio.run(main, clock=trio.testing.MockClock(autojump_threshold=0))
    except BaseException as e:      # the service died: the step during which it died is the error
        if isinstance(e, (KeyboardInterrupt, SystemExit)):
            raise
        obs.append(["err", _exc_kind(e)])
    return obs


class Rejected(Exception):
    pass


def build(case, pool, log):
    """construct the real controller described by `case` against `pool`; rule / slave calls are
    appended to `log`.  Returns (controller, info); raises Rejected(exception name) when the constructor
    refuses the arguments."""
    from cobald.interfaces import Controller
    from cobald.controller.linear import LinearController
    from cobald.controller.relative_supply import RelativeSupplyController
    from cobald.controller.stepwise import Stepwise, RangeSelector
    from cobald.controller.switch import DemandSwitch
    from cobald.utility import InvariantError
    kind = case["kind"]
    info = {"on_target": [], "rules": {}, "selector": None}
    rules = info["rules"]

    def rule_obj(i):
        if i not in rules:
            beh = case["table"][i]

            def rule(p, interval, _i=i, _beh=beh):
                log.append(["rule", _i, p is pool, interval])
                return beh_value(_beh, p, interval)
            rules[i] = rule
        return rules[i]

    try:
        if kind == "linear":
            lo, hi, rate, itv = [num(x) for x in case["args"]]
            ctrl = LinearController(pool, low_utilisation=lo, high_allocation=hi, rate=rate, interval=itv)
        elif kind == "relative":
            lo, hi, ls, hs, itv = [num(x) for x in case["args"]]
            ctrl = RelativeSupplyController(pool, low_utilisation=lo, high_allocation=hi, low_scale=ls,
                                            high_scale=hs, interval=itv)
        elif kind == "stepwise":
            rl = [(num(t), rule_obj(i)) for t, i in case["rules"]]
            if case.get("skeleton") and len({t for t, _ in rl}) == len(rl):
                # the documented way: a @stepwise skeleton that collects rules with .add; controllers may be made from
                # it at any time (here: one before the last rules are added) - each gets the rules known by then
                from cobald.controller.stepwise import stepwise
                skel = stepwise(rule_obj(case["base"]))
                k = len(rl) // 2
                for t, r in rl[:k]:
                    skel.add(r, supply=t)
                if case["skeleton"] == "early":
                    skel(_mk_pool([], ["0/1", "0/1", "0/1", "0/1"]))
                    skel.s()
                for t, r in rl[k:]:
                    skel.add(r, supply=t)
                ctrl = skel(pool, interval=num(case["itv"]))
            else:
                ctrl = Stepwise(pool, rule_obj(case["base"]), *rl, interval=num(case["itv"]))
            info["selector"] = RangeSelector(rule_obj(case["base"]), *rl)
        elif kind == "switch":
            other = _mk_pool([], ["0/1", "0/1", "0/1", "0/1"])

            class RecCtl(Controller):
                def __init__(self, target, i):
                    super().__init__(target)
                    self._i = i

                def regulate(self, interval):
                    log.append(["reg", self._i, self.target is pool, interval])
                    d = beh_value(case["table"][self._i], self.target, interval)
                    if d is not None:
                        self.target.demand = d

            class RecLinear(LinearController):
                def regulate(self, interval):
                    log.append(["reg", self._i, self.target is pool, interval])
                    super().regulate(interval)

            class RecRelative(RelativeSupplyController):
                def regulate(self, interval):
                    log.append(["reg", self._i, self.target is pool, interval])
                    super().regulate(interval)

            ctls = []
            for i, tag in enumerate(case["tags"]):
                if tag == "equal":
                    # a handle that compares equal to the switch's pool but is another object (pools identified
                    # by value): it is accepted like the pool itself, so it IS the pool for the switch
                    class Handle(type(other)):
                        def __eq__(self, o):
                            return o is pool or o is self

                        def __hash__(self):
                            return id(pool)
                    tgt = Handle(0, 0, 0, 0)
                else:
                    tgt = {"none": None, "same": pool, "other": other}[tag]
                beh = case["table"][i]
                if beh[0] == "linear":
                    c = RecLinear(tgt, low_utilisation=num(beh[1]), high_allocation=num(beh[2]), rate=num(beh[3]))
                elif beh[0] == "relative":
                    c = RecRelative(tgt, low_utilisation=num(beh[1]), high_allocation=num(beh[2]),
                                    low_scale=num(beh[3]), high_scale=num(beh[4]))
                else:
                    c = RecCtl(tgt, i)
                c._i = i
                ctls.append(c)
            items = []
            for it in case["items"]:
                items.append(fnum(it[1]) if it[0] == "num" else ctls[it[1]] if it[0] == "ctl" else "junk")
            ctrl = DemandSwitch(pool, ctls[case["default"]], *items, interval=num(case["itv"]))
            used = {case["default"]} | {it[1] for it in case["items"] if it[0] == "ctl"}
            # (a controller the switch never got keeps the handle it was built with: that handle stands for the pool)
            info["on_target"] = [c.target is pool or (i not in used and case["tags"][i] == "equal") for i, c in enumerate(ctls)]
        else:
            raise ValueError(kind)
    except (AssertionError, ValueError, TypeError, InvariantError) as e:
        raise Rejected(type(e).__name__)
    return ctrl, info


def run_impl(case):
    log = []
    pool = _mk_pool(log, case["pool"])
    kind = case["kind"]
    res = {"accepted": False, "obs": [], "on_target": [], "probe_obs": []}
    try:
        ctrl, info = build(case, pool, log)
    except Rejected as e:
        res["rejected_by"] = str(e)
        return res
    rules, sel = info["rules"], info["selector"]
    res["on_target"] = info["on_target"]
    res["accepted"] = True
    if log:
        res["ctor_effects"] = _canon_log(log)       # a constructor must not touch the pool
    if kind == "stepwise":
        res["obs"] = _run_stepwise(ctrl, pool, log, case["ops"], case["itv"])
        for s in case["probes"]:
            r = sel.get_rule(num(s))
            ids = [i for i, f in rules.items() if f is r]
            res["probe_obs"].append(None if r is None else (ids[0] if ids else -1))
    else:
        res["obs"] = _run_direct(ctrl, pool, log, case["ops"])
    return res


# ------------------------------------------------------------------ oracle: the property, restated on the observations
def _greatest_le(pairs, x):
    """value attached to the greatest threshold <= x (None if there is none)"""
    best = None
    for t, v in pairs:
        if t <= x and (best is None or t > best[0]):
            best = (t, v)
    return best


def oracle(case, res):
    if "harness_error" in res:
        return [(None, "harness error: " + res["harness_error"])]
    v = []
    kind = case["kind"]
    # ---- constructor validation
    if kind == "linear":
        lo, hi, rate, _ = [un(x) for x in case["args"]]
        want = rate > 0 and lo <= hi
    elif kind == "relative":
        lo, hi, ls, hs, _ = [un(x) for x in case["args"]]
        want = lo <= hi and ls < 1 < hs
    elif kind == "stepwise":
        ts = [un(t) for t, _ in case["rules"]]
        if len(set(ts)) != len(ts):
            want = False
        elif all(t > 0 for t in ts):
            want = True
        else:
            want = None         # zero / negative thresholds: outside the documented domain
    else:
        items = case["items"]
        pairs = [(items[i], items[i + 1]) for i in range(0, len(items) - 1, 2)]
        typed = len(items) % 2 == 0 and all(a[0] == "num" and b[0] == "ctl" for a, b in pairs)
        if not typed:
            want = False
        else:
            used = [case["default"]] + [b[1] for _, b in pairs]
            foreign = any(case["tags"][i] == "other" for i in used)
            byt = {}
            for a, b in pairs:
                byt.setdefault(un(a[1]), set()).add(b[1])
            ambiguous = any(len(s) > 1 for s in byt.values())
            want = not foreign and not ambiguous
    if want is not None and bool(res["accepted"]) != want:
        v.append((None, "constructor validation: accepted=%s, documented=%s (%s)" % (
            res["accepted"], want, res.get("rejected_by"))))
    if not res["accepted"]:
        return v
    if res.get("ctor_effects"):
        v.append((None, "constructor side effect: touched the pool: %s" % res["ctor_effects"][:3]))
    if kind == "switch":
        items = case["items"]
        used = set([case["default"]] + [items[i + 1][1] for i in range(0, len(items), 2)])
        for i in sorted(used):
            if not res["on_target"][i]:
                v.append((None, "switch target: controller %d does not act on the switch's target" % i))
    # ---- steps
    st = _Plain(*[un(x) for x in case["pool"]])
    for k, (op, o) in enumerate(zip(case["ops"], res["obs"])):
        if o[0] == "err":
            in_domain = True
            if kind == "stepwise" and o[1] == "norule":
                ts = [un(t) for t, _ in case["rules"]]
                in_domain = st.supply >= 0
            if in_domain:
                v.append((None, "raised: step %d raised %s" % (k, o[1])))
            break
        d_after, ef = o[1], o[2]
        if d_after.startswith("bad") or any(x.startswith("bad") for e in ef for x in ([e[1]] if e[0] == "w" else [e[3]])):
            v.append((None, "non-number: step %d %s" % (k, o)))
            break
        d_after = un(d_after)
        if op[0] == "state":
            st.supply, st.utilisation, st.allocation = un(op[1]), un(op[2]), un(op[3])
        if op[0] == "demand":
            st.demand = un(op[1])
        if op[0] != "reg":
            if ef or d_after != st.demand:
                v.append((None, "idle: controller acted outside a regulation step (op %d)" % k))
            continue
        itv = un(op[1])
        d0 = st.demand
        writes = [un(e[1]) for e in ef if e[0] == "w"]
        calls = [e for e in ef if e[0] != "w"]
        if kind == "linear":
            lo, hi, rate, _ = [un(x) for x in case["args"]]
            low, high = st.utilisation < lo, st.allocation > hi
            if calls:
                v.append((None, "linear calls: unexpected calls %s" % calls))
            if itv >= 0 and abs(d_after - d0) > rate * itv:
                v.append((None, "linear bound: step %d |%s - %s| > %s*%s" % (k, d_after, d0, rate, itv)))
            if d_after < d0 and not low:
                v.append((None, "linear direction: step %d went down with utilisation %s >= %s" % (k, st.utilisation, lo)))
            if d_after > d0 and not high:
                v.append((None, "linear direction: step %d went up with allocation %s <= %s" % (k, st.allocation, hi)))
            if low != high:
                want = d0 - rate * itv if low else d0 + rate * itv
                if d_after != want:
                    v.append((None, "linear amount: step %d demand %s, want %s" % (k, d_after, want)))
            if not low and not high and (writes or d_after != d0):
                v.append((None, "linear idle: step %d wrote %s although neither condition holds" % (k, writes)))
            if len(writes) > 1:
                v.append((None, "linear writes: step %d wrote %d times" % (k, len(writes))))
        elif kind == "relative":
            lo, hi, ls, hs, _ = [un(x) for x in case["args"]]
            scale = ls if st.utilisation < lo else hs if st.allocation > hi else 1
            if d_after != st.supply * scale or writes != [st.supply * scale]:
                v.append((None, "relative scale: step %d demand %s writes %s, want supply %s * %s" % (
                    k, d_after, writes, st.supply, scale)))
        elif kind == "stepwise":
            if st.supply < 0:
                st.demand = d_after
                continue        # outside the domain (nothing claimed)
            sitv = un(case["itv"])
            best = _greatest_le([(un(t), i) for t, i in case["rules"]], st.supply)
            sel = best[1] if best else case["base"]
            if len(calls) != 1 or calls[0][0] != "rule":
                v.append((None, "stepwise one rule: step %d made %d rule calls" % (k, len(calls))))
            else:
                c = calls[0]
                if c[1] != sel:
                    v.append((None, "stepwise selection: step %d supply %s called rule %d, want %d" % (k, st.supply, c[1], sel)))
                if not c[2] or un(c[3]) != sitv:
                    v.append((None, "stepwise arguments: step %d rule called with (target=%s, interval=%s)" % (k, c[2], c[3])))
                ret = beh_value(case["table"][c[1]], st, sitv)
                if ret is None and (writes or d_after != d0):
                    v.append((None, "stepwise none: step %d rule returned None but demand was written %s" % (k, writes)))
                if ret is not None and (writes != [F(ret)] or d_after != ret):
                    v.append((None, "stepwise write: step %d rule returned %s, writes %s" % (k, ret, writes)))
        elif kind == "switch":
            items = case["items"]
            pairs = [(un(items[i][1]), items[i + 1][1]) for i in range(0, len(items), 2)]
            best = _greatest_le(pairs, d0)
            sel = best[1] if best else case["default"]
            if len(calls) != 1 or calls[0][0] != "reg":
                v.append((None, "switch one delegate: step %d made %d regulate calls" % (k, len(calls))))
            else:
                c = calls[0]
                if c[1] != sel:
                    v.append((None, "switch selection: step %d demand %s delegated to %d, want %d" % (k, d0, c[1], sel)))
                if not c[2]:
                    v.append((None, "switch target: step %d the delegate acted on another pool" % k))
                if un(c[3]) != itv:
                    v.append((None, "switch interval: step %d passed %s, want %s" % (k, c[3], itv)))
                ret = beh_value(case["table"][c[1]], st, itv) if c[2] else None
                if c[2] and ((ret is None and writes) or (ret is not None and writes != [F(ret)])):
                    v.append((None, "switch writes: step %d delegate decided %s, writes %s" % (k, ret, writes)))
        st.demand = d_after
    else:
        if len(res["obs"]) != len(case["ops"]):
            v.append((None, "trace length: %d observations for %d operations" % (len(res["obs"]), len(case["ops"]))))
    # ---- sequences: total change of a linear controller is bounded by rate * sum(intervals)
    if kind == "linear" and res["obs"] and all(o[0] == "ok" for o in res["obs"]) and not any(op[0] == "demand" for op in case["ops"]):
        lo, hi, rate, _ = [un(x) for x in case["args"]]
        tot = sum(un(op[1]) for op in case["ops"] if op[0] == "reg")
        if all(un(op[1]) >= 0 for op in case["ops"] if op[0] == "reg"):
            dN = un(res["obs"][-1][1])
            if abs(dN - un(case["pool"][1])) > rate * tot:
                v.append((None, "linear sequence bound: |%s - %s| > %s * %s" % (dN, case["pool"][1], rate, tot)))
    # ---- RangeSelector probes
    if kind == "stepwise":
        for s, r in zip(case["probes"], res["probe_obs"]):
            s = un(s)
            if s < 0:
                continue
            best = _greatest_le([(un(t), i) for t, i in case["rules"]], s)
            sel = best[1] if best else case["base"]
            if r != sel:
                v.append((None, "stepwise get_rule: supply %s selects %s, want %s" % (s, r, sel)))
    return v


def nontrivial(case, res):
    return bool(res.get("accepted")) and any(op[0] == "reg" and o[0] == "ok" for op, o in zip(case["ops"], res.get("obs", [])))


# ------------------------------------------------------------------ Coq printing
def _beh(b):
    k = b[0]
    if k == "none":
        return "BNone"
    name = {"const": "BConst", "add": "BAddDemand", "scale": "BScaleSupply", "itv": "BItv",
            "linear": "BLinear", "relative": "BRelative"}[k]
    return "(%s %s)" % (name, " ".join(cQ(un(x)) for x in b[1:]))


def _op(op):
    if op[0] == "reg":
        return "(OReg %s)" % cQ(un(op[1]))
    if op[0] == "state":
        return "(OState %s %s %s)" % tuple(cQ(un(x)) for x in op[1:4])
    if op[0] == "demand":
        return "(ODemand %s)" % cQ(un(op[1]))
    raise ValueError(op)


BADQ = cQ(-987654321)


def _qq(s):
    return BADQ if s.startswith("bad") else cQ(un(s))


def _effect(e):
    if e[0] == "w":
        return "(EWrite %s)" % _qq(e[1])
    return "(%s %s %s %s)" % ("ECallRule" if e[0] == "rule" else "ECallReg", cnat(e[1]), cbool(e[2]), _qq(e[3]))


def _obs(o):
    if o[0] == "err":
        return "(SErr ENoRule)" if o[1] == "norule" else "(SErr ERejected)"
    return "(SOk %s %s)" % (_qq(o[1]), clist(_effect(e) for e in o[2]))


def _entry(t, i):
    return "(%s, %s)" % (cQ(un(t)), cnat(i))


def _ctor(case):
    k = case["kind"]
    if k == "linear":
        return "(KLinear %s)" % " ".join(cQ(un(x)) for x in case["args"])
    if k == "relative":
        return "(KRelative %s)" % " ".join(cQ(un(x)) for x in case["args"])
    if k == "stepwise":
        return "(KStepwise %s %s %s)" % (cnat(case["base"]), clist(_entry(t, i) for t, i in case["rules"]), cQ(un(case["itv"])))
    tags = clist({"none": "TNone", "same": "TSame", "equal": "TSame", "other": "TOther"}[t] for t in case["tags"])
    items = clist("(SNum %s)" % cQ(un(it[1])) if it[0] == "num" else "(SCtl %s)" % cnat(it[1]) if it[0] == "ctl" else "SJunk"
                  for it in case["items"])
    return "(KSwitch %s %s %s %s)" % (tags, cnat(case["default"]), items, cQ(un(case["itv"])))


def coq_case(case, res):
    if "harness_error" in res:
        res = {"accepted": False, "obs": [], "on_target": [], "probe_obs": []}
    probes = case.get("probes", [])
    pobs = clist("None" if r is None else "(Some %s)" % cnat(r if r >= 0 else 4999) for r in res["probe_obs"])
    if not res["probe_obs"]:
        pobs = "(@nil (option nat))"
    obs = res["obs"]
    if res.get("ctor_effects"):
        obs = [["err", "other"]] + obs
    return "(mkCase %s %s (mkPool %s) %s %s %s %s %s %s)" % (
        _ctor(case), clist(_beh(b) for b in case["table"]) if case["table"] else "(@nil beh)",
        " ".join(cQ(un(x)) for x in case["pool"]),
        clist(_op(o) for o in case["ops"]), clist(cQ(un(p)) for p in probes) if probes else "(@nil Q)",
        cbool(res["accepted"]),
        clist(cbool(b) for b in res["on_target"]) if res["on_target"] else "(@nil bool)",
        clist(_obs(o) for o in obs) if obs else "(@nil step_obs)", pobs)


def distribution(results):
    d = {"kinds": {}, "accepted": 0, "rejected": 0, "reg_steps": 0, "writes": 0, "no_write_steps": 0,
         "norule_errors": 0, "table_sizes": {}}
    for (c, o, _v) in results:
        d["kinds"][c["kind"]] = d["kinds"].get(c["kind"], 0) + 1
        if "harness_error" in o:
            continue
        d["accepted" if o["accepted"] else "rejected"] += 1
        if c["kind"] in ("stepwise", "switch"):
            n = len(c["rules"]) if c["kind"] == "stepwise" else len(c["items"]) // 2
            key = "%s:%d" % (c["kind"], n)
            d["table_sizes"][key] = d["table_sizes"].get(key, 0) + 1
        for op, ob in zip(c["ops"], o["obs"]):
            if ob[0] == "err":
                d["norule_errors"] += 1
            elif op[0] == "reg":
                d["reg_steps"] += 1
                w = sum(1 for e in ob[2] if e[0] == "w")
                d["writes"] += w
                d["no_write_steps"] += (w == 0)
    return d


def shrink(case, still_fails):
    cur = case
    changed = True
    while changed:
        changed = False
        for i in range(len(cur["ops"])):
            cand = dict(cur, ops=cur["ops"][:i] + cur["ops"][i + 1:])
            try:
                if cand["ops"] and still_fails(cand):
                    cur, changed = cand, True
                    break
            except Exception:
                pass
    return cur


# ------------------------------------------------------------------ translator tie (added by the lead)
TIE_TARGETS = ["props/C08_tie.vo"]


def regen(chk):
    """regenerate gen/Gen_controllers.v from the current linear.py / relative_supply.py"""
    import os
    from . import common
    from py2coq import units
    res = units.regen(common.REPO, os.path.join(common.COQDIR, "gen"), ["Gen_controllers.v"])
    chk.coverage["translator"] = res
    bad = [v for v in res.values() if v != "ok"]
    if bad:
        raise RuntimeError(bad[0])
