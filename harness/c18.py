"""C18 -- YAML loading never instantiates anything that is not a registered plugin.

Pieces (driven by common.run_pure):
  regen(chk)   live-table extraction: load a benign document through the real
               cobald.daemon.core.config.load in a subprocess, capture the class of the loader
               instance that was actually constructed, classify every entry of its constructor
               tables and write coq/gen/Gen_yaml_tables.v (pristine environment + test environment
               with two extra canary plugins registered through a fake dist-info).
  cases        (a) "doc": the python/* + unregistered-tag corpus x targets x positions, controls and
               the ignored-tag (known finding) positions, each loaded through the real `load` in its
               own forked subprocess with canaries;  (b) "table": random constructor tables on a
               scratch loader class (real PyYAML + cobald's real yaml_constructor closures) x random
               documents, validating the dispatch model.
  child modes  `python -m harness.c18 --capture` / `--server` (run with common.PY, common.impl_env()).
"""
import json
import os
import subprocess
import sys
import threading

from . import common
from .common import cN, cbool, clist, cstr

ID = "C18"
COQ_TARGETS = ["props/C18.vo"]
CORR_TARGETS = ["gen/Gen_yaml_tables.vo", "corr/C18Corr.vo"]
CORR_PRELUDE = "From Cobald Require Import kit.Corr model.YamlDispatch corr.C18Corr gen.Gen_yaml_tables."
CORR_CHECK = "C18Corr.check"
CORR_TYPE = "C18Corr.case"
N_QUICK, N_THOROUGH = 2600, 9000
RULE = ("(a) every python/* tag kind of PyYAML (object, object/apply, object/new, name, module, 12 typed "
        "variants) and unregistered/verbatim tags x targets (builtins.eval, os.system, subprocess.Popen, a "
        "cobald class, a not-yet-imported canary module) x 17 document positions (root, top-level key/value, "
        "pipeline item, arguments of registered lazy/eager tags at depth 1-3, mapping keys, __type__ "
        "arguments, aliased, logging section), each loaded through cobald.daemon.core.config.load in a forked "
        "subprocess with canaries; a benign control per position; the 7 positions where SafeConstructor "
        "ignores a node's tag (known finding). (b) random constructor tables (SafeLoader/BaseLoader base, "
        "dropped/aliased builtins, real yaml_constructor plugins lazy+eager, stub unsafe entries, "
        "multi-constructors, None entries) x random node trees (depth <= 4, merge and `=` keys, kind/tag "
        "mismatches), full log of table entries that ran compared with the model. non-trivial = the document "
        "has >= 3 nodes and (doc cases) a foreign tag below the root or (table cases) >= 2 logged events")
TRUSTED_BASE = [
    "Coq 8.16.1 kernel + vm_compute",
    "PyYAML's reader/scanner/parser/composer/resolver (documents enter the model as composed node trees)",
    "SafeConstructor's own construct_yaml_* methods build only plain data (str/int/float/bool/None/bytes/date/list/dict/set)",
    "harness/c18.py: classification of table entries by function identity (SafeConstructor.__dict__), "
    "yaml_constructor closures by code-object containment / qualname, canaries (sentinels, marker file)",
    "model/YamlDispatch.v is hand-written; tied to PyYAML + config/yaml.py by the correspondence run",
]
ASSUMPTIONS = [
    "documents are node trees: anchors/aliases only remove dispatches (a shared node is constructed once)",
    "the loader's core methods (construct_object, construct_document, construct_sequence, construct_pairs, "
    "flatten_mapping) are PyYAML's own; checked when the tables are extracted",
    "a plugin factory, once called, is trusted (it is a registered plugin); scalar conversions are leaf parameters",
]

BUILD = os.path.join(common.BUILD, "C18")
SITE = os.path.join(BUILD, "site")
MARKERS = os.path.join(BUILD, "markers")
GEN = os.path.join(common.COQDIR, "gen", "Gen_yaml_tables.v")

PYTAG = "tag:yaml.org,2002:python/"
VALUE_TAG = "tag:yaml.org,2002:value"
MERGE_TAG = "tag:yaml.org,2002:merge"
STR_TAG = "tag:yaml.org,2002:str"
SCALAR_METHODS = ["construct_yaml_null", "construct_yaml_bool", "construct_yaml_int", "construct_yaml_float",
                  "construct_yaml_binary", "construct_yaml_timestamp", "construct_yaml_str"]
GEN_METHODS = {"construct_yaml_seq": 10, "construct_yaml_map": 11, "construct_yaml_set": 12,
               "construct_yaml_omap": 13, "construct_yaml_pairs": 13}

# ======================================================================================
# files of the fake distribution (canary plugins + canary module), rebuilt on every run
# ======================================================================================
_PLUGINS_PY = '''
from cobald.daemon.plugins import yaml_tag
CALLS = []
SECTIONS = []

def lazy_factory(*args, **kwargs):
    CALLS.append(("C18Lazy", args, kwargs))
    return ("c18lazy", len(CALLS))

@yaml_tag(eager=True)
def eager_factory(*args, **kwargs):
    CALLS.append(("C18Eager", args, kwargs))
    return ("c18eager", len(CALLS))

def plain_factory(*args, **kwargs):
    CALLS.append(("plain", args, kwargs))
    return ("plain", len(CALLS))

def section_digest(content):
    SECTIONS.append(content)
    return None
'''
_CANARY_PY = '''
import os
def _mark(what):
    p = os.environ.get("C18_MARKER")
    if p:
        with open(p, "a") as fh:
            fh.write(what + "\\n")
_mark("import c18_canary_mod")
def fire(*args, **kwargs):
    _mark("call c18_canary_mod.fire")
    return 0
class Canary(object):
    def __new__(cls, *args, **kwargs):
        _mark("new c18_canary_mod.Canary")
        return object.__new__(cls)
    def __init__(self, *args, **kwargs):
        _mark("init c18_canary_mod.Canary")
'''
_ENTRY_POINTS = '''[cobald.config.yaml_constructors]
C18Lazy = c18_plugins:lazy_factory
C18Eager = c18_plugins:eager_factory

[cobald.config.sections]
c18section = c18_plugins:section_digest
'''


def _write(path, text):
    try:
        with open(path) as fh:
            if fh.read() == text:
                return
    except OSError:
        pass
    with open(path, "w") as fh:
        fh.write(text)


def setup(chk=None):
    os.makedirs(os.path.join(SITE, "c18plug-0.0.dist-info"), exist_ok=True)
    os.makedirs(MARKERS, exist_ok=True)
    os.makedirs(os.path.dirname(GEN), exist_ok=True)
    _write(os.path.join(SITE, "c18_plugins.py"), _PLUGINS_PY)
    _write(os.path.join(SITE, "c18_canary_mod.py"), _CANARY_PY)
    # a nested canary package: importing (or merely "looking up") c18_canary_pkg.inner.leaf executes the parents
    for sub, name in (("c18_canary_pkg", "c18_canary_pkg"), ("c18_canary_pkg/inner", "c18_canary_pkg.inner")):
        os.makedirs(os.path.join(SITE, sub), exist_ok=True)
        _write(os.path.join(SITE, sub, "__init__.py"), _CANARY_PY.replace("c18_canary_mod", name))
    _write(os.path.join(SITE, "c18_canary_pkg/inner/leaf.py"), _CANARY_PY.replace("c18_canary_mod", "c18_canary_pkg.inner.leaf"))
    _write(os.path.join(SITE, "c18plug-0.0.dist-info", "entry_points.txt"), _ENTRY_POINTS)
    _write(os.path.join(SITE, "c18plug-0.0.dist-info", "METADATA"),
           "Metadata-Version: 2.1\nName: c18plug\nVersion: 0.0\n")


def _env(test=True):
    env = common.impl_env()
    if test:
        env["PYTHONPATH"] = env["PYTHONPATH"] + os.pathsep + SITE
    return env


def _child_cmd(mode):
    return [common.PY, "-m", "harness.c18", mode]


# ======================================================================================
# classification of constructor functions (runs in the children and, for table cases, in-process)
# ======================================================================================
def _yaml_constructor_fn():
    from cobald.daemon.config.yaml import yaml_constructor
    return yaml_constructor


def classify(fn, facs):
    """-> ["B", k] SafeConstructor method | ["U"] construct_undefined | ["P", factory_index, eager]
    yaml_constructor closure | ["X", name] anything else.  `facs` collects distinct factories."""
    import yaml
    sc = yaml.constructor.SafeConstructor.__dict__
    for i, name in enumerate(SCALAR_METHODS):
        if fn is sc.get(name):
            return ["B", i]
    for name, k in GEN_METHODS.items():
        if fn is sc.get(name):
            return ["B", k]
    if fn is sc.get("construct_undefined"):
        return ["U"]
    code = getattr(fn, "__code__", None)
    closure = getattr(fn, "__closure__", None)
    try:
        outer = _yaml_constructor_fn()
    except Exception:
        outer = None
    is_closure = False
    if code is not None and closure:
        if outer is not None and code in getattr(outer, "__code__", None).co_consts:
            is_closure = True
        elif "yaml_constructor.<locals>" in getattr(fn, "__qualname__", "") and \
                getattr(fn, "__module__", "") == "cobald.daemon.config.yaml":
            is_closure = True
    if is_closure:
        cells = dict(zip(code.co_freevars, [c.cell_contents for c in closure]))
        eager = cells.get("eager")
        factory = cells.get("factory")
        if not isinstance(eager, bool) or factory is None:
            bools = [v for v in cells.values() if isinstance(v, bool)]
            calls = [v for v in cells.values() if callable(v) and not isinstance(v, bool)]
            if len(bools) == 1 and len(calls) == 1:
                eager, factory = bools[0], calls[0]
            else:
                return ["X", "unreadable yaml_constructor closure"]
        return ["P", _fac_index(factory, facs), bool(eager)]
    return ["X", "%s.%s" % (getattr(fn, "__module__", "?"), getattr(fn, "__qualname__", repr(type(fn))))]


def _fac_index(factory, facs):
    for i, f in enumerate(facs):
        try:
            if f is factory or f == factory:
                return i
        except Exception:
            pass
    facs.append(factory)
    return len(facs) - 1


def _fac_name(f):
    owner = getattr(f, "__self__", None)
    if owner is not None and isinstance(owner, type):
        return "%s.%s.%s" % (owner.__module__, owner.__qualname__, getattr(f, "__name__", "?"))
    return "%s.%s" % (getattr(f, "__module__", "?"), getattr(f, "__qualname__", type(f).__name__))


CORE_BASE = ["construct_object", "construct_document", "construct_sequence", "construct_pairs",
             "get_single_data", "get_data"]
CORE_SAFE = ["construct_scalar", "construct_mapping", "flatten_mapping"]


def safe_methods_flag(cls):
    """True: SafeConstructor's construct_scalar/construct_mapping/flatten_mapping and BaseConstructor's
    core; False: BaseConstructor's throughout; None: something is overridden (model does not apply)."""
    import yaml
    bc, sc = yaml.constructor.BaseConstructor, yaml.constructor.SafeConstructor
    for name in CORE_BASE:
        if getattr(cls, name, None) is not getattr(bc, name):
            return None
    if all(getattr(cls, n, None) is getattr(sc, n) for n in CORE_SAFE):
        return True
    if all(getattr(cls, n, None) is getattr(bc, n, None) for n in CORE_SAFE[:2]):
        return False
    return None


def dump_tables(cls, facs):
    exact, none, multi, multi_none = [], None, [], None
    for tag, fn in cls.yaml_constructors.items():
        c = classify(fn, facs)
        if tag is None:
            none = c
        elif isinstance(tag, str):
            exact.append([tag, c])
        else:
            exact.append([repr(tag), ["X", "non-string tag key"]])
    for prefix, fn in cls.yaml_multi_constructors.items():
        name = "%s.%s" % (getattr(fn, "__module__", "?"), getattr(fn, "__qualname__", "?"))
        if prefix is None:
            multi_none = name
        else:
            multi.append([str(prefix), name])
    sm = safe_methods_flag(cls)
    return {"exact": exact, "none": none, "multi": multi, "multi_none": multi_none,
            "safe_methods": bool(sm), "core_overridden": sm is None}


# ======================================================================================
# node trees <-> JSON, scalar conversion validity
# ======================================================================================
def tree_of(node, depth=0):
    import yaml
    if depth > 60:
        raise ValueError("recursive document")
    if isinstance(node, yaml.nodes.ScalarNode):
        return ["S", node.tag, node.value]
    if isinstance(node, yaml.nodes.SequenceNode):
        return ["Q", node.tag, [tree_of(c, depth + 1) for c in node.value]]
    return ["M", node.tag, [[tree_of(k, depth + 1), tree_of(v, depth + 1)] for k, v in node.value]]


def node_of(tree):
    import yaml
    if tree[0] == "S":
        return yaml.nodes.ScalarNode(tree[1], tree[2])
    if tree[0] == "Q":
        return yaml.nodes.SequenceNode(tree[1], [node_of(c) for c in tree[2]])
    return yaml.nodes.MappingNode(tree[1], [(node_of(k), node_of(v)) for k, v in tree[2]])


def tree_nodes(tree):
    yield tree
    if tree[0] == "Q":
        for c in tree[2]:
            yield from tree_nodes(c)
    elif tree[0] == "M":
        for k, v in tree[2]:
            yield from tree_nodes(k)
            yield from tree_nodes(v)


def valid_conversions(tree):
    """(conversion index, text) pairs for which SafeConstructor's conversion returns, over every
    scalar text of the document (leaf parameter of the model, see model/YamlDispatch.v conv_ok)."""
    import yaml
    sc = yaml.constructor.SafeConstructor()
    texts = sorted({n[2] for n in tree_nodes(tree) if n[0] == "S"})
    out = []
    for t in texts:
        for i, name in enumerate(SCALAR_METHODS):
            try:
                getattr(sc, name)(yaml.nodes.ScalarNode("tag:yaml.org,2002:str", t))
                out.append([i, t])
            except Exception:
                pass
    return out


def err_class(exc):
    import yaml
    if isinstance(exc, yaml.constructor.ConstructorError):
        if "could not determine a constructor for the tag" in str(getattr(exc, "problem", "") or ""):
            return "undef"
        return "structure"
    return "other"


def vclass_of(data):
    if isinstance(data, str):
        return "str"
    try:
        hash(data)
        return "hash"
    except TypeError:
        return "unhash"


# ======================================================================================
# child: capture the live loader's tables
# ======================================================================================
BENIGN = "pipeline:\n  - __type__: builtins.dict\n"


def _install_loader_capture(seen):
    import yaml
    orig = yaml.constructor.BaseConstructor.__init__

    def recording_init(self, *a, **k):
        seen.append(type(self))
        return orig(self, *a, **k)

    yaml.constructor.BaseConstructor.__init__ = recording_init
    return orig


def child_capture():
    import tempfile
    import yaml  # noqa: F401
    from entrypoints import get_group_all
    seen = []
    _install_loader_capture(seen)
    import cobald.daemon.core.config as cfg
    with tempfile.NamedTemporaryFile("w", suffix=".yaml", delete=False, dir=BUILD) as fh:
        fh.write(BENIGN)
    load_ok = True
    try:
        with cfg.load(fh.name):
            pass
    except Exception as e:
        load_ok = "%s" % type(e).__name__
    finally:
        os.unlink(fh.name)
    classes = []
    for c in seen:
        if c not in classes:
            classes.append(c)
    out = {"loader_classes": ["%s.%s" % (c.__module__, c.__qualname__) for c in classes], "load_ok": load_ok}
    if len(classes) == 1:
        cls = classes[0]
        facs = []
        eps = []
        for entry in get_group_all("cobald.config.yaml_constructors"):
            obj = entry.load()
            fac = getattr(obj, "s", obj)     # core/config.py:41-44
            eps.append(["!" + entry.name, _fac_index(fac, facs)])
        out.update(dump_tables(cls, facs))
        out["entrypoints"] = eps
        out["factories"] = [_fac_name(f) for f in facs]
        out["mro"] = ["%s.%s" % (c.__module__, c.__qualname__) for c in cls.__mro__]
    json.dump(out, sys.stdout)


# ======================================================================================
# child: fork server loading one document per forked process, with canaries
# ======================================================================================
def _run_doc(req):
    import builtins
    import signal
    import tempfile
    import yaml
    signal.alarm(30)
    marker = os.path.join(MARKERS, "m%d" % os.getpid())
    try:
        os.unlink(marker)
    except OSError:
        pass
    os.environ["C18_MARKER"] = marker
    fired = []

    def from_yaml():
        f = sys._getframe(2)
        return f.f_code.co_filename.replace("\\", "/").endswith("yaml/constructor.py")

    def sentinel(name, orig=None):
        def s(*a, **k):
            if orig is None or from_yaml():
                fired.append(name)
                return 0
            return orig(*a, **k)
        return s

    import subprocess as sp
    os.system = sentinel("os.system")
    os.popen = sentinel("os.popen")
    for nm in ("call", "run", "check_call", "check_output", "getoutput", "getstatusoutput"):
        setattr(sp, nm, sentinel("subprocess." + nm))

    class Popen(object):
        def __new__(cls, *a, **k):
            fired.append("subprocess.Popen")
            return object.__new__(cls)

        def __init__(self, *a, **k):
            pass
    sp.Popen = Popen
    builtins.eval = sentinel("builtins.eval", builtins.eval)
    builtins.exec = sentinel("builtins.exec", builtins.exec)
    try:
        import cobald.controller.stepwise as sw
        o_new, o_init = sw.RangeSelector.__new__, sw.RangeSelector.__init__

        def rs_new(cls, *a, **k):
            fired.append("cobald.controller.stepwise.RangeSelector")
            return object.__new__(cls)

        def rs_init(self, *a, **k):
            fired.append("cobald.controller.stepwise.RangeSelector")
        sw.RangeSelector.__new__ = staticmethod(rs_new)
        sw.RangeSelector.__init__ = rs_init
    except Exception:
        pass

    seen = []
    _install_loader_capture(seen)
    phase = {"returned": False, "exc": None}
    o_gsd = yaml.constructor.BaseConstructor.get_single_data

    def get_single_data(self):
        try:
            data = o_gsd(self)
        except BaseException as e:
            phase["exc"] = e
            raise
        phase["returned"] = True
        phase["vclass"] = vclass_of(data)
        return data
    yaml.constructor.BaseConstructor.get_single_data = get_single_data
    # an implementation need not go through get_single_data: the construction of a document is observed as well
    o_cd = yaml.constructor.BaseConstructor.construct_document

    def construct_document(self, node):
        try:
            data = o_cd(self, node)
        except BaseException as e:
            phase["doc_exc"] = e
            raise
        phase["doc_returned"] = True
        phase["doc_vclass"] = vclass_of(data)
        return data
    yaml.constructor.BaseConstructor.construct_document = construct_document

    import cobald.daemon.core.config as cfg
    before = set(sys.modules)
    with tempfile.NamedTemporaryFile("w", suffix=".yaml", delete=False, dir=MARKERS) as fh:
        fh.write(req["text"])
    outcome = "loaded"
    try:
        with cfg.load(fh.name):
            pass
    except BaseException as e:
        outcome = "error:%s" % type(e).__name__
    finally:
        os.unlink(fh.name)
    yaml.constructor.BaseConstructor.get_single_data = o_gsd
    yaml.constructor.BaseConstructor.construct_document = o_cd
    if not phase["returned"] and phase["exc"] is None:
        if phase.get("doc_returned"):
            phase["returned"], phase["vclass"] = True, phase.get("doc_vclass")
        elif phase.get("doc_exc") is not None:
            phase["exc"] = phase["doc_exc"]
    res = {"outcome": outcome, "yaml_returned": phase["returned"], "fired": sorted(set(fired))}
    if phase["exc"] is not None:
        res["yaml_error"] = err_class(phase["exc"])
        res["yaml_error_type"] = type(phase["exc"]).__name__
    if phase["returned"]:
        res["vclass"] = phase.get("vclass")
    if os.path.exists(marker):
        with open(marker) as mf:
            res["marker"] = sorted(set(mf.read().split("\n")) - {""})
        os.unlink(marker)
    else:
        res["marker"] = []
    new = sorted(set(sys.modules) - before)
    res["canary_imported"] = [m for m in new if m.split(".")[0] in ("c18_canary_mod", "c18_canary_pkg")]
    calls = []
    ctl_seen = False
    plug = sys.modules.get("c18_plugins")
    if plug is not None:
        for (name, a, k) in plug.CALLS:
            calls.append(name)
            if "c18ctl" in repr((a, k)):
                ctl_seen = True
        if "c18ctl" in repr(plug.SECTIONS):
            ctl_seen = True
    res["calls"] = calls
    res["ctl_seen"] = ctl_seen
    res["loader_classes"] = sorted({"%s.%s" % (c.__module__, c.__qualname__) for c in seen})
    # the document as the constructed loader class composes it (input of the model)
    try:
        cls = seen[0] if seen else yaml.SafeLoader
        node = yaml.compose(req["text"], Loader=cls)
        tree = tree_of(node)
        res["tree"] = tree
        res["valid"] = valid_conversions(tree)
    except Exception as e:
        res["tree_error"] = "%s" % type(e).__name__
    return res


def child_server():
    import yaml  # noqa: F401
    import cobald.daemon.core.config  # noqa: F401  (preload; the canary module stays un-imported)
    for line in sys.stdin:
        line = line.strip()
        if not line:
            continue
        req = json.loads(line)
        r, w = os.pipe()
        pid = os.fork()
        if pid == 0:
            os.close(r)
            try:
                res = _run_doc(req)
            except BaseException as e:
                res = {"harness_error": "%s: %s" % (type(e).__name__, e)}
            try:
                os.write(w, json.dumps(res, default=str).encode())
            finally:
                os._exit(0)
        os.close(w)
        chunks = []
        while True:
            b = os.read(r, 65536)
            if not b:
                break
            chunks.append(b)
        os.close(r)
        os.waitpid(pid, 0)
        data = b"".join(chunks).decode() or json.dumps({"harness_error": "child died"})
        sys.stdout.write(data + "\n")
        sys.stdout.flush()


# ======================================================================================
# parent: running documents through the servers
# ======================================================================================
_DOC_CACHE = {}


def _serve(texts):
    """load every text in its own forked child of a fork server; returns list of observations"""
    if not texts:
        return []
    setup()
    k = max(1, min(8, (len(texts) + 39) // 40))
    shards = [texts[i::k] for i in range(k)]
    outs = [None] * k

    def work(i):
        p = subprocess.Popen(_child_cmd("--server"), cwd=common.VERIF, env=_env(True), stdin=subprocess.PIPE,
                             stdout=subprocess.PIPE, stderr=subprocess.DEVNULL, text=True)
        res = []
        try:
            for t in shards[i]:
                p.stdin.write(json.dumps({"text": t}) + "\n")
                p.stdin.flush()
                line = p.stdout.readline()
                if not line:
                    res.append({"harness_error": "server died"})
                    break
                res.append(json.loads(line))
            while len(res) < len(shards[i]):
                res.append({"harness_error": "server died"})
        finally:
            try:
                p.stdin.close()
            except Exception:
                pass
            p.wait()
        outs[i] = res

    threads = [threading.Thread(target=work, args=(i,)) for i in range(k)]
    for t in threads:
        t.start()
    for t in threads:
        t.join()
    merged = [None] * len(texts)
    for i in range(k):
        for j, r in enumerate(outs[i] or []):
            merged[i + j * k] = r
    return merged


def _prefetch(cases):
    todo = []
    for c in cases:
        if c["kind"] == "doc" and c["text"] not in _DOC_CACHE and c["text"] not in todo:
            todo.append(c["text"])
    for t, r in zip(todo, _serve(todo)):
        _DOC_CACHE[t] = r


# ======================================================================================
# regen: Gen_yaml_tables.v
# ======================================================================================
_DUMPS = {}


def _capture(test):
    p = subprocess.run(_child_cmd("--capture"), cwd=common.VERIF, env=_env(test), stdout=subprocess.PIPE,
                       stderr=subprocess.PIPE, text=True, timeout=120)
    if p.returncode != 0:
        raise RuntimeError("table capture failed: %s" % p.stderr[-600:])
    return json.loads(p.stdout)


def _cls_term(c, unsafe_names):
    if c is None:
        return "None"
    if c[0] == "B":
        k = c[1]
        return {10: "(SafeBuiltin BSeq)", 11: "(SafeBuiltin BMap)", 12: "(SafeBuiltin BSet)",
                13: "(SafeBuiltin BPairs)"}.get(k, "(SafeBuiltin (BScalar %s))" % cN(k))
    if c[0] == "U":
        return "Undefined"
    if c[0] == "P":
        return "(Plugin %s %s)" % (cN(c[1]), cbool(c[2]))
    return "(Unsafe %s)" % cN(_name_id(c[1], unsafe_names))


def _name_id(name, names):
    if name not in names:
        names.append(name)
    return names.index(name)


def tables_term(d, unsafe_names):
    exact = clist("(%s, %s)" % (cstr(t), _cls_term(c, unsafe_names)) for t, c in d["exact"])
    none = "None" if d["none"] is None else "(Some %s)" % _cls_term(d["none"], unsafe_names)
    multi = clist("(%s, %s)" % (cstr(p), cN(_name_id(n, unsafe_names))) for p, n in d["multi"])
    mnone = "None" if d["multi_none"] is None else "(Some %s)" % cN(_name_id(d["multi_none"], unsafe_names))
    return "(mkTables %s %s %s %s %s)" % (exact or "nil", none, multi if d["multi"] else "nil", mnone,
                                          cbool(d["safe_methods"] and not d.get("core_overridden")))


def _gen_block(name, d):
    names = []
    lines = []
    if "exact" not in d:
        raise RuntimeError("%d loader classes were instantiated by load(): %s" % (
            len(d.get("loader_classes", [])), d.get("loader_classes")))
    term = tables_term(d, names)
    lines.append("(* loader class instantiated by cobald.daemon.core.config.load: %s" % d["loader_classes"][0])
    lines.append("   mro: %s" % " <- ".join(d["mro"]))
    lines.append("   factories: %s" % "; ".join("%d=%s" % (i, n) for i, n in enumerate(d["factories"])))
    lines.append("   unsafe names: %s" % "; ".join("%d=%s" % (i, n) for i, n in enumerate(names)))
    lines.append("   tags: %s *)" % "; ".join(t for t, _ in d["exact"]).replace("*)", "* )"))
    lines.append("Definition %s : tables :=\n  %s." % (name, term))
    lines.append("Definition %s_entrypoints : list (str * N) :=\n  %s." % (
        name, clist("(%s, %s)" % (cstr(t), cN(i)) for t, i in d["entrypoints"]) or "nil"))
    return "\n".join(lines)


def regen(chk):
    setup()
    _DUMPS.clear()
    text = ["(* GENERATED on every run by harness/c18.py regen() from the live loader -- do not edit. *)",
            "From Coq Require Import List NArith.", "Import ListNotations.",
            "From Cobald Require Import model.YamlDispatch.", ""]
    err = None
    for name, test in (("cobald_tables", False), ("cobald_tables_test", True)):
        try:
            d = _capture(test)
            _DUMPS[name] = d
            text.append(_gen_block(name, d))
        except Exception as e:   # fail closed: an empty, unsafe table
            err = err or e
            text.append("(* extraction failed: %s *)" % str(e).replace("*)", "* )").replace("(*", "( *")[:300])
            text.append("Definition %s : tables := mkTables nil None nil None false." % name)
            text.append("Definition %s_entrypoints : list (str * N) := nil." % name)
        text.append("")
    new = "\n".join(text)
    _write(GEN, new)
    if chk is not None:
        d = _DUMPS.get("cobald_tables", {})
        chk.coverage["live_loader"] = {"classes": d.get("loader_classes"), "mro": d.get("mro"),
                                       "entries": len(d.get("exact", [])), "multi": len(d.get("multi", [])),
                                       "plugins": [t for t, c in d.get("exact", []) if c[0] == "P"]}
    if err is not None:
        raise err


def dump_safe(d):
    """python restatement of safe_tables /\\ plugins_match on a dump (used by the oracle)"""
    if "exact" not in d:
        return False
    ok = all(c[0] != "X" and not t.startswith(PYTAG) for t, c in d["exact"])
    ok = ok and d["none"] == ["U"] and not d["multi"] and d["multi_none"] is None
    ok = ok and d["safe_methods"] and not d.get("core_overridden")
    if "entrypoints" in d:
        pl = sorted([t, c[1]] for t, c in d["exact"] if c[0] == "P")
        ok = ok and pl == sorted(d["entrypoints"])
    return bool(ok)


# ======================================================================================
# the document corpus
# ======================================================================================
FUNCS = ["builtins.eval", "os.system", "subprocess.Popen", "cobald.controller.stepwise.RangeSelector",
         "c18_canary_mod.fire", "c18_canary_mod.Canary", "c18_canary_pkg.inner.leaf.fire"]
CLASSES = ["subprocess.Popen", "cobald.controller.stepwise.RangeSelector", "c18_canary_mod.Canary",
           "builtins.bytearray"]
MODULES = ["os", "subprocess", "c18_canary_mod", "cobald.controller.stepwise", "c18_canary_pkg.inner.leaf"]


def node_variants():
    """(pykind, target, shape, flow text)"""
    out = []
    for t in CLASSES:
        out.append(("object", t, "map", "!!python/object:%s {}" % t))
        out.append(("object", t, "map", "!!python/object:%s {a: 1}" % t))
    for kind in ("object/apply", "object/new"):
        for t in FUNCS:
            out.append((kind, t, "seq", "!!python/%s:%s [c18arg]" % (kind, t)))
            out.append((kind, t, "map", "!!python/%s:%s {args: [c18arg], kwds: {}}" % (kind, t)))
    for t in FUNCS + ["eval", "print"]:
        out.append(("name", t, "scalar", "!!python/name:%s ''" % t))
    for m in MODULES:
        out.append(("module", m, "scalar", "!!python/module:%s ''" % m))
    for k, v, shape in (("none", "''", "scalar"), ("bool", "'true'", "scalar"), ("str", "'x'", "scalar"),
                        ("unicode", "'x'", "scalar"), ("bytes", "'aGk='", "scalar"), ("int", "'1'", "scalar"),
                        ("long", "'1'", "scalar"), ("float", "'1.5'", "scalar"), ("complex", "'1+2j'", "scalar"),
                        ("list", "[1]", "seq"), ("tuple", "[1]", "seq"), ("dict", "{a: 1}", "map")):
        out.append(("typed/" + k, None, shape, "!!python/%s %s" % (k, v)))
    for txt, shape in (("!Unregistered {}", "map"), ("!Unregistered [1]", "seq"), ("!Unregistered x", "scalar"),
                       ("!cobald.controller.stepwise.RangeSelector {}", "map"), ("!linearcontroller {}", "map"),
                       ("!LinearControllerX {}", "map"), ("!c18_canary_mod.Canary {}", "map"),
                       ("!c18_canary_pkg.inner.leaf.Canary {}", "map"), ("!c18_canary_pkg.inner.Canary [1]", "seq"),
                       ("!c18_canary_pkg.inner.leaf.fire x", "scalar"), ("!C18LazyX {a: 1}", "map"), ("!!unknown x", "scalar"),
                       ("!<tag:example.com,2000:foo> x", "scalar"),
                       ("!<tag:yaml.org,2002:python/object/apply:os.system> [c18arg]", "seq"),
                       ("!<tag:yaml.org,2002:python/name:os.system> ''", "scalar")):
        out.append(("bang", None, shape, txt))
    return out


HEAD = "pipeline: [ !C18Lazy {} ]\n"
POSITIONS = {
    "root": "NODE\n",
    "top_value": HEAD + "c18section: NODE\n",
    "top_key": HEAD + "? NODE\n: 1\n",
    "pipeline_item": "pipeline: [ NODE ]\n",
    "pipeline_after_plugin": "pipeline:\n  - !C18Lazy {first: 1}\n  - NODE\n",
    "lazy_arg": "pipeline:\n  - !C18Lazy {a: NODE}\n",
    "lazy_deep": "pipeline:\n  - !C18Lazy {a: {b: [1, NODE]}}\n",
    "lazy_seq": "pipeline:\n  - !C18Lazy [1, NODE]\n",
    "lazy_map_key": "pipeline:\n  - !C18Lazy {a: {? NODE : 1}}\n",
    "eager_arg": "pipeline:\n  - !C18Eager {a: NODE}\n",
    "eager_deep": "pipeline:\n  - !C18Eager {a: {b: [1, NODE]}}\n",
    "eager_map_key": "pipeline:\n  - !C18Eager {a: {? NODE : 1}}\n",
    # a KEY of the registered tag's own argument mapping (lead, after the seeded-change round)
    "lazy_direct_key": "pipeline:\n  - !C18Lazy {? NODE : 1}\n",
    "eager_direct_key": "pipeline:\n  - !C18Eager {? NODE : 1}\n",
    "lazy_direct_key_2nd": "pipeline:\n  - !C18Lazy {a: 0, ? NODE : 1, b: 2}\n",
    "real_plugin_arg": "pipeline:\n  - !LinearController {low_utilisation: NODE}\n  - !C18Lazy {}\n",
    "type_arg": "pipeline:\n  - {__type__: c18_plugins.plain_factory, a: NODE}\n",
    "section_nested": HEAD + "c18section: {x: [ {y: NODE} ]}\n",
    "aliased": HEAD + "c18section: {x: &anc NODE, y: *anc}\n",
    "logging_section": HEAD + "logging: {version: 1, x: NODE}\n",
    # a value that a later entry of the same mapping overrides (duplicate key, merged default): still a node of the document
    "shadowed_section": HEAD + "c18section: {a: NODE, a: 1}\n",
    "shadowed_lazy": "pipeline:\n  - !C18Lazy {a: NODE, a: 1}\n",
    "shadowed_eager": "pipeline:\n  - !C18Eager {a: NODE, a: 1}\n",
    "merged_default": HEAD + "c18section: {<<: {a: NODE}, a: 1}\n",
    "merged_default_lazy": "pipeline:\n  - !C18Lazy {<<: {a: NODE}, a: 1}\n",
}
# positions in which the factory must see the control token
CTL_IN_ARGS = {"top_value", "lazy_arg", "lazy_deep", "lazy_seq", "lazy_map_key", "eager_arg", "eager_deep",
               "eager_map_key", "type_arg", "section_nested", "aliased"}
# positions whose NODE is never dispatched by SafeConstructor (finding C18-ignored-tag)
IGNORED = {
    "merge_value_lazy": "pipeline:\n  - !C18Lazy {a: 1, <<: NODE}\n",
    "merge_value_eager": "pipeline:\n  - !C18Eager {a: 1, <<: NODE}\n",
    "merge_value_section": HEAD + "c18section: {a: 1, <<: NODE}\n",
    "merge_seq_item": HEAD + "c18section: {a: 1, <<: [ NODE ]}\n",
    "scalar_map_value": HEAD + "c18section: {a: !!str {=: v, k: NODE}}\n",
    "scalar_map_key": HEAD + "c18section: {a: !!str {=: v, ? NODE : 1}}\n",
    "int_map_value": "pipeline:\n  - !C18Lazy {a: !!int {=: '1', k: NODE}}\n",
}


# the tag sits in ANOTHER document of the same stream (a configuration is one document: PyYAML's get_single_data refuses
# a stream of several before constructing anything).  Oracle only: the model's input is one composed document.
TRAILING = {
    "second_document": HEAD + "--- NODE\n",
    "after_document_end": HEAD + "...\n--- NODE\n",
    "after_empty_document": HEAD + "---\n--- NODE\n",
    "first_of_two": "--- NODE\n---\n" + HEAD,
}


# a rejected document that ALSO has a well-formed logging section naming a handler class: nothing of it may be acted
# upon (reject role only - for an accepted document the logging section is of course applied)
_LOGSEC = "logging: {version: 1, handlers: {c: {class: c18_canary_mod.Canary}}, root: {handlers: [c]}}\n"
WITH_LOGGING = {
    "logging_before": _LOGSEC + "pipeline: [ NODE ]\n",
    "logging_after": "pipeline:\n  - !C18Lazy {a: NODE}\n" + _LOGSEC,
    "logging_and_section": HEAD + "c18section: {x: NODE}\n" + _LOGSEC,
}


def corpus_docs():
    docs = []
    for (pykind, target, shape, txt) in node_variants():
        for pos, tpl in WITH_LOGGING.items():
            docs.append({"kind": "doc", "role": "reject", "position": pos, "pykind": pykind, "target": target,
                         "shape": shape, "text": tpl.replace("NODE", txt)})
        for pos, tpl in TRAILING.items():
            docs.append({"kind": "doc", "role": "reject", "position": pos, "pykind": pykind, "target": target,
                         "shape": shape, "text": tpl.replace("NODE", txt), "stream": True})
    for pos, tpl in POSITIONS.items():
        docs.append({"kind": "doc", "role": "control", "position": pos, "pykind": "control", "target": None,
                     "text": tpl.replace("NODE", "c18ctl")})
    for pos, tpl in IGNORED.items():
        docs.append({"kind": "doc", "role": "control", "position": pos, "pykind": "control", "target": None,
                     "text": tpl.replace("NODE", "{c18ctl: 1}")})
    for (pykind, target, shape, txt) in node_variants():
        for pos, tpl in POSITIONS.items():
            docs.append({"kind": "doc", "role": "reject", "position": pos, "pykind": pykind, "target": target,
                         "shape": shape, "text": tpl.replace("NODE", txt)})
        for pos, tpl in IGNORED.items():
            docs.append({"kind": "doc", "role": "reject", "position": pos, "pykind": pykind, "target": target,
                         "shape": shape, "text": tpl.replace("NODE", txt)})
    return docs


def table_directed_docs():
    """documents aimed at every entry of the live table that the table condition rejects: unsafe
    exact entries, python/* keys, plugin closures that are no entry point, multi-constructor prefixes"""
    d = _DUMPS.get("cobald_tables_test") or {}
    if "exact" not in d:
        return []
    eps = {(t, i) for t, i in d.get("entrypoints", [])}
    tags = []
    for t, c in d["exact"]:
        if c[0] == "X" or t.startswith(PYTAG) or (c[0] == "P" and (t, c[1]) not in eps):
            tags.append(t)
    for p, _n in d["multi"]:
        tags.append(p + "c18probe")
    out = []
    for t in tags:
        if any(ch in t for ch in " <>\n"):
            continue
        for body, shape in (("{}", "map"), ("[c18arg]", "seq"), ("''", "scalar")):
            out.append({"kind": "doc", "role": "reject", "position": "lazy_arg", "pykind": "table-entry",
                        "target": t, "shape": shape, "text": "pipeline:\n  - !C18Lazy {a: !<%s> %s}\n" % (t, body)})
    return out


# ======================================================================================
# random tables x random documents (model validation against PyYAML itself)
# ======================================================================================
SAFE_TAGS = ["null", "bool", "int", "float", "binary", "timestamp", "omap", "pairs", "set", "str", "seq", "map"]
TEXTS = ["", "1", "foo", "yes", "1.5", "2001-01-01", "aGk=", "0x1f", "~", "=", "<<", "1:30", "a b"]
EXTRA_TAGS = ["!P0", "!P1", "!P2", "!evil", "!m/x", "!myseq", "!mymap", "!mystr", "!other",
              PYTAG + "tuple", PYTAG + "object/apply:os.system", PYTAG + "name:os.system", PYTAG + "none",
              "tag:yaml.org,2002:unknown"]
FAC_KINDS = ["hash", "hash", "unhash", "str", "raise"]


def gen_table(rng):
    spec = {"base": rng.choice(["safe", "safe", "safe", "base"]), "none": "keep", "drop": [], "alias": [],
            "plugins": [], "unsafe": [], "multi": [], "facs": {}}
    r = rng.random()
    if r < 0.15:
        spec["none"] = "drop"
    elif r < 0.22:
        spec["none"] = "unsafe"
    elif r < 0.27:
        spec["none"] = "str"
    for t in SAFE_TAGS:
        if rng.random() < 0.06:
            spec["drop"].append("tag:yaml.org,2002:" + t)
    for t in ("!myseq", "!mymap", "!mystr", PYTAG + "none"):
        if rng.random() < 0.3:
            spec["alias"].append([t, rng.choice(SAFE_TAGS)])
    for i in range(3):
        if rng.random() < 0.7:
            spec["plugins"].append(["!P%d" % i, i, rng.random() < 0.5])
            spec["facs"][str(i)] = rng.choice(FAC_KINDS)
    for t in ("!evil", PYTAG + "tuple", PYTAG + "name:os.system"):
        if rng.random() < 0.2:
            spec["unsafe"].append([t, rng.randrange(4)])
    for p in (PYTAG + "object/apply:", PYTAG, "!m/", "tag:yaml.org,2002:"):
        if rng.random() < 0.12:
            spec["multi"].append([p, 10 + rng.randrange(4)])
    if rng.random() < 0.05:
        spec["multi"].append([None, 20])
    rng.shuffle(spec["multi"])
    return spec


def table_tags(spec):
    tags = ["tag:yaml.org,2002:" + t for t in SAFE_TAGS]
    tags += [t for t, _ in spec["alias"]] + [t for t, _f, _e in spec["plugins"]] + [t for t, _ in spec["unsafe"]]
    return tags


def gen_tree(rng, spec, depth=0, key=False):
    tags = table_tags(spec)
    r = rng.random()
    if r < 0.55:
        tag = rng.choice(tags)
    elif r < 0.8:
        tag = rng.choice(EXTRA_TAGS)
    else:
        tag = rng.choice(["tag:yaml.org,2002:str", "tag:yaml.org,2002:seq", "tag:yaml.org,2002:map"])
    kr = rng.random()
    if depth >= 4 or kr < (0.55 if key else 0.3):
        return ["S", tag, rng.choice(TEXTS)]
    if kr < 0.6:
        return ["Q", tag, [gen_tree(rng, spec, depth + 1) for _ in range(rng.choice([0, 1, 2, 2, 3]))]]
    pairs = []
    for _ in range(rng.choice([0, 1, 2, 2, 3])):
        kk = rng.random()
        if kk < 0.12:
            k = ["S", MERGE_TAG, "<<"]
        elif kk < 0.22:
            k = ["S", VALUE_TAG, "="]
        elif kk < 0.7:
            k = ["S", STR_TAG, rng.choice(["a", "b", "c", "args"])]
        else:
            k = gen_tree(rng, spec, depth + 1, key=True)
        pairs.append([k, gen_tree(rng, spec, depth + 1)])
    return ["M", tag, pairs]


def natural_tag(tree, rng, spec):
    """make most nodes carry the tag that fits their kind, so that documents often construct"""
    kind_tag = {"S": STR_TAG, "Q": "tag:yaml.org,2002:seq", "M": "tag:yaml.org,2002:map"}
    t = list(tree)
    if rng.random() < 0.75 and t[1] not in (MERGE_TAG, VALUE_TAG):
        t[1] = kind_tag[t[0]] if rng.random() < 0.7 or not spec["plugins"] else rng.choice(spec["plugins"])[0]
    if t[0] == "Q":
        t[2] = [natural_tag(c, rng, spec) for c in t[2]]
    elif t[0] == "M":
        t[2] = [[natural_tag(k, rng, spec), natural_tag(v, rng, spec)] for k, v in t[2]]
    return t


TABLE_CORPUS = [
    # the two known-finding shapes, on a plain SafeLoader table with one lazy plugin
    {"kind": "table", "table": {"base": "safe", "none": "keep", "drop": [], "alias": [], "plugins": [["!P0", 0, False]],
                                "unsafe": [], "multi": [], "facs": {"0": "hash"}},
     "tree": ["M", "!P0", [[["S", STR_TAG, "a"], ["S", STR_TAG, "1"]],
                           [["S", MERGE_TAG, "<<"], ["M", PYTAG + "object/apply:os.system", [[["S", STR_TAG, "b"], ["S", STR_TAG, "2"]]]]]]]},
    {"kind": "table", "table": {"base": "safe", "none": "keep", "drop": [], "alias": [], "plugins": [["!P0", 0, True]],
                                "unsafe": [], "multi": [], "facs": {"0": "hash"}},
     "tree": ["M", "!P0", [[["S", STR_TAG, "a"], ["M", STR_TAG, [[["S", VALUE_TAG, "="], ["S", STR_TAG, "v"]],
                                                                  [["S", PYTAG + "name:os.system", ""], ["S", STR_TAG, "1"]]]]]]]},
    # lazy vs eager: the plugin is called before / not called before the nested foreign tag is met
    {"kind": "table", "table": {"base": "safe", "none": "keep", "drop": [], "alias": [], "plugins": [["!P0", 0, False]],
                                "unsafe": [], "multi": [], "facs": {"0": "hash"}},
     "tree": ["M", "!P0", [[["S", STR_TAG, "a"], ["Q", "tag:yaml.org,2002:seq", [["S", PYTAG + "name:os.system", ""]]]]]]},
    {"kind": "table", "table": {"base": "safe", "none": "keep", "drop": [], "alias": [], "plugins": [["!P0", 0, True]],
                                "unsafe": [], "multi": [], "facs": {"0": "hash"}},
     "tree": ["M", "!P0", [[["S", STR_TAG, "a"], ["Q", "tag:yaml.org,2002:seq", [["S", PYTAG + "name:os.system", ""]]]]]]},
    # a permissive table: multi-constructor prefix and stub entries run
    {"kind": "table", "table": {"base": "safe", "none": "keep", "drop": [], "alias": [], "plugins": [],
                                "unsafe": [[PYTAG + "tuple", 1]], "multi": [[PYTAG + "object/apply:", 11], [PYTAG, 12]], "facs": {}},
     "tree": ["Q", "tag:yaml.org,2002:seq", [["Q", PYTAG + "tuple", []], ["Q", PYTAG + "object/apply:os.system", []],
                                             ["S", PYTAG + "name:os.system", ""], ["S", "!nope", ""]]]},
    # BaseLoader-like: no None entry, defaults by node kind
    {"kind": "table", "table": {"base": "base", "none": "keep", "drop": [], "alias": [], "plugins": [["!P0", 0, False]],
                                "unsafe": [], "multi": [], "facs": {"0": "unhash"}},
     "tree": ["M", "tag:yaml.org,2002:map", [[["S", PYTAG + "name:os.system", ""], ["Q", "!x", [["S", "!P0", ""]]]],
                                             [["S", "!P0", ""], ["S", STR_TAG, "v"]]]]},
]


# ---- building the scratch loader class and running it
def build_loader(spec, log):
    import yaml
    yc = _yaml_constructor_fn()
    base = yaml.SafeLoader if spec["base"] == "safe" else yaml.BaseLoader
    sc = yaml.constructor.SafeConstructor
    raw = dict(base.yaml_constructors)
    for t in spec["drop"]:
        raw.pop(t, None)
    for t, src in spec["alias"]:
        raw[t] = sc.yaml_constructors["tag:yaml.org,2002:" + src]
    if spec["none"] == "drop":
        raw.pop(None, None)
    elif spec["none"] == "str":
        raw[None] = sc.yaml_constructors["tag:yaml.org,2002:str"]

    def stub(nid):
        def unsafe_stub(loader, node):
            log.append(["U", nid])
            return ("stub", nid)
        return unsafe_stub

    def mstub(nid):
        def unsafe_multi_stub(loader, suffix, node):
            log.append(["U", nid])
            return ("stub", nid)
        return unsafe_multi_stub

    def factory(fid, kind):
        def c18_factory(*a, **k):
            log.append(["C", fid])
            if kind == "raise":
                raise RuntimeError("factory %d" % fid)
            return {"hash": ("obj", fid), "unhash": ["obj", fid], "str": "obj%d" % fid}[kind]
        return c18_factory

    if spec["none"] == "unsafe":
        raw[None] = stub(30)
    for t, nid in spec["unsafe"]:
        raw[t] = stub(nid)
    facs = []
    for t, fid, eager in spec["plugins"]:
        f = factory(fid, spec["facs"].get(str(fid), "hash"))
        while len(facs) <= fid:
            facs.append(None)
        facs[fid] = f
        raw[t] = yc(f, eager=eager)
    multi = {}
    for p, nid in spec["multi"]:
        multi[p] = mstub(nid)

    class Scratch(base):
        pass
    Scratch.yaml_constructors = dict(raw)
    Scratch.yaml_multi_constructors = multi
    # classify with the same classifier as the live extraction, then wrap builtins to log their entry
    dump = dump_tables(Scratch, facs)
    wrapped = {}
    for t, fn in raw.items():
        c = classify(fn, facs)
        if c[0] == "B":
            def w(loader, node, _f=fn, _k=c[1]):
                log.append(["B", _k])
                return _f(loader, node)
            wrapped[t] = w
        else:
            wrapped[t] = fn
    Scratch.yaml_constructors = wrapped
    # names of stubs are only known to the harness: replace the classifier's "X" names by ids
    for e in dump["exact"]:
        if e[1][0] == "X":
            e[1] = ["X", dict((t, n) for t, n in spec["unsafe"]).get(e[0], 99)]
    if dump["none"] is not None and dump["none"][0] == "X":
        dump["none"] = ["X", 30]
    dump["multi"] = [[p, n] for p, n in spec["multi"] if p is not None]
    mn = [n for p, n in spec["multi"] if p is None]
    dump["multi_none"] = mn[0] if mn else None
    return Scratch, dump


def run_table(case):
    import yaml
    log = []
    cls, dump = build_loader(case["table"], log)
    root = node_of(case["tree"])
    via = "text"
    try:
        text = yaml.serialize(root)
        tree = tree_of(yaml.compose(text, Loader=cls))
    except Exception:
        via, text, tree = "nodes", None, case["tree"]
    del log[:]
    obs = {"via": via, "tree": tree, "valid": valid_conversions(tree), "dump": dump}
    try:
        if via == "text":
            loader = cls(text)
            try:
                data = loader.get_single_data()
            finally:
                loader.dispose()
        else:
            loader = cls("")
            data = loader.construct_document(node_of(tree))
        obs["err"] = None
        obs["vclass"] = vclass_of(data)
    except RecursionError:
        raise
    except Exception as e:
        obs["err"] = err_class(e)
    obs["log"] = list(log)
    return obs


# ======================================================================================
# run_pure API
# ======================================================================================
def gen_cases(rng, n):
    docs = corpus_docs() + table_directed_docs()
    tables = list(TABLE_CORPUS)
    n_rand = max(0, n - len(docs) - len(tables))
    for _ in range(n_rand):
        spec = gen_table(rng)
        tree = gen_tree(rng, spec)
        if rng.random() < 0.8:
            tree = natural_tag(tree, rng, spec)
        tables.append({"kind": "table", "table": spec, "tree": tree})
    _prefetch(docs)
    for c in docs:
        yield c
    for c in tables:
        yield c


def run_impl(case):
    common.use_repo_sources()
    if case["kind"] == "doc":
        if case["text"] not in _DOC_CACHE:
            _DOC_CACHE[case["text"]] = _serve([case["text"]])[0]
        return _DOC_CACHE[case["text"]]
    return run_table(case)


def _foreign(tag, registered):
    return tag.startswith(PYTAG) or (tag.startswith("!") and tag not in registered)


def oracle(case, obs):
    if "harness_error" in obs:
        return [(None, "harness error: " + obs["harness_error"])]
    v = []
    if case["kind"] == "doc":
        what = "%s %s at %s" % (case["pykind"], case.get("target"), case["position"])
        canaries = list(obs.get("fired", [])) + list(obs.get("marker", [])) + list(obs.get("canary_imported", []))
        if canaries:
            v.append((None, "canary fired: %s -> %s; document:\n%s" % (what, sorted(set(canaries)), case["text"])))
        if case["role"] == "reject":
            if obs.get("yaml_returned"):
                if case["position"] in IGNORED and not canaries:
                    v.append(("C18-ignored-tag", "tag ignored, not rejected: %s; document:\n%s" % (what, case["text"])))
                else:
                    v.append((None, "accepted: document with %s was constructed without error; document:\n%s"
                              % (what, case["text"])))
        else:
            if not obs.get("yaml_returned"):
                v.append((None, "control rejected: benign document at position %s was rejected (%s): registered "
                                "plugin tags are not usable, the position is not reached; document:\n%s"
                          % (case["position"], obs.get("yaml_error_type"), case["text"])))
            else:
                if "C18" in case["text"] and not obs.get("calls"):
                    v.append((None, "control: registered plugin factory was not called; document:\n%s" % case["text"]))
                if case["position"] in CTL_IN_ARGS and not obs.get("ctl_seen"):
                    v.append((None, "control: value at position %s did not reach the factory; document:\n%s"
                              % (case["position"], case["text"])))
        return v
    # table cases: the property on a scratch table -- with a safe table only plugin factories and
    # SafeConstructor methods run, and a dispatched foreign tag is an error
    dump = obs["dump"]
    safe = dump_safe(dict(dump, entrypoints=sorted([t, c[1]] for t, c in dump["exact"] if c[0] == "P")))
    if safe:
        plugins = {c[1] for _t, c in dump["exact"] if c[0] == "P"}
        for e in obs["log"]:
            if e[0] == "U" or (e[0] == "C" and e[1] not in plugins):
                v.append((None, "unsafe call with a safe table: %s" % e))
        registered = {t for t, _c in dump["exact"]}
        if _foreign(obs["tree"][1], registered) and obs["err"] is None:
            v.append((None, "accepted: root with foreign tag constructed on a safe table"))
    return v


def nontrivial(case, obs):
    if "harness_error" in obs or "tree" not in obs:
        return False
    nodes = list(tree_nodes(obs["tree"]))
    if len(nodes) < 3:
        return False
    if case["kind"] == "doc":
        return case["role"] == "reject" and case["position"] != "root"
    return len(obs.get("log", [])) >= 2


# ---- Coq printing
def _node(t):
    if t[0] == "S":
        return "(Scalar %s %s)" % (cstr(t[1]), cstr(t[2]))
    if t[0] == "Q":
        return "(Seq %s %s)" % (cstr(t[1]), clist(_node(c) for c in t[2]) if t[2] else "nil")
    return "(Map %s %s)" % (cstr(t[1]), clist("(%s, %s)" % (_node(k), _node(v)) for k, v in t[2]) if t[2] else "nil")


def _event(e):
    if e[0] == "B":
        return {10: "(EvB BSeq)", 11: "(EvB BMap)", 12: "(EvB BSet)", 13: "(EvB BPairs)"}.get(
            e[1], "(EvB (BScalar %s))" % cN(e[1]))
    if e[0] == "C":
        return "(Call %s)" % cN(e[1])
    return "(UnsafeCall %s)" % cN(e[1])


_ERR = {"undef": "(Some EUndef)", "structure": "(Some EStructure)", "other": "(Some EOther)", None: "None"}
_VC = {"str": "(Some VStr)", "hash": "(Some VHash)", "unhash": "(Some VUnhash)", None: "None"}
_FALSE_CASE = ("(mkCase (mkTables nil None nil None false) nil nil (Scalar nil nil) true nil None None "
               "[UnsafeCall 0%N])")


def coq_case(case, obs):
    if case.get("stream"):
        return None         # several documents in one stream: oracle only
    if "harness_error" in obs or "tree" not in obs:
        return _FALSE_CASE
    valid = clist("(%s, %s)" % (cN(i), cstr(t)) for i, t in obs["valid"]) if obs["valid"] else "nil"
    if case["kind"] == "doc":
        d = _DUMPS.get("cobald_tables_test")
        if not d or "factories" not in d:
            return _FALSE_CASE
        ids = {"C18Lazy": None, "C18Eager": None}
        for i, name in enumerate(d["factories"]):
            if name == "c18_plugins.lazy_factory":
                ids["C18Lazy"] = i
            if name == "c18_plugins.eager_factory":
                ids["C18Eager"] = i
        watch = [i for i in ids.values() if i is not None]
        log = [["C", ids[c]] for c in obs.get("calls", []) if ids.get(c) is not None]
        err = None if obs.get("yaml_returned") else obs.get("yaml_error", "other")
        return "(mkCase cobald_tables_test %s nil %s false %s %s %s %s)" % (
            valid, _node(obs["tree"]), clist(cN(i) for i in watch) if watch else "nil", _ERR[err],
            _VC[obs.get("vclass")] if obs.get("yaml_returned") else "None",
            clist(_event(e) for e in log) if log else "nil")
    names = []
    dump = obs["dump"]
    d2 = dict(dump)
    d2["exact"] = [[t, (c if c[0] != "X" else ["X", "n%d" % c[1]])] for t, c in dump["exact"]]
    # unsafe ids are printed directly
    def cls_term(c):
        if c is not None and c[0] == "X":
            return "(Unsafe %s)" % cN(c[1])
        return _cls_term(c, names)
    exact = clist("(%s, %s)" % (cstr(t), cls_term(c)) for t, c in dump["exact"]) if dump["exact"] else "nil"
    none = "None" if dump["none"] is None else "(Some %s)" % cls_term(dump["none"])
    multi = clist("(%s, %s)" % (cstr(p), cN(n)) for p, n in dump["multi"]) if dump["multi"] else "nil"
    mnone = "None" if dump["multi_none"] is None else "(Some %s)" % cN(dump["multi_none"])
    tables = "(mkTables %s %s %s %s %s)" % (exact, none, multi, mnone, cbool(dump["safe_methods"]))
    fk = {"hash": "(Some VHash)", "unhash": "(Some VUnhash)", "str": "(Some VStr)", "raise": "None"}
    facs = [(int(f), k) for f, k in case["table"]["facs"].items() if k != "hash"]
    fac = clist("(%s, %s)" % (cN(f), fk[k]) for f, k in sorted(facs)) if facs else "nil"
    return "(mkCase %s %s %s %s true nil %s %s %s)" % (
        tables, valid, fac, _node(obs["tree"]), _ERR[obs["err"]], _VC[obs.get("vclass")] if obs["err"] is None else "None",
        clist(_event(e) for e in obs["log"]) if obs["log"] else "nil")


def distribution(results):
    d = {"doc_roles": {}, "doc_positions": {}, "doc_pykinds": {}, "doc_outcomes": {}, "table_outcomes": {},
         "table_bases": {}, "table_safe": 0, "table_log_len": {}, "table_via": {}}

    def inc(m, k):
        m[str(k)] = m.get(str(k), 0) + 1
    for (c, o, _v) in results:
        if c["kind"] == "doc":
            inc(d["doc_roles"], c["role"])
            inc(d["doc_positions"], c["position"])
            inc(d["doc_pykinds"], c["pykind"].split("/")[0] if c["pykind"].startswith("typed") else c["pykind"])
            inc(d["doc_outcomes"], "returned" if o.get("yaml_returned") else "rejected:%s" % o.get("yaml_error"))
        elif "dump" in o:
            inc(d["table_outcomes"], o.get("err") or "ok")
            inc(d["table_bases"], c["table"]["base"])
            inc(d["table_via"], o.get("via"))
            inc(d["table_log_len"], min(len(o["log"]), 10))
            if dump_safe(dict(o["dump"], entrypoints=sorted([t, x[1]] for t, x in o["dump"]["exact"] if x[0] == "P"))):
                d["table_safe"] += 1
    return d


def shrink(case, still_fails):
    return case


if __name__ == "__main__":
    if "--capture" in sys.argv:
        child_capture()
    elif "--server" in sys.argv:
        child_server()
