"""C09 — periodic services under a virtual clock: generators, implementation runner, oracle,
Coq case printer, structural (ast) inspection of the six run() coroutines.

The REAL shipped `run()` coroutine of each service is executed under
`trio.run(main, clock=trio.testing.MockClock(autojump_threshold=0))`; the service is started at
virtual time 0, the environment acts at generated virtual times (before / exactly on / after the
period boundaries), everything the service does to its recording pool / children is logged with
`trio.current_time()`.  Intervals and times are dyadic, so virtual-time arithmetic is exact."""
import ast
import os
import signal
from fractions import Fraction as F

from . import c08
from . import common
from .c08 import fr, un, num, EPS
from .common import cQ, clist, cnat

ID = "C09"
COQ_TARGETS = ["props/C09.vo"]
CORR_TARGETS = ["corr/C09Corr.vo"]
CORR_PRELUDE = ("From Cobald Require Import kit.QKit kit.Corr model.Controllers model.Services "
                "corr.C08Corr corr.C09Corr.")
CORR_CHECK = "C09Corr.check"
CORR_TYPE = "C09Corr.case"
N_QUICK, N_THOROUGH = 420, 3000
RULE = ("all six shipped services (LinearController, RelativeSupplyController, Stepwise, DemandSwitch, Buffer, "
        "FactoryPool), their real run() under trio MockClock; intervals / windows from {1/8, 1/2, 1, 5/4, 3, 10}; run "
        "durations 0-50 periods (+1/4 period); 0-14 groups of environment actions (pool state changes, outside demand "
        "writes, writes through the Buffer, FactoryPool demand writes) at k*I - I/8, exactly k*I (ties with the service's "
        "wake-up, both orders accepted), k*I + I/8 and k*I + I/2; boundary corpus first, then seeded random.  "
        "non-trivial = the service woke at least twice and did not raise")
TRUSTED_BASE = [
    "Coq 8.16.1 kernel + vm_compute (bytecode VM) for evaluating the model on the cases",
    "trio 0.34 and trio.testing.MockClock(autojump_threshold=0) as the virtual clock driving the real coroutines",
    "harness/c09.py: recording pool / children / rules / slave controllers with virtual timestamps, environment driver, "
    "grouping of the log by virtual time, ast inspection of run()",
    "model/Services.v + model/Controllers.v are hand-written; tied to the sources by the correspondence run, the "
    "structural inspection, and by translation of the loop shapes (py2coq/units.py:gen_services, trusted, fail-closed; "
    "gen/Gen_services.v regenerated on every run; kit/LoopIR.v turns a shape into a timeline and props/C09_tie.v proves that "
    "the shapes of the current source give the model's timelines); what regulate / the rules / _shrink / _grow do inside one "
    "step is the business of C08 / C15",
    "ideal arithmetic (exact Fractions / dyadic times)",
]
ASSUMPTIONS = [
    "time is trio's clock; nothing but `await trio.sleep` suspends a run() iteration, so a wake-up block is atomic",
    "an environment action at exactly a wake-up time may be ordered before or after the wake-up (trio does not order "
    "the two tasks): the model is checked for SOME order per tie, the theorems hold for EVERY order",
    "well-behaved pool: attribute access never raises; Stepwise: supply >= 0 (a supply below every range makes the "
    "body raise TypeError - reproduced by the model as an explicit error, excluded from 'never raises')",
    "interval / window > 0 and not changed while the service runs",
    "FactoryPool children in the grow-only regime: supply 0, constant demand q > 0, pool demand >= 0 (only the run loop and "
    "the spawn count of _grow are modelled; _shrink is not)",
    "LinearController rate bound: nobody else writes the pool's demand",
]

ITVS = [F(1, 8), F(1, 2), F(1), F(5, 4), F(3), F(10)]
SERVICES = ["linear", "relative", "stepwise", "switch", "buffer", "factory"]

# ------------------------------------------------------------------ structural inspection (fail-closed)
SOURCES = {
    "linear": ("controller/linear.py", "LinearController", "cobald.controller.linear"),
    "relative": ("controller/relative_supply.py", "RelativeSupplyController", "cobald.controller.relative_supply"),
    "stepwise": ("controller/stepwise.py", "Stepwise", "cobald.controller.stepwise"),
    "switch": ("controller/switch.py", "DemandSwitch", "cobald.controller.switch"),
    "buffer": ("decorator/buffer.py", "Buffer", "cobald.decorator.buffer"),
    "factory": ("composite/factory.py", "FactoryPool", "cobald.composite.factory"),
}
EXPECT = {   # where the sleep sits in the loop body, what the loop must call on self
    "linear": ("last", ["regulate"]), "relative": ("last", ["regulate"]), "switch": ("last", ["regulate"]),
    "stepwise": ("last", []), "buffer": ("last", []), "factory": ("first", None),
}


def _is_trio_sleep(node):
    return (isinstance(node, ast.Expr) and isinstance(node.value, ast.Await)
            and isinstance(node.value.value, ast.Call)
            and isinstance(node.value.value.func, ast.Attribute)
            and isinstance(node.value.value.func.value, ast.Name)
            and node.value.value.func.value.id == "trio" and node.value.value.func.attr == "sleep"
            and len(node.value.value.args) == 1 and not node.value.value.keywords)


def inspect_run(svc):
    """facts about one run(): raises AssertionError with the reason when the shape is not
    `prelude; while True: A; await trio.sleep(e); B` with exactly one await per iteration"""
    import importlib
    rel, cname, modname = SOURCES[svc]
    path = os.path.join(common.REPO, "src", "cobald", rel)
    with open(path, encoding="utf-8") as fh:
        tree = ast.parse(fh.read())
    classes = [n for n in tree.body if isinstance(n, ast.ClassDef) and n.name == cname]
    assert len(classes) == 1, "class %s not found" % cname
    runs = [n for n in classes[0].body if isinstance(n, (ast.AsyncFunctionDef, ast.FunctionDef)) and n.name == "run"]
    assert len(runs) == 1 and isinstance(runs[0], ast.AsyncFunctionDef), "no single `async def run`"
    run = runs[0]
    assert [a.arg for a in run.args.args] == ["self"], "run takes arguments"
    body = [st for st in run.body if not (isinstance(st, ast.Expr) and isinstance(st.value, ast.Constant))]
    assert body and isinstance(body[-1], ast.While), "run does not end in a while loop"
    prelude, loop = body[:-1], body[-1]
    for st in prelude:
        assert isinstance(st, ast.Assign), "prelude statement is not a plain assignment"
        assert not any(isinstance(n, (ast.Await, ast.Call)) for n in ast.walk(st)), "prelude calls / awaits"
    assert isinstance(loop.test, ast.Constant) and loop.test.value is True, "loop test is not the constant True"
    assert not loop.orelse, "loop has an else branch"
    inner = list(ast.walk(loop))
    for bad in (ast.Break, ast.Return, ast.AsyncFor, ast.AsyncWith, ast.Yield, ast.YieldFrom, ast.Try, ast.Raise):
        assert not any(isinstance(n, bad) for n in inner), "loop contains %s" % bad.__name__
    awaits = [n for n in inner if isinstance(n, ast.Await)]
    sleeps = [i for i, st in enumerate(loop.body) if _is_trio_sleep(st)]
    assert len(awaits) == 1 and len(sleeps) == 1, "not exactly one top-level `await trio.sleep(..)` per iteration"
    pos = "first" if sleeps[0] == 0 else "last" if sleeps[0] == len(loop.body) - 1 else "middle"
    arg = ast.unparse(loop.body[sleeps[0]].value.value.args[0])
    aliases = {}
    for st in prelude:      # `target, interval = self.target, self.interval`
        tg, val = st.targets[0], st.value
        if isinstance(tg, ast.Tuple) and isinstance(val, ast.Tuple):
            for a, b in zip(tg.elts, val.elts):
                aliases[ast.unparse(a)] = ast.unparse(b)
        else:
            aliases[ast.unparse(tg)] = ast.unparse(val)
    period = aliases.get(arg, arg)
    assert period in ("self.interval", "self.window"), "sleep argument is %s" % period
    called = sorted({n.func.attr for n in inner if isinstance(n, ast.Call) and isinstance(n.func, ast.Attribute)
                     and isinstance(n.func.value, ast.Name) and n.func.value.id == "self"})
    cls = getattr(importlib.import_module(modname), cname)
    for name in called:
        assert callable(getattr(cls, name, None)), "loop calls self.%s which %s does not define" % (name, cname)
    want_pos, want_calls = EXPECT[svc]
    assert pos == want_pos, "sleep is %s in the loop body, expected %s" % (pos, want_pos)
    if want_calls is not None:
        assert called == want_calls, "loop calls %s on self, expected %s" % (called, want_calls)
    return {"class": cname, "shape": "prelude; while True: A; await trio.sleep(e); B", "sleep_position": pos,
            "period": period, "self_calls": called, "prelude_statements": len(prelude), "awaits_per_iteration": 1}


def setup(chk):
    global N_QUICK
    facts, lost = {}, []
    for svc in SERVICES:
        try:
            facts[svc] = inspect_run(svc)
        except Exception as e:      # fail-closed: any surprise means "structure not established"
            facts[svc] = {"structure": "NOT ESTABLISHED: %s" % e}
            lost.append(svc)
    chk.coverage["run_loop_structure"] = facts
    if lost:
        chk.note("structural inspection of run() lost for %s: relying on the timed correspondence alone, at thorough "
                 "strength" % ", ".join(lost))
        N_QUICK = N_THOROUGH
    chk.coverage["run_loop_structure_ok"] = not lost


# ------------------------------------------------------------------ generation
def _times(rng, itv, nper, max_ties):
    """strictly increasing virtual times of environment groups, with <= max_ties exactly on boundaries"""
    out, ties = set(), 0
    for _ in range(rng.choice([0, 1, 2, 3, 4, 6, 8, 10, 14])):
        k = rng.randint(0, max(0, nper))
        r = rng.random()
        if r < 0.3 and ties < max_ties:
            t = k * itv
            if t not in out:
                ties += 1
        elif r < 0.55:
            t = k * itv - itv / 8
        elif r < 0.8:
            t = k * itv + itv / 8
        else:
            t = k * itv + itv / 2
        if t >= 0:
            out.add(t)
    return sorted(out)


def _nper(rng):
    return rng.choice([0, 1, 2, 2, 3, 3, 4, 5, 6, 8, 12, 20, 50])


def _fit_state(rng, low, high):
    u = c08.around(rng, low) if rng.random() < 0.6 else c08.rnd_fit(rng)
    a = c08.around(rng, high) if rng.random() < 0.6 else c08.rnd_fit(rng)
    return ["state", fr(c08.rnd_amount(rng)), fr(u), fr(a)]


def gen_ctl(rng, svc):
    itv = rng.choice(ITVS)
    nper = _nper(rng)
    T = nper * itv + itv / 4
    outside = rng.random() < 0.3          # somebody else writes the pool's demand too
    if svc in ("linear", "relative"):
        low = c08.rnd_fit(rng)
        high = rng.choice([g for g in c08.GRID if g >= low])
        if svc == "linear":
            ctl = {"kind": "linear", "args": [fr(low), fr(high), fr(rng.choice(c08.RATES)), fr(itv)], "table": []}
        else:
            ctl = {"kind": "relative", "args": [fr(low), fr(high), fr(rng.choice([F(9, 10), F(1, 2), F(0)])),
                                                fr(rng.choice([F(11, 10), F(2)])), fr(itv)], "table": []}
        pool = [fr(c08.rnd_amount(rng)), fr(c08.rnd_amount(rng)), fr(c08.around(rng, low)), fr(c08.around(rng, high))]
        mk = lambda: _fit_state(rng, low, high)
    elif svc == "stepwise":
        n = rng.choice([0, 1, 2, 3, 4, 6])
        ts = c08.rnd_thresholds(rng, n, dyadic=False)
        nb = rng.randint(1, min(6, n + 2))
        ctl = {"kind": "stepwise", "base": rng.randrange(nb), "rules": [[fr(t), rng.randrange(nb)] for t in ts],
               "itv": fr(itv), "table": [c08.rnd_beh(rng) for _ in range(nb)]}
        neg = rng.random() < 0.04

        def sup():
            if neg and rng.random() < 0.3:
                return -c08.rnd_amount(rng) - EPS
            if ts and rng.random() < 0.7:
                return c08.around(rng, rng.choice(ts))
            return c08.rnd_amount(rng)
        pool = [fr(max(F(0), sup())), fr(c08.rnd_amount(rng)), fr(c08.rnd_fit(rng)), fr(c08.rnd_fit(rng))]
        mk = lambda: ["state", fr(sup()), fr(c08.rnd_fit(rng)), fr(c08.rnd_fit(rng))]
    else:
        n = rng.choice([0, 1, 2, 3, 4, 6])
        ts = c08.rnd_thresholds(rng, n, dyadic=True)
        nc = rng.randint(1, min(6, n + 2))
        items = []
        for t in ts:
            items += [["num", fr(t)], ["ctl", rng.randrange(nc)]]
        ctl = {"kind": "switch", "tags": [rng.choice(["none", "same"]) for _ in range(nc)], "default": rng.randrange(nc),
               "items": items, "itv": fr(itv), "table": [c08.rnd_beh(rng) for _ in range(nc)]}
        pool = [fr(c08.rnd_amount(rng)), fr(c08.around(rng, rng.choice(ts)) if ts else c08.rnd_amount(rng)),
                fr(c08.rnd_fit(rng)), fr(c08.rnd_fit(rng))]
        outside = True

        def mk():
            if ts and rng.random() < 0.6:
                return ["demand", fr(c08.around(rng, rng.choice(ts)))]
            return ["state", fr(c08.rnd_amount(rng)), fr(c08.rnd_fit(rng)), fr(c08.rnd_fit(rng))]
    env = []
    for t in _times(rng, itv, nper, 4):
        acts = [mk() for _ in range(rng.choice([1, 1, 2]))]
        if outside and rng.random() < 0.3:
            acts.append(["demand", fr(c08.rnd_amount(rng))])
        env.append([fr(t), acts])
    return {"svc": svc, "ctl": ctl, "itv": fr(itv), "pool": pool, "env": env, "T": fr(T)}


def gen_buffer(rng):
    itv = rng.choice(ITVS)
    nper = _nper(rng)
    env = []
    for t in _times(rng, itv, nper, 4):
        acts = []
        for _ in range(rng.choice([1, 1, 2, 3])):
            r = rng.random()
            if r < 0.75:
                acts.append(["bwrite", fr(c08.rnd_amount(rng))])
            elif r < 0.9:
                acts.append(["demand", fr(c08.rnd_amount(rng))])      # somebody else writes the target
            else:
                acts.append(["state", fr(c08.rnd_amount(rng)), fr(c08.rnd_fit(rng)), fr(c08.rnd_fit(rng))])
        env.append([fr(t), acts])
    return {"svc": "buffer", "itv": fr(itv), "pool": [fr(c08.rnd_amount(rng)), fr(c08.rnd_amount(rng)), "1/2", "1/2"],
            "env": env, "T": fr(nper * itv + itv / 4)}


def gen_factory(rng):
    itv = rng.choice(ITVS)
    nper = _nper(rng)
    q = rng.choice([F(1), F(2), F(1, 2), F(5), F(3, 4)])
    n0 = rng.choice([1, 1, 2, 3])
    env = []
    for t in _times(rng, itv, nper, 4):
        r = rng.random()
        d = (q * rng.randint(0, 12) + rng.choice([0, 0, q / 2, EPS, -EPS])) if r < 0.85 else c08.rnd_amount(rng)
        env.append([fr(t), [["fdemand", fr(max(F(0), d))]]])
    return {"svc": "factory", "itv": fr(itv), "q": fr(q), "n0": n0, "pool": ["0/1", "0/1", "0/1", "0/1"],
            "env": env, "T": fr(nper * itv + itv / 4)}


def corpus():
    lin = {"kind": "linear", "args": ["1/2", "1/2", "1/1", "1/1"], "table": []}
    # linear: state changes just before, exactly on, just after boundaries; 6 periods
    yield {"svc": "linear", "ctl": lin, "itv": "1/1", "pool": ["10/1", "5/1", "1/4", "3/4"], "T": "25/4",
           "env": [["7/8", [["state", "10/1", "3/4", "3/4"]]], ["2/1", [["state", "10/1", "1/2", "1/2"]]],
                   ["25/8", [["state", "10/1", "1/4", "1/4"]]], ["5/1", [["state", "10/1", "3/4", "1/4"]]]]}
    yield {"svc": "linear", "ctl": lin, "itv": "1/1", "pool": ["10/1", "5/1", "1/4", "3/4"], "T": "0/1", "env": []}
    yield {"svc": "linear", "ctl": dict(lin, args=["1/2", "1/2", "7/3", "1/8"]), "itv": "1/8", "pool": ["10/1", "5/1", "3/4", "3/4"],
           "T": "201/32", "env": [["0/1", [["state", "1/1", "1/4", "1/4"]]], ["3/1", [["demand", "100/1"]]]]}
    yield {"svc": "relative", "ctl": {"kind": "relative", "args": ["1/2", "1/2", "9/10", "11/10", "3/1"], "table": []},
           "itv": "3/1", "pool": ["10/1", "5/1", "1/4", "3/4"], "T": "39/4",
           "env": [["3/1", [["state", "20/1", "3/4", "3/4"]]], ["51/8", [["state", "30/1", "1/2", "1/2"]]]]}
    tbl = [["const", "10/1"], ["linear", "1/2", "1/2", "1/1"], ["scale", "11/10"], ["none"]]
    yield {"svc": "stepwise", "ctl": {"kind": "stepwise", "base": 0, "rules": [["100/1", 2], ["10/1", 1]], "itv": "1/2", "table": tbl},
           "itv": "1/2", "pool": ["0/1", "3/1", "1/4", "3/4"], "T": "33/8",
           "env": [["1/2", [["state", "10/1", "1/4", "3/4"]]], ["23/16", [["state", "100/1", "3/4", "3/4"]]],
                   ["3/1", [["state", fr(10 - EPS), "3/4", "3/4"]]]]}
    yield {"svc": "stepwise", "ctl": {"kind": "stepwise", "base": 3, "rules": [], "itv": "1/1", "table": tbl},
           "itv": "1/1", "pool": ["0/1", "3/1", "1/4", "3/4"], "T": "13/4", "env": [["3/2", [["state", "-1/1", "1/4", "3/4"]]]]}
    stbl = [["linear", "1/2", "1/2", "1/1"], ["relative", "1/2", "1/2", "9/10", "11/10"], ["add", "1/1"]]
    yield {"svc": "switch", "ctl": {"kind": "switch", "tags": ["none", "same", "none"], "default": 0,
                                    "items": [["num", "20/1"], ["ctl", 2], ["num", "10/1"], ["ctl", 1]], "itv": "1/1", "table": stbl},
           "itv": "1/1", "pool": ["12/1", "5/1", "1/4", "3/4"], "T": "33/4",
           "env": [["2/1", [["demand", "10/1"]]], ["33/8", [["demand", "20/1"]]], ["6/1", [["demand", fr(10 - EPS)]]]]}
    # buffer: several writes inside one window, writes exactly on boundaries, an outside write to the target
    yield {"svc": "buffer", "itv": "10/1", "pool": ["0/1", "5/1", "1/2", "1/2"], "T": "85/2",
           "env": [["1/1", [["bwrite", "7/1"], ["bwrite", "8/1"]]], ["5/1", [["bwrite", "9/1"]]], ["10/1", [["bwrite", "11/1"]]],
                   ["15/1", [["bwrite", "9/1"]]], ["20/1", [["bwrite", "9/1"]]], ["25/1", [["demand", "1/1"]]], ["35/1", [["bwrite", "5/1"]]]]}
    yield {"svc": "buffer", "itv": "1/8", "pool": ["0/1", "5/1", "1/2", "1/2"], "T": "1/32", "env": [["0/1", [["bwrite", "7/1"]]]]}
    yield {"svc": "factory", "itv": "1/1", "q": "2/1", "n0": 1, "pool": ["0/1", "0/1", "0/1", "0/1"], "T": "25/4",
           "env": [["1/2", [["fdemand", "7/1"]]], ["2/1", [["fdemand", "12/1"]]], ["25/8", [["fdemand", "0/1"]]], ["5/1", [["fdemand", "13/1"]]]]}
    yield {"svc": "factory", "itv": "10/1", "q": "1/2", "n0": 2, "pool": ["0/1", "0/1", "0/1", "0/1"], "T": "5/2", "env": [["0/1", [["fdemand", "3/1"]]]]}


def gen_cases(rng, n):
    out = list(corpus())
    for c in out:
        yield c
    for i in range(max(0, n - len(out))):
        svc = SERVICES[i % 6]
        if svc == "buffer":
            yield gen_buffer(rng)
        elif svc == "factory":
            yield gen_factory(rng)
        else:
            yield gen_ctl(rng, svc)


# ------------------------------------------------------------------ implementation
RUNAWAY = 5000          # log entries at one virtual time after which the service is declared spinning
HANG_SECONDS = 20       # wall-clock watchdog per case (a healthy case takes milliseconds)


class _Hang(BaseException):
    pass


_hangs = []


class _Clock:
    def __init__(self):
        self.on = False

    def now(self):
        import trio
        return trio.current_time()


class TimedLog(list):
    """list whose entries are stamped with the virtual time at which they are appended"""
    def __init__(self, clock):
        super().__init__()
        self.clock = clock

    def append(self, entry):
        if self.clock.on:
            list.append(self, [self.clock.now()] + list(entry))
            if len(self) > RUNAWAY and self[-RUNAWAY][0] == self[-1][0]:
                raise _Hang()       # the service keeps acting without virtual time advancing

    def touch(self):
        self.append(["t"])


def _exc_kind(e):
    while hasattr(e, "exceptions") and len(e.exceptions) == 1:
        e = e.exceptions[0]
    if isinstance(e, _Hang):
        return "hang"
    return "norule" if isinstance(e, TypeError) else "other:%s" % type(e).__name__


def _tq(t):
    x = F(t)
    return fr(x)


def _records(log):
    """group the service's log by virtual time: [[time, [effects...]], ...] (touches only mark the time)"""
    out = []
    for e in log:
        t = _tq(e[0])
        if not out or out[-1][0] != t:
            out.append([t, []])
        if e[1] == "w":
            out[-1][1].append(["w", c08._q(e[2])])
        elif e[1] in ("rule", "reg"):
            out[-1][1].append([e[1], e[2], bool(e[3]), c08._q(e[4])])
        elif e[1] == "spawn":
            out[-1][1].append(["spawn"])
    return out


def run_impl(case):
    import trio
    import trio.testing
    clock = _Clock()
    log = TimedLog(clock)
    svc = case["svc"]
    children = []
    if svc in ("linear", "relative", "stepwise", "switch"):
        pool = c08._mk_pool(log, case["pool"], touch=log.touch)
        service, _info = c08.build(case["ctl"], pool, log)
    elif svc == "buffer":
        from cobald.decorator.buffer import Buffer
        # the Buffer's observable effect on its target is a CHANGE of demand (re-writing the same value is not one)
        pool = c08._mk_pool(log, case["pool"], touch=log.touch, changes_only=True)
        service = Buffer(pool, window=num(case["itv"]))
    elif svc == "factory":
        from cobald.composite.factory import FactoryPool
        q = num(case["q"])
        pool = None

        def child():
            p = c08._mk_pool(log, ["0/1", fr(F(q)), "1/2", "1/2"], touch=log.touch)
            children.append(p)
            return p

        def factory():
            log.append(["spawn"])
            return child()
        service = FactoryPool(*[child() for _ in range(case["n0"])], factory=factory, interval=num(case["itv"]))
    else:
        raise ValueError(svc)
    res = {"raised": None}

    def apply(a):
        if a[0] == "state":
            pool._s, pool._u, pool._a = num(a[1]), num(a[2]), num(a[3])
        elif a[0] == "demand":
            pool._d = num(a[1])
        elif a[0] == "bwrite":
            service.demand = num(a[1])
        elif a[0] == "fdemand":
            service.demand = num(a[1])
        else:
            raise ValueError(a)

    def final():
        if svc == "buffer":
            return [c08._q(service.demand), c08._q(pool._d)]
        if svc == "factory":
            return [c08._q(service.demand), c08._q(sum(c._d for c in children))]
        return [c08._q(pool._d)]

    async def main():
        clock.on = True
        try:
            async with trio.open_nursery() as nursery:
                nursery.start_soon(service.run)
                for t, acts in case["env"]:
                    if un(t) > un(case["T"]):
                        break
                    await trio.sleep_until(float(un(t)))
                    for a in acts:
                        apply(a)
                await trio.sleep_until(float(un(case["T"])))
                nursery.cancel_scope.cancel()
        except BaseException as e:
            if isinstance(e, (KeyboardInterrupt, SystemExit, trio.Cancelled, _Hang)):
                raise
            res["raised"] = [_exc_kind(e), _tq(trio.current_time())]
        clock.on = False

    for t, _ in case["env"]:
        assert F(float(un(t))) == un(t), "time not dyadic"

    fired = []

    def on_alarm(signum, frame):
        fired.append(1)
        raise _Hang()
    old = signal.signal(signal.SIGALRM, on_alarm)
    # repeating: a single exception may land where it is swallowed (a __del__, an except clause)
    signal.setitimer(signal.ITIMER_REAL, HANG_SECONDS if not _hangs else 3, 0.2)
    try:
        trio.run(main, clock=trio.testing.MockClock(autojump_threshold=0))
    except BaseException:
        if not fired:
            raise
        # virtual time stopped advancing: an iteration without (or with a zero) sleep
        _hangs.append(1)
        res["raised"] = ["hang", "-1/1"]
    finally:
        signal.setitimer(signal.ITIMER_REAL, 0)
        signal.signal(signal.SIGALRM, old)
    recs = _records(log)
    if res["raised"]:       # what happened in the wake that raised is reported apart (the model has no record for it)
        res["at_raise"] = [r for r in recs if r[0] == res["raised"][1]]
        recs = [r for r in recs if r[0] != res["raised"][1]]
    res["records"] = recs
    res["final"] = final()
    return res


# ------------------------------------------------------------------ oracle
def _ceil(x):
    return -((-x.numerator) // x.denominator)


def oracle(case, res):
    if "harness_error" in res:
        return [(None, "harness error: " + res["harness_error"])]
    v = []
    svc = case["svc"]
    I, T = un(case["itv"]), un(case["T"])
    recs = [(un(t), ef) for t, ef in res["records"]]
    env = [(un(t), acts) for t, acts in case["env"] if un(t) <= T]
    out_of_domain = svc == "stepwise" and (un(case["pool"][0]) < 0 or any(
        a[0] == "state" and un(a[1]) < 0 for _, acts in env for a in acts))
    if res["raised"]:
        if not (out_of_domain and res["raised"][0] == "norule") or any(ef for _, ef in res.get("at_raise", [])):
            v.append((None, "raised: run() of %s raised %s at t=%s" % (svc, res["raised"][0], res["raised"][1])))
        return v
    bad = [x for _, ef in recs for e in ef for x in ([e[1]] if e[0] == "w" else [e[3]] if e[0] in ("rule", "reg") else [])
           if x.startswith("bad")]
    if bad:
        return [(None, "non-number: %s" % bad[:2])]
    # ---- periodicity: the service acts at t0 + k*I (FactoryPool: (k+1)*I), k = 0, 1, ..., and at no other time
    first = 1 if svc == "factory" else 0
    want = []
    k = first
    while k * I <= T:
        want.append(k * I)
        k += 1
    got = [t for t, _ in recs]
    if got != want:
        extra = [t for t in got if t not in want]
        missing = [t for t in want if t not in got]
        v.append((None, "period: %s acted at %s%s, expected one step at each of %d times k*%s; missing %s, unexpected %s" % (
            svc, [str(t) for t in got[:6]], "..." if len(got) > 6 else "", len(want), I,
            [str(t) for t in missing[:4]], [str(t) for t in extra[:4]])))
        return v

    def env_values(kind, idx, t, strict):
        """last value of an environment action of `kind` at a time < t (strict) or <= t"""
        last = None
        for te, acts in env:
            if te < t or (not strict and te == t):
                for a in acts:
                    if a[0] == kind:
                        last = un(a[idx])
        return last

    if svc == "linear":
        lo, hi, rate, _ = [un(x) for x in case["ctl"]["args"]]
        outside = any(a[0] == "demand" for _, acts in env for a in acts)
        d = un(case["pool"][1])
        ds = [d]                # demand before the first wake, then after every wake
        for t, ef in recs:
            ws = [un(e[1]) for e in ef if e[0] == "w"]
            if len(ws) > 1 or any(e[0] != "w" for e in ef):
                v.append((None, "linear step: %d writes / foreign effects in one step at t=%s" % (len(ws), t)))
            if ws and not outside:
                if abs(ws[0] - d) != rate * I:
                    v.append((None, "linear amount: step at t=%s changed demand by %s, rate*interval = %s" % (t, ws[0] - d, rate * I)))
                d = ws[0]
            ds.append(d)
        if not outside:     # over any span [a, b] (a just before wake i, b = wake j): |change| <= rate * ((b - a) + interval)
            done = False
            for i in range(len(recs)):
                for j in range(i, len(recs)):
                    if abs(ds[j + 1] - ds[i]) > rate * ((recs[j][0] - recs[i][0]) + I):
                        v.append((None, "linear rate bound: demand moved %s over [%s, %s] > rate*(span+interval)" % (
                            ds[j + 1] - ds[i], recs[i][0], recs[j][0])))
                        done = True
                        break
                if done:
                    break
    elif svc == "relative":
        for t, ef in recs:
            if len(ef) != 1 or ef[0][0] != "w":
                v.append((None, "relative step: effects %s at t=%s, expected exactly one write" % (ef, t)))
    elif svc in ("stepwise", "switch"):
        kind = "rule" if svc == "stepwise" else "reg"
        for t, ef in recs:
            calls = [e for e in ef if e[0] in ("rule", "reg")]
            if len(calls) != 1 or calls[0][0] != kind or not calls[0][2] or un(calls[0][3]) != I:
                v.append((None, "%s step: calls %s at t=%s, expected exactly one %s call on the target with interval %s" % (
                    svc, calls, t, kind, I)))
    elif svc == "buffer":
        init = un(case["pool"][1])
        tg = {init}             # possible values of target.demand (ties with outside writes are ambiguous)
        k = 0
        for t, ef in recs:
            while k < len(env) and env[k][0] < t:       # outside writes to the target before this boundary
                for a in env[k][1]:
                    if a[0] == "demand":
                        tg = {un(a[1])}
                k += 1
            ws = [un(e[1]) for e in ef if e[0] == "w"]
            if len(ws) > 1 or any(e[0] != "w" for e in ef):
                v.append((None, "buffer flush: effects %s at boundary t=%s" % (ef, t)))
            tied = [un(x[1]) for te, acts in env if te == t for x in acts if x[0] == "demand"]
            a = env_values("bwrite", 1, t, True)
            b = env_values("bwrite", 1, t, False)
            ok = {init if a is None else a, init if b is None else b}
            after = {ws[-1]} if ws else set(tg)
            # after every boundary: target.demand = the value most recently written to the buffer
            if not tied and not (after & ok):
                v.append((None, "buffer boundary: after boundary t=%s target.demand=%s, last written to the buffer %s" % (
                    t, sorted(after), sorted(ok))))
                break
            if ws and not tied and not (set(ws) & ok):
                v.append((None, "buffer value: boundary t=%s forwarded %s, last written to the buffer %s" % (t, ws, sorted(ok))))
                break
            tg = after | set(tied[-1:])
            while k < len(env) and env[k][0] <= t:
                k += 1
    elif svc == "factory":
        q = un(case["q"])
        have = q * case["n0"]
        init = have
        for t, ef in recs:
            n = sum(1 for e in ef if e[0] == "spawn")
            a = env_values("fdemand", 1, t, True)
            b = env_values("fdemand", 1, t, False)
            oks = set()
            for dmd in (init if a is None else a, init if b is None else b):
                miss = dmd - have
                oks.add(_ceil(miss / q) if miss > 0 else 0)
            if n not in oks:
                v.append((None, "factory adjust: t=%s spawned %d children, expected %s" % (t, n, sorted(oks))))
                break
            have += n * q
    return v


def nontrivial(case, res):
    return not res.get("raised") and len(res.get("records", [])) >= 2


# ------------------------------------------------------------------ Coq printing
def _penv(a):
    if a[0] == "state":
        return "(PState %s %s %s)" % tuple(cQ(un(x)) for x in a[1:4])
    return "(PDemand %s)" % cQ(un(a[1]))


def _xenv(a):
    if a[0] in ("state", "demand"):
        return "(XP %s)" % _penv(a)
    if a[0] == "bwrite":
        return "(XB %s)" % cQ(un(a[1]))
    if a[0] == "fdemand":
        return "(XF %s)" % cQ(un(a[1]))
    raise ValueError(a)


def tie_groups(case):
    """environment groups whose time is a wake-up time k*I: numbered 0.. in order"""
    I = un(case["itv"])
    ids, n = {}, 0
    for t, _ in case["env"]:
        if (un(t) / I).denominator == 1 and un(t) <= un(case["T"]):
            ids[t] = n
            n += 1
    return ids


def coq_case(case, res):
    svc = case["svc"]
    if "harness_error" in res:
        res = {"records": [], "raised": ["other", "-1/1"], "final": []}
    if svc == "buffer":
        s = "(VBuffer %s)" % cQ(un(case["itv"]))
    elif svc == "factory":
        s = "(VFactory %s %s %s)" % (cQ(un(case["q"])), cQ(un(case["itv"])), cnat(case["n0"]))
    else:
        tbl = case["ctl"]["table"]
        s = "(VCtl %s %s)" % (c08._ctor(case["ctl"]), clist(c08._beh(b) for b in tbl) if tbl else "(@nil beh)")
    ties = tie_groups(case)
    env = []
    for t, acts in case["env"]:
        for a in acts:
            env.append("(mkEact %s %s %s)" % (cQ(un(t)), cnat(ties.get(t, 0)), _xenv(a)))
    recs = res["records"]
    if svc == "factory":
        log = "(@nil (Q * list effect))"
        spawns = clist("(%s, %s)" % (cQ(un(t)), cnat(sum(1 for e in ef if e[0] == "spawn"))) for t, ef in recs) \
            if recs else "(@nil (Q * nat))"
    else:
        log = clist("(%s, %s)" % (cQ(un(t)), clist(c08._effect(e) for e in ef) if ef else "(@nil effect)") for t, ef in recs) \
            if recs else "(@nil (Q * list effect))"
        spawns = "(@nil (Q * nat))"
    if res["raised"] is None:
        raised = "None"
    elif res["raised"][0] == "norule":
        raised = "(Some %s)" % cQ(un(res["raised"][1]))
    else:
        raised = "(Some %s)" % cQ(-1)
    final = clist(c08._qq(x) for x in res["final"]) if res["final"] else "(@nil Q)"
    return "(mkCase %s (mkPool %s) %s %s %s %s %s %s %s)" % (
        s, " ".join(cQ(un(x)) for x in case["pool"]), clist(env) if env else "(@nil (@eact xenv))",
        cQ(un(case["T"])), cnat(len(ties)), log, spawns, raised, final)


def distribution(results):
    d = {"services": {}, "wakes": 0, "tie_groups": 0, "env_groups": 0, "raised": 0, "max_periods": 0, "writes": 0}
    for (c, o, _v) in results:
        d["services"][c["svc"]] = d["services"].get(c["svc"], 0) + 1
        d["env_groups"] += len(c["env"])
        d["tie_groups"] += len(tie_groups(c))
        if "records" in o:
            d["wakes"] += len(o["records"])
            d["max_periods"] = max(d["max_periods"], len(o["records"]))
            d["writes"] += sum(1 for _, ef in o["records"] for e in ef if e[0] == "w")
            d["raised"] += 1 if o["raised"] else 0
    return d


def shrink(case, still_fails):
    cur = case
    changed = True
    while changed:
        changed = False
        for i in range(len(cur["env"])):
            cand = dict(cur, env=cur["env"][:i] + cur["env"][i + 1:])
            try:
                if still_fails(cand):
                    cur, changed = cand, True
                    break
            except Exception:
                pass
    return cur


# ======================================================================================================
# Oracle-only stream (added by the lead after the seeded-change round): intervals that are NOT exactly
# representable in binary64 (0.1, 0.3, 0.7, 1.1, 7/3) and a FactoryPool whose supply equals its demand
# exactly at a boundary.  The Coq model is ideal arithmetic over exact rationals, so these cases are not
# replayed through it (coq_case returns None); the python oracle restates the property on the timed log:
# one step at the start, then consecutive steps exactly one interval of virtual time apart.
# ======================================================================================================
FLOAT_ITVS = [0.1, 0.3, 0.7, 1.1, 7 / 3, 0.05]
_base = {"gen_cases": gen_cases, "run_impl": run_impl, "oracle": oracle, "nontrivial": nontrivial,
         "coq_case": coq_case, "distribution": distribution, "shrink": shrink}


class _Stop(BaseException):
    pass


def _fperiod_cases(rng, k):
    yield {"svc": "fperiod", "which": "factory_equal", "itv": 1.0, "nper": 4, "env": []}
    for i in range(k):
        yield {"svc": "fperiod", "which": ["linear", "relative", "switch", "stepwise"][i % 4],
               "itv": rng.choice(FLOAT_ITVS), "nper": rng.choice([12, 40, 120]), "env": [],
               "rerun": i % 3 != 2}      # the same service object is stopped and run again (a restarted runtime)


def gen_cases(rng, n):                                      # noqa: F811
    for c in _base["gen_cases"](rng, n):
        yield c
    for c in _fperiod_cases(rng, max(8, n // 12)):
        yield c


def _run_fperiod(case):
    import trio
    import trio.testing
    from cobald.interfaces import Pool, Controller
    times = []
    itv, nper = case["itv"], case["nper"]
    limit = 20 * nper + 50

    class P(Pool):
        supply, utilisation, allocation = 10.0, 0.0, 0.0      # utilisation below every threshold: a write each step

        def __init__(self):
            self._d = 1000.0

        @property
        def demand(self):
            return self._d

        @demand.setter
        def demand(self, v):
            times.append(trio.current_time())
            self._d = v
            if len(times) > limit:
                raise _Stop()

    pool = P()
    which = case["which"]
    if which == "factory_equal":
        from cobald.composite.factory import FactoryPool
        made = []

        class Child(Pool):
            def __init__(self, d):
                self._s, self._d = d, d
            supply = property(lambda self: self._s)
            utilisation = property(lambda self: 1.0)
            allocation = property(lambda self: 1.0)
            demand = property(lambda self: self._d, lambda self, v: setattr(self, "_d", v))

        def factory():
            made.append(trio.current_time())
            return Child(1.0)
        kids = [Child(1.0), Child(1.0), Child(1.0)]
        svc = FactoryPool(*kids, factory=factory, interval=itv)
        svc.demand = 3.0

        async def env():
            await trio.sleep(itv / 2)
            kids[0].demand = 0        # a child disables itself but keeps reporting its supply
    else:
        if which == "linear":
            from cobald.controller.linear import LinearController
            svc = LinearController(pool, low_utilisation=0.5, high_allocation=0.5, rate=1, interval=itv)
        elif which == "relative":
            from cobald.controller.relative_supply import RelativeSupplyController
            svc = RelativeSupplyController(pool, interval=itv)
        elif which == "stepwise":
            from cobald.controller.stepwise import Stepwise
            svc = Stepwise(pool, lambda p, i: p.demand - 1, interval=itv)
        else:
            from cobald.controller.switch import DemandSwitch
            from cobald.controller.linear import LinearController
            svc = DemandSwitch(pool, LinearController(None, rate=1), interval=itv)

        async def env():
            return None
    T = nper * itv + itv / 2
    out = {"which": which}

    async def main():
        t0 = trio.current_time()
        out["t0"] = t0
        with trio.move_on_after(T):
            async with trio.open_nursery() as n:
                n.start_soon(env)
                await svc.run()
        if case.get("rerun"):
            await trio.sleep(itv * 0.3)
            out["t1"] = trio.current_time()
            out["mark"] = len(times)
            with trio.move_on_after(T):
                await svc.run()
    try:
        trio.run(main, clock=trio.testing.MockClock(autojump_threshold=0))
    except _Stop:
        out["runaway"] = True
    except BaseException as e:  # noqa
        def leaves(x):
            return [y for z in x.exceptions for y in leaves(z)] if isinstance(x, BaseExceptionGroup) else [x]
        if any(isinstance(x, _Stop) for x in leaves(e)):
            out["runaway"] = True
        else:
            out["raised"] = "%s: %s" % (type(e).__name__, e)
    if which == "factory_equal":
        out["made"] = [t - out.get("t0", 0) for t in made]
        out["hatchery"] = sorted(c.demand for c in svc._hatchery)
    out["times"] = [t - out.get("t0", 0) for t in times[:out.get("mark", len(times))]]
    if "mark" in out:
        out["times2"] = [t - out["t1"] for t in times[out["mark"]:]]
    return out


def _oracle_fperiod(case, res):
    if "harness_error" in res:
        return [(None, "harness error: " + res["harness_error"])]
    if res.get("raised"):
        return [(None, "raises: periodic service raised on a well-behaved pool: %s" % res["raised"])]
    itv, nper = case["itv"], case["nper"]
    if case["which"] == "factory_equal":
        v = []
        if not any(abs(t - itv) < 1e-9 for t in res["made"]):
            v.append((None, "period: FactoryPool made no adjustment at the first boundary although a child had "
                            "disabled itself (supply == demand there); factory calls at %s" % res["made"]))
        return v
    ts = res["times"]
    if res.get("runaway"):
        return [(None, "period: %s controller with interval %r performed %d steps in %d periods (spinning)"
                 % (case["which"], itv, len(ts), nper))]
    v = []
    if not ts or abs(ts[0]) > 1e-12:
        v.append((None, "first step: %s did not regulate at its start (first step at %r)" % (case["which"], ts[:1])))
    for a, b in zip(ts, ts[1:]):
        if abs((b - a) - itv) > 1e-9 * max(1.0, itv):
            v.append((None, "period: %s steps %r apart with interval %r (at t=%r)" % (case["which"], b - a, itv, a)))
            break
    if abs(len(ts) - (nper + 1)) > 1:
        v.append((None, "count: %s made %d steps in %d periods of %r" % (case["which"], len(ts), nper, itv)))
    if case.get("rerun") and not v:
        t2 = res.get("times2")
        if t2 is None:
            v.append((None, "rerun: %s was not run a second time (%s)" % (case["which"], res.get("raised"))))
        else:
            if not t2 or abs(t2[0]) > 1e-12:
                v.append((None, "rerun first step: %s, run again after a stop, did not regulate at its start (%r)" % (case["which"], t2[:1])))
            for a, b in zip(t2, t2[1:]):
                if abs((b - a) - itv) > 1e-9 * max(1.0, itv):
                    v.append((None, "rerun period: %s steps %r apart with interval %r in its second run" % (case["which"], b - a, itv)))
                    break
            if abs(len(t2) - (nper + 1)) > 1:
                v.append((None, "rerun count: %s made %d steps in the %d periods of its second run" % (case["which"], len(t2), nper)))
    return v


def run_impl(case):                                         # noqa: F811
    return _run_fperiod(case) if case["svc"] == "fperiod" else _base["run_impl"](case)


def oracle(case, res):                                      # noqa: F811
    return _oracle_fperiod(case, res) if case["svc"] == "fperiod" else _base["oracle"](case, res)


def nontrivial(case, res):                                  # noqa: F811
    return len(res.get("times", [])) >= 2 if case["svc"] == "fperiod" else _base["nontrivial"](case, res)


def coq_case(case, res):                                    # noqa: F811
    return None if case["svc"] == "fperiod" else _base["coq_case"](case, res)


def distribution(results):                                  # noqa: F811
    d = _base["distribution"]([r for r in results if r[0]["svc"] != "fperiod"])
    d["float_interval_stream"] = sum(1 for r in results if r[0]["svc"] == "fperiod")
    return d


def shrink(case, still_fails):                              # noqa: F811
    return case if case["svc"] == "fperiod" else _base["shrink"](case, still_fails)


# ------------------------------------------------------------------ translator tie
TIE_TARGETS = ["props/C09_tie.vo"]


def regen(chk):
    """regenerate gen/Gen_services.v from the six current run() methods"""
    from py2coq import units
    res = units.regen(common.REPO, os.path.join(common.COQDIR, "gen"), ["Gen_services.v"])
    chk.coverage["translator"] = res
    bad = [v for v in res.values() if v != "ok"]
    if bad:
        raise RuntimeError(bad[0])
