"""C07 — composite pools: generators, implementation runner, oracle, Coq case printer."""
from fractions import Fraction as F
from .common import cQ, clist, cnat

ID = "C07"
COQ_TARGETS = ["props/C07.vo"]
CORR_TARGETS = ["corr/C07Corr.vo"]
CORR_PRELUDE = "From Cobald Require Import kit.QKit kit.Corr model.Composite corr.C07Corr."
CORR_CHECK = "C07Corr.check"
CORR_TYPE = "C07Corr.case"
N_QUICK, N_THOROUGH = 600, 6000
RULE = ("histories of 0-12 operations (demand writes, child state changes, outside demand changes, "
        "children added/removed) on WeightedComposite (3 weight attributes) / UniformComposite with 0-8 "
        "recording children holding exact Fractions; boundary corpus first (all-zero weights, single "
        "non-zero weight, equal weights, 2^-40 and 2^40 magnitudes, no children), then seeded random. "
        "non-trivial = at least one demand write reaches >= 2 children")
TRUSTED_BASE = [
    "Coq 8.16.1 kernel + vm_compute (bytecode VM) for evaluating the model on the cases",
    "harness/c07.py: recording child pools, canonicalisation of numbers to exact rationals",
    "model/Composite.v is hand-written; tied to src/cobald/composite/{weighted,uniform}.py by the correspondence run only",
    "ideal arithmetic: binary64 rounding is not modelled (cases use exact Fractions)",
]
ASSUMPTIONS = [
    "children are plain pools: their supply/utilisation/allocation do not change when their demand is written",
    "python Fraction/int arithmetic is exact; float results 0.0/1.0 of the fallbacks are exact",
    "property quantifies over non-negative weights and D >= 0; conservation is proved without sign conditions",
]

KINDS = ["supply", "utilisation", "allocation", "uniform"]


def fr(x):
    x = F(x)
    return "%d/%d" % (x.numerator, x.denominator)


def un(s):
    return F(s)


# ------------------------------------------------------------------ generation
def rnd_q(rng, kind="weight"):
    r = rng.random()
    if r < 0.25:
        return F(0)
    if r < 0.45:
        return F(rng.randint(1, 9))
    if r < 0.55:
        return F(1, 2 ** 40) * rng.randint(1, 5)
    if r < 0.65:
        return F(2 ** 40) * rng.randint(1, 5)
    return F(rng.randint(0, 60), rng.choice([1, 2, 3, 4, 5, 7, 8, 16]))


def rnd_fit(rng, over=False):
    r = rng.random()
    if over:      # overbooked pools: every child above 1 (fitness values are non-negative, not bounded by 1)
        return rng.choice([F(5, 4), F(3, 2), F(2), F(17, 16), F(100), F(2 ** 40)])
    if r < 0.25:
        return F(0)
    if r < 0.4:
        return F(1)
    if r < 0.5:
        return rng.choice([F(5, 4), F(3), F(33, 16), F(1000)])
    return F(rng.randint(0, 16), 16)


def rnd_child(rng):
    return [fr(rnd_q(rng)), fr(rnd_fit(rng)), fr(rnd_fit(rng)), fr(rnd_q(rng))]


def corpus():
    z = ["0/1", "0/1", "0/1", "0/1"]
    yield {"kind": "supply", "children": [], "ops": [["set", "5/1"]]}
    yield {"kind": "uniform", "children": [], "ops": [["set", "5/1"]]}
    for k in KINDS:
        yield {"kind": k, "children": [z, z, z], "ops": [["set", "9/1"], ["set", "0/1"]]}
        yield {"kind": k, "children": [["2/1", "1/2", "3/4", "0/1"], ["0/1", "1/1", "1/1", "5/1"], ["6/1", "1/4", "1/2", "1/1"]],
               "ops": [["set", "12/1"], ["state", 1, "3/1", "0/1", "0/1"], ["set", "7/3"], ["del", 0], ["set", "1/1"]]}
        yield {"kind": k, "children": [["0/1", "0/1", "0/1", "0/1"], ["5/1", "0/1", "0/1", "0/1"]], "ops": [["set", "10/1"]]}
        yield {"kind": k, "children": [["3/1", "1/3", "1/3", "1/1"]] * 4, "ops": [["set", "10/1"], ["add", ["3/1", "1/3", "1/3", "2/1"]], ["set", "10/1"]]}
        yield {"kind": k, "children": [["1/1099511627776", "1/1", "1/1", "0/1"], ["1099511627776/1", "1/2", "1/2", "0/1"]], "ops": [["set", "1000/1"]]}
        yield {"kind": k, "children": [["2/1", "1/2", "3/4", "0/1"], ["3/1", "1/1", "1/4", "5/1"], ["6/1", "1/4", "1/2", "1/1"]],
               "sites": ["a", "a", "b", "a"], "ops": [["set", "11/1"], ["add", ["1/1", "1/1", "1/1", "0/1"]], ["set", "6/1"]]}
        yield {"kind": k, "children": [["4/1", "1/2", "1/2", "1/1"]], "ops": [["del", 0], ["set", "3/1"], ["add", ["1/1", "1/1", "0/1", "0/1"]], ["set", "4/1"]]}


FLOAT_SCALES = [1e-300, 1e-160, 1e-40, 1e-5, 1.0, 1e5, 1e40, 1e150]


def gen_float_case(rng):
    """oracle-only stream: binary64 inputs of tiny and huge magnitudes (not modelled: ideal arithmetic).
    Magnitudes are chosen so that D * weight stays well inside the normal float range."""
    kind = rng.choice(KINDS)
    n = rng.choice([1, 2, 3, 5, 8])
    ws = rng.choice(FLOAT_SCALES)
    lim = [d for d in FLOAT_SCALES if 1e-280 < d * ws < 1e280 and 1e-280 < d < 1e280]
    D = rng.choice(lim) * rng.choice([1.0, 3.0, 7.5])
    children = []
    for _ in range(n):
        w = ws * rng.choice([0.0, 1.0, 1.0, 2.0, 3.5]) if rng.random() < 0.9 else 0.0
        fit = rng.choice([0.0, 0.25, 0.5, 1.0])
        spec = {"supply": [w, fit, fit], "utilisation": [1.0, w, fit], "allocation": [1.0, fit, w], "uniform": [w, fit, fit]}[kind]
        children.append(spec + [0.0])
    return {"float": True, "kind": kind, "children": children, "ops": [["set", D]]}


def gen_cases(rng, n):
    out = list(corpus())
    for c in out:
        yield c
    for _ in range(max(40, n // 8)):
        yield gen_float_case(rng)
    for _ in range(max(0, n - len(out))):
        kind = rng.choice(KINDS)
        nch = rng.choice([0, 1, 1, 2, 2, 3, 3, 4, 5, 6, 8])
        mode = rng.random()
        children = [rnd_child(rng) for _ in range(nch)]
        if mode < 0.15:      # all weights zero
            children = [["0/1", "0/1", "0/1", c[3]] for c in children]
        elif mode < 0.25 and nch:    # single non-zero weight
            j = rng.randrange(nch)
            children = [c if i == j else ["0/1", "0/1", "0/1", c[3]] for i, c in enumerate(children)]
        elif mode < 0.35 and nch:    # equal weights
            children = [children[0][:3] + [c[3]] for c in children]
        elif mode < 0.45 and nch:    # every child overbooked: utilisation and allocation above 1 throughout
            children = [[c[0], fr(rnd_fit(rng, True)), fr(rnd_fit(rng, True)), c[3]] for c in children]
        ops = []
        cur = nch
        for _ in range(rng.randint(1, 12)):
            r = rng.random()
            if r < 0.45 or cur == 0 and r < 0.7:
                ops.append(["set", fr(rnd_q(rng))])
            elif r < 0.6 and cur:
                ops.append(["state", rng.randrange(cur), fr(rnd_q(rng)), fr(rnd_fit(rng)), fr(rnd_fit(rng))])
            elif r < 0.7 and cur:
                ops.append(["cdemand", rng.randrange(cur), fr(rnd_q(rng))])
            elif r < 0.85:
                ops.append(["add", rnd_child(rng)])
                cur += 1
            elif cur:
                ops.append(["del", rng.randrange(cur)])
                cur -= 1
        if not ops or ops[-1][0] != "set":
            ops.append(["set", fr(rnd_q(rng))])
        case = {"kind": kind, "children": children, "ops": ops}
        if rng.random() < 0.2:
            # pools that compare and hash equal (identified by site): some children are equal twins
            case["sites"] = [rng.choice("abc") for _ in range(rng.randint(2, 6))]
        yield case


# ------------------------------------------------------------------ implementation
def _mk_child(spec, site=None):
    """`site`: pools identified by a site name compare (and hash) equal when their sites agree — children
    are members of a list, equal or not: each is a child of its own"""
    from cobald.interfaces import Pool

    class Child(Pool):
        supply = utilisation = allocation = None

        def __init__(self, s, u, a, d):
            self._s, self._u, self._a, self._d = s, u, a, d
            self._site = site

        def __eq__(self, other):
            if self._site is None or not isinstance(other, Pool):
                return self is other
            return getattr(other, "_site", None) == self._site

        def __hash__(self):
            return id(self) if self._site is None else hash(self._site)

        supply = property(lambda self: self._s)
        utilisation = property(lambda self: self._u)
        allocation = property(lambda self: self._a)

        @property
        def demand(self):
            return self._d

        @demand.setter
        def demand(self, v):
            self._d = v

    return Child(*[un(x) for x in spec[:4]])


def _observe(comp):
    def q(x):
        if isinstance(x, float):
            if x != x or x in (float("inf"), float("-inf")):
                return "nonfinite:%r" % x
        return fr(F(x))
    return {"demand": q(comp.demand), "supply": q(comp.supply), "util": q(comp.utilisation),
            "alloc": q(comp.allocation), "children": [q(c.demand) for c in comp.children]}


def _run_float(case):
    from cobald.composite.weighted import WeightedComposite
    from cobald.composite.uniform import UniformComposite
    from cobald.interfaces import Pool

    class FChild(Pool):
        def __init__(self, s, u, a, d):
            self.s, self.u, self.a, self.d = s, u, a, d
        supply = property(lambda self: self.s)
        utilisation = property(lambda self: self.u)
        allocation = property(lambda self: self.a)
        demand = property(lambda self: self.d, lambda self, v: setattr(self, "d", v))

    children = [FChild(*c) for c in case["children"]]
    try:
        comp = UniformComposite(*children) if case["kind"] == "uniform" else WeightedComposite(*children, weight=case["kind"])
        comp.demand = case["ops"][0][1]
        return {"float_obs": {"demand": comp.demand, "children": [c.demand for c in children]}}
    except Exception as e:
        return {"raised": "%s: %s" % (type(e).__name__, e)}


def _oracle_float(case, res):
    if "raised" in res:
        return [(None, "composite raised: " + res["raised"])]
    import math
    D = case["ops"][0][1]
    shares = res["float_obs"]["children"]
    v = []
    if not all(isinstance(x, (int, float)) and math.isfinite(x) for x in shares):
        return [(None, "float-range: non-finite share %s for D=%r children=%s" % (shares, D, case["children"]))]
    widx = {"supply": 0, "utilisation": 1, "allocation": 2}.get(case["kind"])
    ws = [c[widx] for c in case["children"]] if widx is not None else [1.0] * len(shares)
    tot = sum(ws)
    if abs(sum(shares) - D) > 1e-9 * abs(D):
        v.append((None, "float-conservation: sum(children)=%r D=%r weights=%s" % (sum(shares), D, ws)))
    for i, sh in enumerate(shares):
        want = D * ws[i] / tot if tot > 0 else D / len(shares)
        if abs(sh - want) > 1e-9 * abs(D):
            v.append((None, "float-proportionality: child %d got %r want %r" % (i, sh, want)))
        if not (-1e-9 * abs(D) <= sh <= D * (1 + 1e-9)):
            v.append((None, "float-share-bounds: child %d share %r D %r" % (i, sh, D)))
    if res["float_obs"]["demand"] != D:
        v.append((None, "float-read-back: %r != %r" % (res["float_obs"]["demand"], D)))
    return v


def run_impl(case):
    if case.get("float"):
        return _run_float(case)
    from cobald.composite.weighted import WeightedComposite
    from cobald.composite.uniform import UniformComposite
    sites = case.get("sites")
    nsite = [0]

    def site():
        nsite[0] += 1
        return None if not sites else sites[(nsite[0] - 1) % len(sites)]
    children = [_mk_child(s, site()) for s in case["children"]]
    try:
        if case["kind"] == "uniform":
            comp = UniformComposite(*children)
        else:
            comp = WeightedComposite(*children, weight=case["kind"])
        obs = [_observe(comp)]
        for op in case["ops"]:
            if op[0] == "set":
                comp.demand = un(op[1])
            elif op[0] == "state":
                c = comp.children[op[1]]
                c._s, c._u, c._a = un(op[2]), un(op[3]), un(op[4])
            elif op[0] == "cdemand":
                comp.children[op[1]].demand = un(op[2])
            elif op[0] == "add":
                comp.children.append(_mk_child(op[1], site()))
            elif op[0] == "del":
                del comp.children[op[1]]
            obs.append(_observe(comp))
        return {"obs": obs}
    except Exception as e:
        return {"raised": "%s: %s" % (type(e).__name__, e)}


# ------------------------------------------------------------------ oracle (the property, on implementation observations)
def oracle(case, res):
    v = []
    if case.get("float") and "harness_error" not in res:
        return _oracle_float(case, res)
    if "harness_error" in res:
        return [(None, "harness error: " + res["harness_error"])]
    if "raised" in res:
        return [(None, "composite raised: " + res["raised"])]
    kind = case["kind"]
    cs = [[un(x) for x in c] for c in case["children"]]
    obs = res["obs"]
    last_written = sum(c[3] for c in cs)
    widx = {"supply": 0, "utilisation": 1, "allocation": 2}.get(kind)
    for step, (op, o) in enumerate(zip([None] + case["ops"], obs)):
        if any(isinstance(x, str) and x.startswith("nonfinite") for x in [o["demand"], o["supply"], o["util"], o["alloc"]] + o["children"]):
            v.append((None, "non-finite value observed: step %d %s" % (step, o)))
            continue
        if op is not None:
            if op[0] == "set":
                last_written = un(op[1])
            elif op[0] == "state":
                cs[op[1]][0:3] = [un(op[2]), un(op[3]), un(op[4])]
            elif op[0] == "cdemand":
                cs[op[1]][3] = un(op[2])
            elif op[0] == "add":
                cs.append([un(x) for x in op[1]])
            elif op[0] == "del":
                del cs[op[1]]
        od = [un(x) for x in o["children"]]
        n = len(cs)
        if len(od) != n:
            v.append((None, "child count: step %d" % step))
            continue
        if op is not None and op[0] == "set":
            D = un(op[1])
            weights = [c[widx] for c in cs] if widx is not None else [F(1)] * n
            if n >= 1 and D >= 0 and all(w >= 0 for w in weights):
                if sum(od) != D:
                    v.append((None, "conservation: step %d sum(children)=%s D=%s" % (step, sum(od), D)))
                tot = sum(weights)
                for i, d in enumerate(od):
                    want = D * weights[i] / tot if tot > 0 else D / n
                    if d != want:
                        v.append((None, "proportionality: step %d child %d got %s want %s" % (step, i, d, want)))
                    if not (0 <= d <= D):
                        v.append((None, "share bounds: step %d child %d share %s D %s" % (step, i, d, D)))
            for i, d in enumerate(od):
                cs[i][3] = d
        else:
            if od != [c[3] for c in cs]:
                v.append((None, "child demand changed without a write: step %d" % step))
        if un(o["demand"]) != last_written:
            v.append((None, "read-back: step %d demand %s last written %s" % (step, o["demand"], last_written)))
        if un(o["supply"]) != sum(c[0] for c in cs):
            v.append((None, "supply is not the sum: step %d" % step))
        for name, fi in (("util", 1), ("alloc", 2)):
            val = un(o[name])
            fs = [c[fi] for c in cs]
            if kind == "uniform":
                if n == 0:
                    if val != 1:
                        v.append((None, "fallback 1.0 without children: step %d %s=%s" % (step, name, val)))
                elif not (min(fs) <= val <= max(fs)):
                    v.append((None, "convexity: step %d %s=%s outside [%s,%s]" % (step, name, val, min(fs), max(fs))))
            else:
                ws = [c[widx] for c in cs]
                if all(w >= 0 for w in ws):
                    tot = sum(ws)
                    if tot > 0:
                        if not (min(fs) <= val <= max(fs)):
                            v.append((None, "convexity: step %d %s=%s outside [%s,%s]" % (step, name, val, min(fs), max(fs))))
                    else:
                        want = 0 if sum(c[0] for c in cs) > 0 else 1
                        if val != want:
                            v.append((None, "fallback: step %d %s=%s want %s" % (step, name, val, want)))
    return v


def nontrivial(case, res):
    if case.get("float"):
        return len(case["children"]) >= 2
    return "obs" in res and any(op[0] == "set" for op in case["ops"]) and max(
        (len(o["children"]) for o in res["obs"]), default=0) >= 2


# ------------------------------------------------------------------ Coq printing
def _kind(k):
    return {"supply": "(Weighted WSupply)", "utilisation": "(Weighted WUtil)",
            "allocation": "(Weighted WAlloc)", "uniform": "Uniform"}[k]


def _child(c):
    return "(mkChild %s %s %s %s)" % tuple(cQ(un(x)) for x in c)


def _op(op):
    if op[0] == "set":
        return "(SetDemand %s)" % cQ(un(op[1]))
    if op[0] == "state":
        return "(ChildState %s %s %s %s)" % (cnat(op[1]), cQ(un(op[2])), cQ(un(op[3])), cQ(un(op[4])))
    if op[0] == "cdemand":
        return "(ChildDemand %s %s)" % (cnat(op[1]), cQ(un(op[2])))
    if op[0] == "add":
        return "(AddChild %s)" % _child(op[1])
    if op[0] == "del":
        return "(DelChild %s)" % cnat(op[1])
    raise ValueError(op)


def _obs(o):
    def q(x):
        return cQ(un(x)) if not x.startswith("nonfinite") else cQ(-777777)
    return "(mkObs %s %s %s %s %s)" % (q(o["demand"]), q(o["supply"]), q(o["util"]), q(o["alloc"]),
                                       clist(q(x) for x in o["children"]))


def coq_case(case, res):
    if case.get("float"):
        return None          # binary64 stream: judged by the oracle only (the model is ideal arithmetic)
    obs = res.get("obs", [])
    return "(mkCase %s %s %s %s)" % (_kind(case["kind"]), clist(_child(c) for c in case["children"]),
                                     clist(_op(o) for o in case["ops"]), clist(_obs(o) for o in obs))


def distribution(results):
    d = {"kinds": {}, "children_max": {}, "ops": {}, "zero_total_writes": 0}
    for (c, o, _v) in results:
        d["kinds"][c["kind"]] = d["kinds"].get(c["kind"], 0) + 1
        if c.get("float"):
            d["float_stream"] = d.get("float_stream", 0) + 1
            continue
        for op in c["ops"]:
            d["ops"][op[0]] = d["ops"].get(op[0], 0) + 1
        if "obs" in o:
            m = max(len(x["children"]) for x in o["obs"])
            d["children_max"][str(m)] = d["children_max"].get(str(m), 0) + 1
    return d


def shrink(case, still_fails):
    if case.get("float"):
        return case
    cur = case
    changed = True
    while changed:
        changed = False
        for i in range(len(cur["ops"])):
            cand = dict(cur, ops=cur["ops"][:i] + cur["ops"][i + 1:])
            try:
                if cand["ops"] and still_fails(cand):
                    cur, changed = cand, True
                    break
            except Exception:
                pass
    return cur


# ------------------------------------------------------------------ translator tie
TIE_TARGETS = ["props/C07_tie.vo"]


def regen(chk):
    """regenerate gen/Gen_composite.v from the current weighted.py / uniform.py"""
    import os
    from . import common
    from py2coq import units
    res = units.regen(common.REPO, os.path.join(common.COQDIR, "gen"), ["Gen_composite.v"])
    chk.coverage["translator"] = res
    bad = [v for v in res.values() if v != "ok"]
    if bad:
        raise RuntimeError(bad[0])
