"""C16 -- decorators are transparent except for what they are meant to change.

Real stacks of PoolDecorator / Logger / Standardiser / Buffer (depth 0-8, any order) over a recording
pool holding exact Fractions; histories of reads, demand writes and changes of the underlying pool;
a capturing logging.Handler on every logger name in use records (name, levelno, msg, args mapping,
target position) and the pool's demand at emission time.  Standardiser and Buffer are opaque for C16:
each real instance sits between a Probe (calls arriving, return values) and a Tap (what it does to its
target); the observed behaviour is handed to the model as a script, so that a change of THEIR demand
semantics (C06's business) can never raise a C16 alarm, while everything C16 claims around them
(transparency of supply/utilisation/allocation, Logger records above and below them) is still checked."""
import logging
import warnings
from fractions import Fraction as F

from .common import cQ, cN, clist, cnat, cstr

ID = "C16"
COQ_TARGETS = ["props/C16.vo"]
CORR_TARGETS = ["corr/C16Corr.vo"]
CORR_PRELUDE = "From Cobald Require Import kit.QKit kit.Corr model.Decorators corr.C16Corr."
CORR_CHECK = "C16Corr.check"
CORR_TYPE = "C16Corr.case"
N_QUICK, N_THOROUGH = 1500, 9000
RULE = ("stacks of depth 0-8 in random order of PoolDecorator / Logger (explicit or class-derived logger name, "
        "levels 1-99, templates: default, structured over documented fields, `consumption`, unknown names, `%%`, "
        "flags/width/precision/length modifiers, malformed specs, random character soup) / Standardiser "
        "(finite and infinite limits, granularity 1, 2, 5, 1/2, invalid parameters) / Buffer over a recording pool "
        "with exact Fractions; histories of 1-10 operations (read all four attributes, write demand, change the "
        "pool's supply/utilisation/allocation, change the pool's demand from outside); boundary corpus first. "
        "non-trivial = the stack was built with depth >= 2 and at least one write reached at least one Logger")
TRUSTED_BASE = [
    "Coq 8.16.1 kernel + vm_compute",
    "harness/c16.py: recording pool, capturing logging.Handler, canonicalisation of numbers to exact rationals",
    "model/Decorators.v is hand-written (incl. the transcription of CPython's `%` parser for a mapping operand); "
    "tied to _proxy.py / logger.py / standardiser.py / buffer.py and to CPython 3.12 by the correspondence run; the five "
    "accessors of PoolDecorator and Logger.demand getter / setter (record fields, log-before-write) additionally by "
    "translation (py2coq/units.py:gen_decorators, trusted, fail-closed; gen/Gen_decorators.v regenerated on every run, "
    "kit/DecoIR.v, props/C16_tie.v); Logger.__init__ / name / the template check by correspondence only",
    "ideal arithmetic (cases use Fractions; float infinities only as Standardiser defaults)",
    "python's logging delivers a record for every Logger.log call with level >= 1 on an enabled logger",
    "harness Probe/Tap pools around every Standardiser/Buffer instance forward all four attributes unchanged",
]
ASSUMPTIONS = [
    "the underlying pool is plain: its supply/utilisation/allocation do not change when its demand is written",
    "logging levels are positive integers (level <= 0 is never enabled by logging.Logger.isEnabledFor)",
    "format widths/precisions are small (huge ones raise 'width too big' / MemoryError in CPython; not modelled)",
    "Buffer.run (the trio service flushing the stored demand) is not started",
    "Standardiser/Buffer: only supply/utilisation/allocation transparency is claimed; their demand behaviour is "
    "observed, not predicted (an opaque level that raises, or writes its target from a getter/constructor, makes "
    "the case neutral)",
]

FIELDS = ["value", "demand", "supply", "utilisation", "allocation", "consumption", "target"]
FLOAT_FIELDS = FIELDS[:6]
CLASS_IDS = {"RecPool": 0, "PoolDecorator": 1, "Logger": 2, "Standardiser": 3, "Buffer": 4}
LEVELS = [1, 5, 10, 20, 25, 30, 40, 50, 99]


def fr(x):
    x = F(x)
    return "%d/%d" % (x.numerator, x.denominator)


def un(s):
    return F(s)


# ------------------------------------------------------------------ generation
def rnd_q(rng):
    r = rng.random()
    if r < 0.15:
        return F(0)
    if r < 0.5:
        return F(rng.randint(-3, 12))
    return F(rng.randint(-20, 80), rng.choice([2, 3, 4, 5, 8]))


def rnd_fit(rng):
    return F(rng.randint(0, 8), 8)


def simple_template(rng, allow_unknown=True):
    """structured template: literals without %, `%%`, `%(field)conv` with a conversion valid for the field"""
    segs = []
    for _ in range(rng.randint(1, 5)):
        r = rng.random()
        if r < 0.25:
            segs.append(["lit", rng.choice(["demand = ", " ", "[", "]", ", x=", "é", "(a)", "100"])])
        elif r < 0.33:
            segs.append(["pct"])
        else:
            rr = rng.random()
            if rr < 0.12 and allow_unknown:
                name = rng.choice(["foo", "Value", "demands", "", "value ", "targets", "supplY", "a(b)c", "consumptio"])
            elif rr < 0.2:
                name = "consumption"
            else:
                name = rng.choice(FIELDS)
            if name == "target" or name not in FIELDS:
                conv = rng.choice(["s", "r", "a", "10s", "-5r"])
            else:
                conv = rng.choice(["s", "s", "r", ".2f", "5.1f", "-08.3e", "d", "+.0f", " g", "ld", "hi", "#.1E", "05u"])
            segs.append(["field", name, conv])
    return segs


def render(segs):
    out = []
    for s in segs:
        if s[0] == "lit":
            out.append(s[1])
        elif s[0] == "pct":
            out.append("%%")
        else:
            out.append("%%(%s)%s" % (s[1], s[2]))
    return "".join(out)


MALFORMED = ["%", "%(value)", "%(value", "%(a(b)c)s", "%(target)d", "%(value)x", "%s", "%s %s", "%(value)%",
             "%(value)% %s", "%(value)*d", "%*d", "%(value)y", "%y", "%(value)hhd", "%(value).*f", "%(value)c",
             "%(value)10", "%(value)0", "%(value).", "%(value)-", "%(nope", "%(value)y%(nope)s", "%(nope)y", "%()s",
             "%(value)#x", "%5%", "%-%", "%.%", "%l%", "%s%5%", "%s%y", "%s%(value)y", "%(value)s%s",
             "%(value)%%s", "%(value)d%s", "%s%(value)s", "%(target)f", "%d", "%f", "%r", "%c", "%(value)Ls",
             "%(value)lld", "%(value) -+#05.3hd", "%(value)5-d", "%(value).5.3f", "%(value)5 d", "%(va)lue)s",
             "%((value))s", "%(value))s", "%(value)é", "%(consumption)s%(nope)s", "%(nope)s%(consumption)s",
             "%(consumption)y", "%(consumption)s %(consumption).1f", "%%%(value)s%%", "%%(value)s", "",
             "%(value)s%", "%(target)s %(target)r", "%(target)x", "%(demand)o", "%(supply)X", "%(value).s",
             "%(value).f", "%(value)0.0f", "%(value)00005d", "%(value)- s", "%(value)l", "%(value)h%"]
SOUP = list("%%%%(())sdfrxy.05- *lh") + ["value", "demand", "nope", "target", "consumption"]


def rnd_template(rng):
    r = rng.random()
    if r < 0.12:
        return {"kind": "default"}
    if r < 0.62:
        segs = simple_template(rng)
        return {"kind": "simple", "segs": segs, "text": render(segs)}
    if r < 0.85:
        return {"kind": "raw", "text": rng.choice(MALFORMED)}
    return {"kind": "raw", "text": "".join(rng.choice(SOUP) for _ in range(rng.randint(1, 8)))}


def rnd_std(rng, valid=True):
    lo = None if rng.random() < 0.4 else rnd_q(rng)
    hi = None if rng.random() < 0.4 else rnd_q(rng)
    if valid and lo is not None and hi is not None and lo > hi:
        lo, hi = hi, lo
    gran = rng.choice([F(1), F(1), F(1), F(2), F(5), F(1, 2)])
    backlog = None if rng.random() < 0.6 else F(rng.randint(1, 12), rng.choice([1, 2]))
    surplus = None if rng.random() < 0.6 else F(rng.randint(1, 12), rng.choice([1, 2]))
    if not valid:
        k = rng.randrange(4)
        if k == 0:
            lo, hi = F(5), F(2)
        elif k == 1:
            surplus = rng.choice([F(0), F(-1)])
        elif k == 2:
            backlog = rng.choice([F(0), F(-3, 2)])
        else:
            gran = rng.choice([F(0), F(-1)])
    return ["std"] + [None if x is None else fr(x) for x in (lo, hi)] + [fr(gran)] + \
           [None if x is None else fr(x) for x in (backlog, surplus)]


def rnd_spec(rng, bad_rate=0.06):
    r = rng.random()
    if r < 0.2:
        return ["plain"]
    if r < 0.6:
        t = rnd_template(rng)
        if rng.random() > 3 * bad_rate and t["kind"] != "default":
            # mostly constructible stacks: prefer valid structured templates
            segs = simple_template(rng, allow_unknown=False)
            t = {"kind": "simple", "segs": segs, "text": render(segs)}
        return ["logger", None if rng.random() < 0.3 else rng.randrange(4), rng.choice(LEVELS), t]
    if r < 0.82:
        return rnd_std(rng, valid=rng.random() > bad_rate)
    return ["buffer"]


def rnd_ops(rng):
    ops = []
    for _ in range(rng.randint(1, 10)):
        r = rng.random()
        if r < 0.3:
            ops.append(["read"])
        elif r < 0.7:
            ops.append(["write", fr(rnd_q(rng))])
        elif r < 0.85:
            ops.append(["pstate", fr(rnd_q(rng)), fr(rnd_fit(rng)), fr(rnd_fit(rng))])
        else:
            ops.append(["pdemand", fr(rnd_q(rng))])
    return ops


def _simple(text_fields):
    segs = [["field", n, c] for n, c in text_fields]
    return {"kind": "simple", "segs": segs, "text": render(segs)}


def corpus():
    pool = ["3/1", "5/1", "1/2", "3/4"]
    rw = [["read"], ["write", "7/1"], ["read"], ["pstate", "9/1", "1/4", "1/8"], ["read"], ["pdemand", "2/1"],
          ["read"], ["write", "-1/2"], ["read"]]
    dflt = {"kind": "default"}
    yield {"specs": [], "pool": pool, "ops": rw}
    yield {"specs": [["plain"]], "pool": pool, "ops": rw}
    yield {"specs": [["logger", None, 20, dflt]], "pool": pool, "ops": rw}
    yield {"specs": [["logger", 0, 30, _simple([("value", "s"), ("demand", "s"), ("target", "r")])], ["plain"],
                     ["logger", None, 10, dflt]], "pool": pool, "ops": rw}
    yield {"specs": [["logger", 1, 20, dflt], ["std", "2/1", "5/1", "1/1", None, None], ["logger", 1, 40, dflt]],
           "pool": pool, "ops": rw}
    yield {"specs": [["logger", 0, 20, dflt], ["buffer"], ["logger", 2, 20, dflt]], "pool": pool, "ops": rw}
    yield {"specs": [["std", None, None, "2/1", "1/1", "3/1"], ["logger", None, 25, dflt], ["std", "0/1", None, "5/1", None, None]],
           "pool": pool, "ops": rw + [["write", "13/2"], ["read"]]}
    yield {"specs": [["buffer"], ["buffer"], ["plain"]], "pool": pool, "ops": rw}
    yield {"specs": [["logger", None, 20, dflt]] * 8, "pool": pool, "ops": [["write", "1/1"], ["read"]]}
    # a Logger above a Standardiser whose stored demand is stale: the record must show the refreshed value
    yield {"specs": [["logger", 0, 20, dflt], ["std", None, None, "2/1", None, None]], "pool": pool,
           "ops": [["pdemand", "10/1"], ["write", "4/1"], ["read"], ["pdemand", "9/2"], ["write", "5/1"], ["read"]]}
    for t in MALFORMED:
        yield {"specs": [["plain"], ["logger", 0, 20, {"kind": "raw", "text": t}]], "pool": pool, "ops": [["write", "1/1"]]}
    for name in ["foo", "", "Value", "consumption", "target"]:
        yield {"specs": [["logger", 0, 20, _simple([("value", "s"), (name, "s")])]], "pool": pool, "ops": [["write", "1/1"]]}
    yield {"specs": [["std", "5/1", "2/1", "1/1", None, None]], "pool": pool, "ops": [["read"]]}
    yield {"specs": [["logger", 0, 20, {"kind": "raw", "text": "%(consumption)s"}], ["std", None, None, "0/1", None, None]],
           "pool": pool, "ops": [["read"]]}


def gen_cases(rng, n):
    k = 0
    for c in corpus():
        k += 1
        yield c
    for _ in range(max(0, n - k)):
        depth = rng.choice([0, 1, 1, 2, 2, 3, 3, 4, 5, 6, 7, 8])
        mode = rng.random()
        specs = [rnd_spec(rng) for _ in range(depth)]
        if mode < 0.25:     # plain + logger only
            specs = [s if s[0] in ("plain", "logger") else ["plain"] for s in specs]
        case = {"specs": specs, "pool": [fr(rnd_q(rng)), fr(rnd_q(rng)), fr(rnd_fit(rng)), fr(rnd_fit(rng))],
                "ops": rnd_ops(rng)}
        if rng.random() < 0.3:
            case["rename"] = True
        if rng.random() < 0.5:
            case["deco_probes"] = True
        yield case


# ------------------------------------------------------------------ implementation
def _default_message():
    import inspect
    from cobald.decorator.logger import Logger
    return inspect.signature(Logger.__init__).parameters["message"].default


def template_text(t):
    return _default_message() if t["kind"] == "default" else t["text"]


def _mk_classes(events, deco=False):
    """recording pool; Tap (below an opaque object: what it does to its target's demand) and Probe
    (above it: the demand calls that arrive and what they return).  Both forward all four attributes."""
    from cobald.interfaces import Pool

    class RecPool(Pool):
        def __init__(self, d, s, u, a):
            self._d, self._s, self._u, self._a = d, s, u, a

        supply = property(lambda self: self._s)
        utilisation = property(lambda self: self._u)
        allocation = property(lambda self: self._a)

        @property
        def demand(self):
            return self._d

        @demand.setter
        def demand(self, v):
            events.append(["pw", v])
            self._d = v
    RecPool.__qualname__ = "RecPool"

    # the measuring pools around an opaque decorator are, in half of the cases, decorators themselves (as a user's own
    # PoolDecorator subclass would be): what a Logger reports must not depend on what KIND of object its target is
    from cobald.interfaces import PoolDecorator
    Base = PoolDecorator if deco else Pool

    class Tap(Base):
        def __init__(self, target, lvl):
            self.target, self.lvl = target, lvl

        supply = property(lambda self: self.target.supply)
        utilisation = property(lambda self: self.target.utilisation)
        allocation = property(lambda self: self.target.allocation)

        @property
        def demand(self):
            events.append(["tget", self.lvl])
            return self.target.demand

        @demand.setter
        def demand(self, v):
            events.append(["tset", self.lvl, v])
            self.target.demand = v

    def probe_class(qualname):
        class Probe(Base):
            def __init__(self, obj, lvl):
                self.obj, self.lvl = obj, lvl
                self.target = obj

            supply = property(lambda self: self.obj.supply)
            utilisation = property(lambda self: self.obj.utilisation)
            allocation = property(lambda self: self.obj.allocation)

            @property
            def demand(self):
                events.append(["genter", self.lvl])
                r = self.obj.demand
                events.append(["gexit", self.lvl, r])
                return r

            @demand.setter
            def demand(self, v):
                events.append(["senter", self.lvl, v])
                self.obj.demand = v
                events.append(["sexit", self.lvl])
        Probe.__qualname__ = qualname       # Logger(name=None) takes the target's class name
        return Probe
    return RecPool, Tap, probe_class


def _lname(n):
    return "c16.n%d" % n


def _name_id(name):
    if name.startswith("c16.n"):
        return 100 + int(name[5:])
    return CLASS_IDS.get(name, 999)


class _Capture(logging.Handler):
    def __init__(self, events, pool, depth_of):
        super().__init__(level=0)
        self.events, self.pool, self.depth_of = events, pool, depth_of

    def emit(self, record):
        a = record.args
        depth = None
        if isinstance(a, dict):
            depth = self.depth_of.get(id(a.get("target")))
            fields = {k: a.get(k) for k in ("value", "demand", "supply", "utilisation", "allocation", "consumption")}
        else:
            fields = {"bad_args": repr(type(a))}
        self.events.append(["log", record.name, record.levelno, record.msg, fields, depth, self.pool._d,
                            sorted(a.keys()) if isinstance(a, dict) else None])


def _q(x):
    if isinstance(x, float) and (x != x or x in (float("inf"), float("-inf"))):
        return "nonfinite"
    try:
        return fr(F(x))
    except Exception:
        return "nonnumeric:%s" % type(x).__name__


def _canon(ev):
    if ev[0] == "pw":
        return ["pw", _q(ev[1])]
    if ev[0] == "log":
        return ["log", _name_id(ev[1]), ev[2], ev[3], {k: _q(v) for k, v in ev[4].items()}, ev[5], _q(ev[6]), ev[7]]
    if ev[0] in ("tset", "senter"):
        return [ev[0], ev[1], _q(ev[2])]
    if ev[0] == "gexit":
        return ["gexit", ev[1], _q(ev[2])]
    return list(ev)


def _scripts(all_events, opaque_levels):
    """per opaque level: constructor reads, and one entry per demand call that arrived at it"""
    out = {}
    for k in opaque_levels:
        init, entries, cur, bad = 0, [], None, False
        for ev in all_events:
            if len(ev) < 2 or ev[1] != k or ev[0] in ("log", "pw"):
                continue
            if ev[0] == "genter":
                cur = ["G", 0, None]
            elif ev[0] == "gexit":
                if cur is None or cur[0] != "G":
                    bad = True
                else:
                    entries.append(["G", cur[1], ev[2]])
                cur = None
            elif ev[0] == "senter":
                cur = ["S", ev[2], []]
            elif ev[0] == "sexit":
                if cur is None or cur[0] != "S":
                    bad = True
                else:
                    entries.append(cur)
                cur = None
            elif ev[0] == "tget":
                if cur is None:
                    init += 1
                elif cur[0] == "G":
                    cur[1] += 1
                else:
                    cur[2].append(["g"])
            elif ev[0] == "tset":
                if cur is None or cur[0] == "G":
                    bad = True          # a constructor / a read that writes its target: not modelled
                else:
                    cur[2].append(["s", ev[2]])
        out[str(k)] = {"init": init, "entries": entries, "bad": bad or cur is not None}
    return out


def run_impl(case):
    from cobald.interfaces import PoolDecorator
    from cobald.decorator.logger import Logger
    from cobald.decorator.standardiser import Standardiser
    from cobald.decorator.buffer import Buffer
    inf = float("inf")
    events = []
    RecPool, Tap, probe_class = _mk_classes(events, deco=bool(case.get("deco_probes")))
    probes = {"std": probe_class("Standardiser"), "buffer": probe_class("Buffer")}
    pool = RecPool(*[un(x) for x in case["pool"]])
    depth_of = {id(pool): 0}
    res = {"built": None, "warn": 0, "obs": [], "opaque_fail": {}}
    logging.disable(logging.NOTSET)
    names = set()
    top = pool
    opaque_levels = []
    with warnings.catch_warnings(record=True) as wlist:
        warnings.simplefilter("always")
        for lvl, spec in enumerate(reversed(case["specs"])):
            try:
                if spec[0] == "plain":
                    top = PoolDecorator(top)
                elif spec[0] == "logger":
                    kw = {"level": spec[2]}
                    if spec[1] is not None:
                        kw["name"] = _lname(spec[1])
                    if spec[3]["kind"] != "default":
                        kw["message"] = spec[3]["text"]
                    if case.get("rename"):
                        # configured under a provisional name first, given its real name afterwards (the public `name`
                        # attribute is settable): the same as having been constructed with it
                        final = kw.pop("name", None)
                        top = Logger(top, name="c16.provisional.%d" % lvl, **kw)
                        top.name = final
                    else:
                        top = Logger(top, **kw)
                    names.add(top.name)
                else:
                    opaque_levels.append(lvl)
                    tap = Tap(top, lvl)
                    if spec[0] == "std":
                        lo, hi, gran, backlog, surplus = spec[1:]
                        obj = Standardiser(tap, minimum=-inf if lo is None else un(lo),
                                           maximum=inf if hi is None else un(hi), granularity=un(gran),
                                           backlog=inf if backlog is None else un(backlog),
                                           surplus=inf if surplus is None else un(surplus))
                    else:
                        obj = Buffer(tap)
                    top = probes[spec[0]](obj, lvl)
                depth_of[id(top)] = lvl + 1
            except RuntimeError:
                res["built"] = "runtime"
            except ValueError:
                res["built"] = "value"
            except TypeError:
                res["built"] = "type"
            except Exception as e:
                res["built"] = "other:%s" % type(e).__name__
            if res["built"]:
                if spec[0] in ("std", "buffer"):
                    res["opaque_fail"][str(lvl)] = res["built"]
                break
        res["warn"] = sum(1 for w in wlist if issubclass(w.category, FutureWarning))
    construction_events = [_canon(e) for e in events]
    if res["built"]:
        res["scripts"] = _scripts(construction_events, opaque_levels)
        return res
    handler = _Capture(events, pool, depth_of)
    saved = []
    for nm in sorted(names):
        lg = logging.getLogger(nm)
        saved.append((lg, lg.level, lg.propagate, lg.disabled))
        lg.setLevel(1)
        lg.propagate = False
        lg.disabled = False
        lg.addHandler(handler)
    all_events = list(construction_events)
    del events[:]
    try:
        for op in case["ops"]:
            o = {"op": op[0]}
            pre = len(events)
            o["pool_before"] = [_q(pool._d), _q(pool._s), _q(pool._u), _q(pool._a)]
            try:
                if op[0] == "read":
                    d = top.demand
                    o["read"] = [_q(d), _q(top.supply), _q(top.utilisation), _q(top.allocation)]
                elif op[0] == "write":
                    top.demand = un(op[1])
                elif op[0] == "pstate":
                    pool._s, pool._u, pool._a = un(op[1]), un(op[2]), un(op[3])
                elif op[0] == "pdemand":
                    pool._d = un(op[1])
            except Exception as e:
                o["raised"] = "%s: %s" % (type(e).__name__, e)
            o["events"] = [_canon(ev) for ev in events[pre:]]
            all_events += o["events"]
            o["pool"] = [_q(pool._d), _q(pool._s), _q(pool._u), _q(pool._a)]
            res["obs"].append(o)
            if "raised" in o:
                break
    finally:
        for lg, lvl, prop, dis in saved:
            lg.removeHandler(handler)
            lg.setLevel(lvl)
            lg.propagate = prop
            lg.disabled = dis
    res["scripts"] = _scripts(all_events, opaque_levels)
    return res


# ------------------------------------------------------------------ oracle (the property, on the implementation's observation)
def _simple_expect(t):
    """for structured templates: (expected construction outcome, expected warnings) by the template's
    own structure (the generator only pairs a field with a conversion valid for its type)"""
    warn = 0
    for s in t["segs"]:
        if s[0] != "field":
            continue
        if s[1] not in FIELDS:
            return "runtime", warn
        if s[1] == "consumption":
            warn += 1
    return None, warn


KIND_CLASS = {"plain": "PoolDecorator", "logger": "Logger", "std": "Standardiser", "buffer": "Buffer"}


class _Bad(Exception):
    pass


def _check_write(specs, o, val, step):
    """The effects of one demand write, parsed against the property: a write of v arriving at a run of
    plain decorators / Loggers produces exactly one record per Logger, outermost first, each carrying v
    and the target's state from before, and then arrives unchanged at whatever lies below (the pool, or
    an opaque Standardiser / Buffer, whose own forwarded writes are parsed the same way)."""
    n = len(specs)
    level = lambda k: specs[n - 1 - k]          # k levels lie below level k
    evs = o["events"]
    idx = [i for i, e in enumerate(evs) if e[0] in ("log", "pw", "tset", "senter")]
    pos = [0]
    before = [un(x) for x in o["pool_before"]]

    def nxt(what):
        if pos[0] >= len(idx):
            raise _Bad("missing effect: step %d expected %s, nothing more happened" % (step, what))
        i = idx[pos[0]]
        pos[0] += 1
        return i, evs[i]

    def first_opaque_below(k):
        for j in range(k - 1, -1, -1):
            if level(j)[0] in ("std", "buffer"):
                return j
        return None

    def seg(k, value):
        while k >= 0 and level(k)[0] in ("plain", "logger"):
            spec = level(k)
            if spec[0] == "logger":
                i, e = nxt("the record of the Logger with %d levels below it" % k)
                if e[0] == "pw":
                    raise _Bad("log after write: step %d the pool was written before the Logger with %d levels "
                               "below it emitted its record" % (step, k))
                if e[0] != "log":
                    raise _Bad("log after write: step %d the write was passed on before the Logger with %d levels "
                               "below it emitted its record (next effect: %s)" % (step, k, e[0]))
                exp_name = (100 + spec[1]) if spec[1] is not None else \
                    CLASS_IDS[KIND_CLASS[level(k - 1)[0]] if k >= 1 else "RecPool"]
                if e[7] != sorted(FIELDS):
                    raise _Bad("args: step %d record args keys %s" % (step, e[7]))
                if e[5] != k:
                    if e[1] == exp_name and e[2] == spec[2]:
                        raise _Bad("target: step %d record's target is not the Logger's target" % step)
                    raise _Bad("record order: step %d expected the record of the Logger with %d levels below it, "
                               "got one whose target has %s levels below" % (step, k, e[5]))
                if e[1] != exp_name:
                    raise _Bad("logger name: step %d record on logger id %s, configured %s" % (step, e[1], exp_name))
                if e[2] != spec[2]:
                    raise _Bad("level: step %d record has level %s, configured %s" % (step, e[2], spec[2]))
                if e[3] != template_text(spec[3]):
                    raise _Bad("message: step %d record carries another template" % step)
                f = e[4]
                if un(f["value"]) != value:
                    raise _Bad("value: step %d record value %s, the write arriving at the Logger was %s" % (
                        step, f["value"], value))
                if [un(f["supply"]), un(f["utilisation"]), un(f["allocation"])] != before[1:]:
                    raise _Bad("before-values: step %d record (supply, utilisation, allocation) %s, target had %s" % (
                        step, [f["supply"], f["utilisation"], f["allocation"]], [str(x) for x in before[1:]]))
                if un(f["consumption"]) != before[3]:
                    raise _Bad("before-values: step %d consumption is not the allocation" % step)
                ob = first_opaque_below(k)
                if ob is None:
                    want = un(e[6])          # the pool's demand at emission time
                else:
                    rets = [x[2] for x in evs[:i] if x[0] == "gexit" and x[1] == ob]
                    want = un(rets[-1]) if rets else None
                if want is None or un(f["demand"]) != want:
                    raise _Bad("before-values: step %d record demand %s, target had %s" % (step, f["demand"], want))
            k -= 1
        if k < 0:
            i, e = nxt("the write of %s to the pool" % value)
            if e[0] != "pw" or un(e[1]) != value:
                if e[0] == "log":
                    raise _Bad("record count: step %d an extra record was emitted" % step)
                raise _Bad("demand write: step %d the pool should receive %s, got %s" % (step, value, e[:2]))
        else:
            i, e = nxt("the write of %s arriving at the %s" % (value, KIND_CLASS[level(k)[0]]))
            if e[0] != "senter" or e[1] != k or un(e[2]) != value:
                if e[0] == "log":
                    raise _Bad("record count: step %d an extra record was emitted" % step)
                raise _Bad("demand write: step %d the %s should receive %s, got %s" % (
                    step, KIND_CLASS[level(k)[0]], value, e[:3]))
            while pos[0] < len(idx) and evs[idx[pos[0]]][0] == "tset" and evs[idx[pos[0]]][1] == k:
                _i, t = nxt("")
                seg(k - 1, un(t[2]))

    try:
        seg(n - 1, val)
        if pos[0] < len(idx):
            e = evs[idx[pos[0]]]
            if e[0] == "log":
                raise _Bad("record count: step %d an extra record was emitted after the write was complete" % step)
            raise _Bad("spurious effect: step %d %s" % (step, e[:3]))
    except _Bad as b:
        return [(None, str(b))]
    return []


def oracle(case, res):
    if "harness_error" in res:
        return [(None, "harness error: " + res["harness_error"])]
    v = []
    specs = case["specs"]
    # --- construction: unknown field => RuntimeError; known fields only => accepted
    built = res["built"]
    if built and built.startswith("other") and not res.get("opaque_fail"):
        v.append((None, "construction: unexpected exception class %s" % built))
    exp_err, exp_warn, decided = None, 0, True
    for lvl, spec in enumerate(reversed(specs)):
        if spec[0] == "logger":
            t = spec[3]
            if t["kind"] == "default":
                continue
            if t["kind"] != "simple":
                decided = False
                break
            e, w = _simple_expect(t)
            exp_warn += w
            if e:
                exp_err = e
                break
        elif str(lvl) in res.get("opaque_fail", {}):
            decided = False          # a Standardiser / Buffer refused its parameters: not C16's business
            break
    if decided:
        if exp_err == "runtime" and built != "runtime":
            v.append((None, "unknown field accepted: a template naming an unknown field was not rejected with "
                            "RuntimeError at construction (got %s)" % built))
        elif exp_err != built:
            v.append((None, "construction: expected %s, got %s" % (exp_err, built)))
        elif res["warn"] != exp_warn:
            v.append((None, "deprecation: expected %d FutureWarning(s) for `consumption`, got %d" % (exp_warn, res["warn"])))
    if built:
        return v
    # --- histories
    n = len(specs)
    kinds = [s[0] for s in specs]
    has_opaque = any(k in ("std", "buffer") for k in kinds)
    top_opaque = None
    for j, k in enumerate(kinds):
        if k in ("std", "buffer"):
            top_opaque = n - 1 - j
            break
    for i, (op, o) in enumerate(zip(case["ops"], res["obs"])):
        if "raised" in o:
            if not has_opaque:
                v.append((None, "operation raised: step %d %s: %s" % (i, op[0], o["raised"])))
            break
        pool = [un(x) if "/" in x else None for x in o["pool_before"]]      # the pool's true state before the op
        got_pool = [un(x) if "/" in x else None for x in o["pool"]]
        if op[0] == "read":
            d, s, u, a = [un(x) if "/" in x else None for x in o["read"]]
            if [s, u, a] != pool[1:]:
                v.append((None, "not transparent: step %d read (supply, utilisation, allocation) = %s through the "
                                "stack, pool has %s" % (i, [str(x) for x in (s, u, a)], [str(x) for x in pool[1:]])))
            if top_opaque is None:
                if d != pool[0]:
                    v.append((None, "demand read: step %d read %s through plain/Logger stack, pool has %s" % (i, d, pool[0])))
                if got_pool != pool:
                    v.append((None, "pool changed by a read: step %d" % i))
                if o["events"]:
                    v.append((None, "spurious effects: step %d a read logged or wrote" % i))
            else:
                rets = [x[2] for x in o["events"] if x[0] == "gexit" and x[1] == top_opaque]
                if len(rets) != 1 or d != un(rets[0]):
                    v.append((None, "demand read: step %d read %s through plain/Logger levels, the %s below returned %s"
                              % (i, d, KIND_CLASS[specs[n - 1 - top_opaque][0]], rets)))
                if any(e[0] == "log" for e in o["events"]):
                    v.append((None, "spurious effects: step %d a read logged" % i))
        elif op[0] == "write":
            if got_pool[1:] != pool[1:]:
                v.append((None, "write changed supply/utilisation/allocation of the pool: step %d" % i))
            v += _check_write(specs, o, un(op[1]), i)
            if not has_opaque and got_pool[0] != un(op[1]):
                v.append((None, "demand write: step %d wrote %s through plain/Logger stack, pool has %s" % (
                    i, op[1], got_pool[0])))
        else:
            if o["events"]:
                v.append((None, "spurious effects: step %d" % i))
    return v


def nontrivial(case, res):
    if res.get("built") or "obs" not in res or len(case["specs"]) < 2:
        return False
    return any(any(e[0] == "log" for e in o.get("events", [])) for o in res["obs"])


# ------------------------------------------------------------------ Coq printing
def _oq(x):
    return "None" if x is None else "(Some %s)" % cQ(un(x))


def _entry(e):
    if e[0] == "G":
        return "(EGet %s %s)" % (cnat(e[1]), _qq(e[2]))
    acts = clist(("AGet" if a[0] == "g" else "(ASet %s)" % _qq(a[1])) for a in e[2]) if e[2] else "nil"
    return "(ESet %s %s)" % (_qq(e[1]), acts)


def _spec(s, lvl, res):
    if s[0] == "plain":
        return "SPlain"
    if s[0] == "logger":
        return "(SLogger %s %s %s)" % ("None" if s[1] is None else "(Some %s)" % cN(100 + s[1]), cN(s[2]),
                                      cstr(template_text(s[3])))
    sc = res.get("scripts", {}).get(str(lvl), {"init": 0, "entries": [], "bad": False})
    fail = res.get("opaque_fail", {}).get(str(lvl))
    return "(SOpaque %s %s %s %s)" % (cN(3 if s[0] == "std" else 4), cnat(sc["init"]),
                                      _CERR.get(fail, "(Some CType)") if fail else "None",
                                      clist(_entry(e) for e in sc["entries"]) if sc["entries"] else "nil")


def _op(op):
    if op[0] == "read":
        return "Read"
    if op[0] == "write":
        return "(Write %s)" % cQ(un(op[1]))
    if op[0] == "pstate":
        return "(PoolState %s %s %s)" % tuple(cQ(un(x)) for x in op[1:])
    return "(PoolDemand %s)" % cQ(un(op[1]))


def _qq(x):
    return cQ(un(x)) if "/" in x else cQ(-987654321)


def _pool(p):
    return "(mkPool %s %s %s %s)" % tuple(_qq(x) for x in p)


def _event(e):
    if e[0] == "pw":
        return "(PoolWrite %s)" % _qq(e[1])
    f = e[4]
    if "bad_args" in f or e[5] is None:
        return "(PoolWrite %s)" % cQ(-123456789)
    return "(Log %s %s %s (mkFields %s %s %s %s %s %s %s))" % (
        cN(e[1]), cN(e[2]), cstr(e[3]), _qq(f["value"]), _qq(f["demand"]), _qq(f["supply"]), _qq(f["utilisation"]),
        _qq(f["allocation"]), _qq(f["consumption"]), cnat(e[5]))


def _obs(o):
    if "raised" in o:
        ob = "(OWrite [PoolWrite %s])" % cQ(-111111111)
    elif o["op"] == "read":
        ob = "(ORead %s %s %s %s)" % tuple(_qq(x) for x in o["read"])
    elif o["op"] == "write":
        vis = [e for e in o["events"] if e[0] in ("log", "pw")]
        ob = "(OWrite %s)" % (clist(_event(e) for e in vis) if vis else "nil")
    else:
        ob = "ONone"
    return "(%s, %s)" % (ob, _pool(o["pool"]))


_CERR = {"runtime": "(Some CRuntime)", "value": "(Some CValue)", "type": "(Some CType)", None: "None"}


_TRUE_CASE = "(mkCase nil (mkPool 0 0 0 0) nil None 0%nat nil)"


def coq_case(case, res):
    built = res.get("built")
    if "harness_error" in res:
        return "(mkCase nil %s nil (Some CType) 77%%nat nil)" % _pool(case["pool"])
    kinds = [s[0] for s in case["specs"]]
    has_opaque = any(k in ("std", "buffer") for k in kinds)
    if has_opaque and (any(sc["bad"] for sc in res.get("scripts", {}).values())
                       or any("raised" in o for o in res.get("obs", []))
                       or (built and built.startswith("other"))):
        # an opaque level raised or did something outside the script language: nothing C16 claims
        return _TRUE_CASE
    if built and built.startswith("other"):
        return "(mkCase nil %s nil (Some CType) 77%%nat nil)" % _pool(case["pool"])
    n = len(case["specs"])
    specs = [_spec(s, n - 1 - j, res) for j, s in enumerate(case["specs"])]
    nobs = len(res.get("obs", []))
    return "(mkCase %s %s %s %s %s %s)" % (
        clist(specs) if specs else "nil", _pool(case["pool"]),
        clist(_op(o) for o in case["ops"][:nobs]) if nobs else "nil", _CERR[built], cnat(res.get("warn", 0)),
        clist(_obs(o) for o in res.get("obs", [])) if res.get("obs") else "nil")


def distribution(results):
    d = {"depth": {}, "built": {}, "kinds": {}, "template_kinds": {}, "ops": {}, "records_per_write": {},
         "writes_blocked_by_buffer": 0, "warnings": 0}

    def inc(m, k):
        m[str(k)] = m.get(str(k), 0) + 1
    for (c, o, _v) in results:
        inc(d["depth"], len(c["specs"]))
        inc(d["built"], o.get("built") or "ok")
        d["warnings"] += o.get("warn", 0) or 0
        for s in c["specs"]:
            inc(d["kinds"], s[0])
            if s[0] == "logger":
                inc(d["template_kinds"], s[3]["kind"])
        for op in c["ops"]:
            inc(d["ops"], op[0])
        for ob in o.get("obs", []):
            if ob.get("op") == "write":
                inc(d["records_per_write"], sum(1 for e in ob["events"] if e[0] == "log"))
                if not any(e[0] == "pw" for e in ob["events"]):
                    d["writes_blocked_by_buffer"] += 1
        if any("raised" in ob for ob in o.get("obs", [])):
            d["raised"] = d.get("raised", 0) + 1
    return d


def shrink(case, still_fails):
    cur = case
    changed = True
    while changed:
        changed = False
        for i in range(len(cur["ops"])):
            cand = dict(cur, ops=cur["ops"][:i] + cur["ops"][i + 1:])
            try:
                if cand["ops"] and still_fails(cand):
                    cur, changed = cand, True
                    break
            except Exception:
                pass
        if changed:
            continue
        for i in range(len(cur["specs"])):
            cand = dict(cur, specs=cur["specs"][:i] + cur["specs"][i + 1:])
            try:
                if still_fails(cand):
                    cur, changed = cand, True
                    break
            except Exception:
                pass
    return cur


# ------------------------------------------------------------------ translator tie
TIE_TARGETS = ["props/C16_tie.vo"]


def regen(chk):
    """regenerate gen/Gen_decorators.v from the current interfaces/_proxy.py and decorator/logger.py"""
    import os
    from . import common
    from py2coq import units
    res = units.regen(common.REPO, os.path.join(common.COQDIR, "gen"), ["Gen_decorators.v"])
    chk.coverage["translator"] = res
    bad = [v for v in res.values() if v != "ok"]
    if bad:
        raise RuntimeError(bad[0])
