"""C15 — FactoryPool spawns and releases just enough children:
generators, implementation runner (recording children, scripted factory, the shipped run() loop under
trio's MockClock), oracle, Coq case printer."""
import gc
import itertools
from fractions import Fraction as F
from .common import cQ, clist, cnat

ID = "C15"
COQ_TARGETS = ["props/C15.vo"]
CORR_TARGETS = ["corr/C15Corr.vo"]
CORR_PRELUDE = "From Cobald Require Import kit.Corr kit.QKit model.Factory corr.C15Corr."
CORR_CHECK = "C15Corr.check"
CORR_TYPE = "C15Corr.case"
N_QUICK, N_THOROUGH = 1400, 9000
RULE = ("histories of 1-25 operations (demand writes, a child changing its supply / utilisation / allocation / "
        "demand incl. zeroing its own demand, garbage collection of a released child, adjustment cycles) on a "
        "real FactoryPool with 0-6 initial recording children and a scripted factory, all numbers exact "
        "Fractions on small grids (ties of the sort key and demands exactly equal to the excess are frequent); "
        "boundary corpus + every history of length <= 3 over a 6-letter alphabet first, then seeded random "
        "(demands >= 0 and factory children with demand > 0 throughout: the property's domain).  The "
        "adjustment is the shipped `run()` coroutine, woken once per Adjust under trio.testing.MockClock.  The "
        "iteration order of the hatchery set just before each adjustment is recorded and given to the model "
        "(it decides ties in `sorted`).  non-trivial = some adjustment spawned or released a child")
TRUSTED_BASE = [
    "Coq 8.16.1 kernel + vm_compute (bytecode VM) for evaluating the model on the cases",
    "harness/c15.py: recording child pools, scripted factory, MockClock driver, reading of the private sets "
    "_hatchery/_mortuary, strong references + gc.collect() to make the weak mortuary deterministic",
    "model/Factory.v is hand-written; tied to src/cobald/composite/factory.py by the correspondence run and, for the "
    "adjustment (run / _shrink / _grow / _reap_children / _release_child) and the readers and constructor (supply / "
    "utilisation / allocation / demand / __init__), by translation: py2coq/units.py:gen_factory "
    "(trusted, fail-closed: exact statement skeleton, transcribed expressions) regenerates gen/Gen_factory.v on every run and "
    "props/C15_tie.v proves that kit/FactoryIR.v's meaning of that skeleton with the current source's expressions is "
    "Factory.adjust / supply / utilisation / allocation / init",
    "ideal arithmetic: binary64 rounding is not modelled (cases use exact Fractions)",
]
ASSUMPTIONS = [
    "children are recording pools: they store the demand written to them; their other attributes change only "
    "by explicit ChildSet operations between adjustments (nothing changes while _shrink/_grow run)",
    "cover/maximality statements assume children's demands >= 0; 'released children have demand 0' assumes no "
    "released child sets its own demand again (polite histories); everything else holds for all histories",
    "the factory yields fresh children; with demands bounded below by a positive constant the spawn loop "
    "terminates (proved: C15_grow_terminates), otherwise the model reports OutOfFuel",
]

ATTRS = ["supply", "util", "alloc", "demand"]


def fr(x):
    x = F(x)
    return "%d/%d" % (x.numerator, x.denominator)


def un(s):
    return F(s)


# ------------------------------------------------------------------ generation
def rnd_val(rng, kind, wild=False):
    r = rng.random()
    if kind in ("util", "alloc"):
        return F(rng.choice([0, 1, 1, 2, 2, 3, 4]), 4) if r < 0.8 else F(rng.randint(0, 16), 16)
    if kind == "supply":
        if r < 0.3:
            return F(0)
        return F(rng.choice([1, 1, 2, 2, 3, 4, 8])) if r < 0.85 else F(rng.randint(1, 40), rng.choice([2, 3, 5]))
    # demand
    if wild and r < 0.15:
        return F(-rng.randint(1, 3))
    if r < 0.2:
        return F(0)
    if r < 0.8:
        return F(rng.choice([1, 1, 2, 2, 3, 4, 5]))
    return F(rng.randint(1, 30), rng.choice([2, 3, 4, 7]))


def rnd_child(rng, wild=False, positive=False):
    d = rnd_val(rng, "demand", wild)
    if positive and d <= 0:
        d = F(rng.choice([1, 2, 3]))
    return [fr(rnd_val(rng, "supply")), fr(rnd_val(rng, "util")), fr(rnd_val(rng, "alloc")), fr(d)]


def C(s, u, a, d):
    return [fr(F(s)), fr(F(u)), fr(F(a)), fr(F(d))]


def corpus():
    dflt = C(1, 1, 1, 2)
    # empty pool grows from nothing; exact cover and one-over
    yield {"children": [], "script": [C(0, 0, 0, 2), C(0, 0, 0, 2), C(0, 0, 0, 2)], "default": dflt,
           "ops": [["adjust"], ["set", "4/1"], ["adjust"], ["set", "5/1"], ["adjust"], ["set", "0/1"], ["adjust"]]}
    # shrink: supply > demand, excess exactly equal to one child's demand (boundary of <=)
    yield {"children": [C(4, 1, 1, 2), C(4, "1/2", 1, 3), C(4, "1/4", 1, 5)], "script": [], "default": dflt,
           "ops": [["set", "5/1"], ["adjust"], ["adjust"]]}
    yield {"children": [C(4, 1, 1, 2), C(4, "1/2", 1, 3), C(4, "1/4", 1, 5)], "script": [], "default": dflt,
           "ops": [["set", "7/1"], ["adjust"], ["set", "8/1"], ["adjust"]]}
    # ties in the sort key, equal demands
    yield {"children": [C(2, 1, 1, 3), C(2, 1, 1, 3), C(2, 1, 1, 3), C(1, 2, 1, 3)], "script": [], "default": dflt,
           "ops": [["set", "6/1"], ["adjust"], ["set", "3/1"], ["adjust"], ["set", "0/1"], ["adjust"]]}
    # a child disables itself; it is reaped, the pool re-grows; a released child is collected
    yield {"children": [C(1, 1, 1, 2), C(1, 1, 1, 2)], "script": [C(0, 1, 1, 2), C(0, 1, 1, 1)], "default": dflt,
           "ops": [["child", 0, "demand", "0/1"], ["child", 0, "supply", "0/1"], ["adjust"], ["collect", 0],
                   ["adjust"], ["child", 1, "demand", "0/1"], ["set", "1/1"], ["adjust"]]}
    # shrink branch taken although the children's demands do not cover the target (supply is large)
    yield {"children": [C(10, 1, 1, 1), C(10, 1, 1, 1)], "script": [], "default": dflt,
           "ops": [["set", "5/1"], ["adjust"]]}
    # grow branch although demands exceed the target (no supply yet): nothing is released
    yield {"children": [C(0, 1, 1, 4), C(0, 1, 1, 4)], "script": [], "default": dflt,
           "ops": [["set", "2/1"], ["adjust"], ["child", 0, "supply", "9/1"], ["adjust"]]}
    # interference: a released child sets its demand again
    yield {"children": [C(5, 1, 1, 2), C(5, "1/2", 1, 2)], "script": [], "default": dflt,
           "ops": [["set", "2/1"], ["adjust"], ["child", 1, "demand", "3/1"], ["adjust"], ["set", "6/1"], ["adjust"]]}
    # fractional demands, mean utilisation over children with supply only
    yield {"children": [C("1/2", "1/3", "2/3", "7/3"), C(0, "1/2", "1/2", "1/3"), C(3, 1, "1/4", "5/2")],
           "script": [C(0, 0, 0, "3/2")], "default": dflt,
           "ops": [["set", "6/1"], ["adjust"], ["child", 1, "supply", "2/1"], ["set", "1/3"], ["adjust"]]}


ALPHABET = [["set", "0/1"], ["set", "3/1"], ["child", 0, "demand", "0/1"], ["child", 1, "supply", "5/1"],
            ["collect", 0], ["adjust"]]


def exhaustive():
    dflt = C(0, 1, 1, 2)
    kids = [C(2, 1, 1, 2), C(1, "1/2", 1, 1)]
    for depth in (1, 2, 3):
        for ops in itertools.product(ALPHABET, repeat=depth):
            yield {"children": kids, "script": [C(1, 1, 1, 1)], "default": dflt, "ops": [list(o) for o in ops] + [["adjust"]]}


def gen_random(rng):
    wild = False      # demands stay >= 0 and factory children have demand: the property's domain
    n0 = rng.choice([0, 0, 1, 2, 2, 3, 3, 4, 5, 6])
    children = [rnd_child(rng, wild) for _ in range(n0)]
    script = [rnd_child(rng, positive=True) for _ in range(rng.randint(0, 8))]
    default = rnd_child(rng, positive=True)
    if wild and rng.random() < 0.4:
        bad = rnd_child(rng)
        bad[3] = fr(F(rng.choice([0, 0, -1])))
        script.insert(rng.randint(0, len(script)), bad)
    ops = []
    for _ in range(rng.randint(1, 25)):
        r = rng.random()
        if r < 0.22:
            t = F(rng.choice([0, 1, 2, 3, 4, 5, 6, 8, 10, 12])) if rng.random() < 0.8 else F(rng.randint(0, 60), rng.choice([2, 3, 7]))
            ops.append(["set", fr(t)])
        elif r < 0.55:
            a = rng.choice(["supply", "supply", "util", "alloc", "demand", "demand"])
            ops.append(["child", rng.randint(0, 11), a, fr(rnd_val(rng, a, wild))])
        elif r < 0.63:
            ops.append(["collect", rng.randint(0, 5)])
        else:
            ops.append(["adjust"])
    if ops[-1][0] != "adjust":
        ops.append(["adjust"])
    case = {"children": children, "script": script, "default": default, "ops": ops}
    if rng.random() < 0.2:
        case["prior"] = rng.choice([2, 3, 5])
    return case


def gen_cases(rng, n):
    k = 0
    for c in itertools.chain(corpus(), exhaustive()):
        k += 1
        yield c
    for c in itertools.islice(corpus(), 6):
        k += 1
        yield dict(c, prior=3)
    for _ in range(max(0, n - k)):
        yield gen_random(rng)


# ------------------------------------------------------------------ implementation
_CHILD_CLS = []


def _child_class():
    if not _CHILD_CLS:
        from cobald.interfaces import Pool

        class Child(Pool):
            supply = utilisation = allocation = None

            def __init__(self, num, s, u, a, d):
                self.num = num
                self._s, self._u, self._a, self._d = s, u, a, d

            supply = property(lambda self: self._s)
            utilisation = property(lambda self: self._u)
            allocation = property(lambda self: self._a)

            @property
            def demand(self):
                return self._d

            @demand.setter
            def demand(self, v):
                self._d = v

        _CHILD_CLS.append(Child)
    return _CHILD_CLS[0]


def _q(x):
    if isinstance(x, float) and (x != x or x in (float("inf"), float("-inf"))):
        return "nonfinite"
    return fr(F(x))


def _observe(pool, calls):
    h = sorted(pool._hatchery, key=lambda c: c.num)
    m = sorted(pool._mortuary, key=lambda c: c.num)
    o = {"hatchery": [c.num for c in h], "mortuary": [c.num for c in m],
         "demands": [_q(c.demand) for c in h + m],
         "demand": _q(pool.demand), "supply": _q(pool.supply), "util": _q(pool.utilisation),
         "alloc": _q(pool.allocation), "calls": calls[0]}
    del h, m
    return o


def run_impl(case):
    import trio
    import trio.testing
    from cobald.composite.factory import FactoryPool
    Child = _child_class()

    refs = {}           # child number -> child (strong references keep the weak mortuary deterministic)
    calls = [0]
    n0 = len(case["children"])
    for i, spec in enumerate(case["children"]):
        refs[i] = Child(i, *[un(x) for x in spec])

    def factory():
        k = calls[0]
        spec = case["script"][k] if k < len(case["script"]) else case["default"]
        calls[0] += 1
        if calls[0] > 350:
            raise RuntimeError("factory called too often")
        c = Child(n0 + k, *[un(x) for x in spec])
        refs[c.num] = c
        return c

    prior = None
    if case.get("prior"):
        # another FactoryPool of the same process that has grown and shrunk before; its released children are
        # still alive (draining): pools do not share children, dead or alive
        made = []

        def prior_factory():
            made.append(Child(1000 + len(made), F(1), F(1), F(1), F(1)))
            return made[-1]
        p0 = FactoryPool(factory=prior_factory, interval=1)

        async def prior_life():
            async with trio.open_nursery() as nursery:
                nursery.start_soon(p0.run)
                await trio.sleep(0.5)
                p0.demand = case["prior"]
                await trio.sleep(1)
                p0.demand = 1
                await trio.sleep(1)
                nursery.cancel_scope.cancel()
        trio.run(prior_life, clock=trio.testing.MockClock(autojump_threshold=0))
        prior = (p0, made)
    pool = FactoryPool(*[refs[i] for i in range(n0)], factory=factory, interval=1)
    obs = [_observe(pool, calls)]
    cops = []           # the concrete operations that were carried out
    ending = ["ok"]

    async def driver():
        await trio.sleep(0.5)
        for op in case["ops"]:
            if op[0] == "set":
                pool.demand = un(op[1])
                cops.append(op)
            elif op[0] == "child":
                live = sorted(refs)
                if not live:
                    continue
                num = live[op[1] % len(live)]
                c = refs[num]
                v = un(op[3])
                if op[2] == "supply":
                    c._s = v
                elif op[2] == "util":
                    c._u = v
                elif op[2] == "alloc":
                    c._a = v
                else:
                    c.demand = v
                del c
                cops.append(["child", num, op[2], op[3]])
            elif op[0] == "collect":
                dead = sorted(c.num for c in pool._mortuary)
                if not dead:
                    continue
                num = dead[op[1] % len(dead)]
                refs.pop(num, None)
                # children are not part of reference cycles: dropping the last strong reference frees
                # them at once; a full collection (slow on the driver's large heap) is the fallback
                if any(c.num == num for c in pool._mortuary):
                    gc.collect()
                cops.append(["collect", num])
            else:
                order = [c.num for c in pool._hatchery]
                cops.append(["adjust", order])
                await trio.sleep(1)        # run() wakes up exactly once
            obs.append(_observe(pool, calls))

    async def main():
        async with trio.open_nursery() as nursery:
            nursery.start_soon(pool.run)
            await driver()
            nursery.cancel_scope.cancel()

    def leaves(e):
        if hasattr(e, "exceptions"):
            for x in e.exceptions:
                for y in leaves(x):
                    yield y
        else:
            yield e

    try:
        trio.run(main, clock=trio.testing.MockClock(autojump_threshold=0))
    except BaseException as err:        # noqa
        kinds = sorted({type(x).__name__ for x in leaves(err)})
        ending[0] = "assertion" if kinds == ["AssertionError"] else "other:" + ",".join(kinds)
        obs.append(_observe(pool, calls))
    del prior
    return {"obs": obs, "ops": cops, "end": ending[0]}


# ------------------------------------------------------------------ oracle (the property, on implementation observations)
def oracle(case, res):
    if "harness_error" in res:
        return [(None, "harness error: " + res["harness_error"])]
    v = []
    if res["end"].startswith("other"):
        return [(None, "unexpected exception: run() died with %s" % res["end"])]
    n0 = len(case["children"])
    attrs = {i: [un(x) for x in spec] for i, spec in enumerate(case["children"])}

    def spec_of(k):
        return [un(x) for x in (case["script"][k] if k < len(case["script"]) else case["default"])]

    obs = res["obs"]
    ops = res["ops"]
    prev = obs[0]
    gone = set()           # children that have left the hatchery
    released_seen, collected = set(), set()
    interfered = set()
    if un(prev["demand"]) != sum(a[3] for a in attrs.values()):
        v.append((None, "initial demand: %s is not the sum of the children's demands" % prev["demand"]))
    for step, o in enumerate(obs[1:]):
        op = ops[step] if step < len(ops) else None
        failed = res["end"] == "assertion" and step == len(obs) - 2     # the last observation is post mortem
        if any(x == "nonfinite" for x in [o["demand"], o["supply"], o["util"], o["alloc"]] + o["demands"]):
            v.append((None, "non-finite value: step %d" % step))
            prev = o
            continue
        # children created by the factory only
        for k in range(prev["calls"], o["calls"]):
            attrs[n0 + k] = spec_of(k)
        if op is not None and op[0] != "adjust" and o["calls"] != prev["calls"]:
            v.append((None, "factory: called outside an adjustment at step %d" % step))
        ids = o["hatchery"] + o["mortuary"]
        if any(i >= n0 + o["calls"] or i < 0 for i in ids):
            v.append((None, "origin: a child that neither was given initially nor came from the factory: step %d %s" % (step, ids)))
            prev = o
            continue
        if set(o["hatchery"]) & set(o["mortuary"]):
            v.append((None, "partition: child both active and released at step %d: %s" % (step, o)))
        # a released child stays one of the children for as long as it is alive (the harness keeps every child alive
        # until a `collect` step drops its last reference): it still drains, and its supply still counts
        if op is not None and op[0] == "collect":
            collected.add(op[1])
        lost = (released_seen - collected) - set(o["mortuary"]) - set(o["hatchery"])
        if lost:
            v.append((None, "vanished: released children %s are still alive but no longer among the pool's children at step %d"
                      % (sorted(lost), step)))
        released_seen |= set(o["mortuary"])
        back = set(o["hatchery"]) & gone
        if back:
            v.append((None, "revived: released children %s are active again at step %d" % (sorted(back), step)))
        new = set(o["hatchery"]) - set(prev["hatchery"])
        if any(i < n0 + prev["calls"] for i in new):
            v.append((None, "revived: old children %s entered the hatchery at step %d" % (sorted(new), step)))
        # track the children's state
        if op is not None and op[0] == "child":
            attrs[op[1]][ATTRS.index(op[2])] = un(op[3])
            if op[2] == "demand" and op[1] in prev["mortuary"] and un(op[3]) != 0:
                interfered.add(op[1])
        dem_now = dict(zip(ids, [un(x) for x in o["demands"]]))
        dem_before = dict(zip(prev["hatchery"] + prev["mortuary"], [un(x) for x in prev["demands"]]))
        if op is not None and op[0] == "child" and op[2] == "demand" and op[1] in dem_before:
            dem_before[op[1]] = un(op[3])
        if op is not None and op[0] == "adjust":
            target = un(prev["demand"])
            sup_before = sum(attrs[i][0] for i in prev["hatchery"] + prev["mortuary"])
            nonneg = all(d >= 0 for d in dem_before.values()) and all(
                spec_of(k)[3] > 0 for k in range(prev["calls"], o["calls"]))
            if not failed:
                for i in o["hatchery"]:
                    if not dem_now[i] > 0:
                        v.append((None, "reap: active child %d has no demand left after the adjustment at step %d" % (i, step)))
            hsum = sum(dem_now[i] for i in o["hatchery"])
            k = o["calls"] - prev["calls"]
            mort_dem = sum(dem_before[i] for i in prev["mortuary"])
            if k > 0 and not failed:
                spawned = [spec_of(j)[3] for j in range(prev["calls"], o["calls"])]
                total = sum(dem_before.values())
                if not total + sum(spawned) >= target:
                    v.append((None, "grow cover: demands %s + spawned %s do not cover %s at step %d" % (total, spawned, target, step)))
                if not total + sum(spawned[:-1]) < target:
                    v.append((None, "grow minimal: the child spawned last was not needed at step %d (%s + %s >= %s)"
                              % (step, total, spawned[:-1], target)))
                if mort_dem == 0 and nonneg:
                    if not hsum >= target:
                        v.append((None, "grow cover: active demand %s < requested %s at step %d" % (hsum, target, step)))
                    if not hsum - spawned[-1] < target:
                        v.append((None, "grow minimal: active demand without the last child %s >= %s at step %d"
                                  % (hsum - spawned[-1], target, step)))
            if k == 0 and sup_before <= target and sum(dem_before.values()) < target and not failed:
                v.append((None, "grow missing: demands %s < requested %s but nothing was spawned at step %d"
                          % (sum(dem_before.values()), target, step)))
            released = [i for i in prev["hatchery"] if i not in o["hatchery"]]
            by_rule = [i for i in released if dem_before[i] > 0]
            if by_rule and k > 0:
                v.append((None, "both: an adjustment released demanding children and spawned at step %d" % step))
            if by_rule and not hsum >= target:
                v.append((None, "shrink safe: released %s but remaining active demand %s < requested %s at step %d"
                          % (by_rule, hsum, target, step)))
            if sup_before > target and nonneg and k == 0:
                for i in o["hatchery"]:
                    if dem_now[i] <= hsum - target:
                        v.append((None, "shrink maximal: child %d (demand %s) could still be released (excess %s) at step %d"
                                  % (i, dem_now[i], hsum - target, step)))
            if by_rule and sup_before <= target:
                v.append((None, "shrink decision: demanding children released although supply %s <= demand %s at step %d"
                          % (sup_before, target, step)))
            for i in o["hatchery"]:
                if dem_now[i] != dem_before.get(i, attrs[i][3]):
                    v.append((None, "active demand changed: child %d at step %d" % (i, step)))
        else:
            if o["hatchery"] != prev["hatchery"]:
                v.append((None, "hatchery changed outside an adjustment: step %d" % step))
            if not set(o["mortuary"]) <= set(prev["mortuary"]):
                v.append((None, "mortuary grew outside an adjustment: step %d" % step))
        for i in o["mortuary"]:
            if i not in interfered and dem_now[i] != 0:
                v.append((None, "released demand: released child %d has demand %s at step %d" % (i, dem_now[i], step)))
        gone |= set(prev["hatchery"]) - set(o["hatchery"])
        # aggregates
        for i in ids:
            attrs[i][3] = dem_now[i]
        if un(o["supply"]) != sum(attrs[i][0] for i in ids):
            v.append((None, "supply is not the sum over all children: step %d" % step))
        act = [i for i in ids if attrs[i][0] > 0]
        for name, fi in (("util", 1), ("alloc", 2)):
            want = sum(attrs[i][fi] for i in act) / len(act) if act else F(1)
            if un(o[name]) != want:
                v.append((None, "%s is not the mean over children with supply: step %d got %s want %s" % (name, step, o[name], want)))
        if op is not None and op[0] == "set":
            if un(o["demand"]) != un(op[1]):
                v.append((None, "demand read-back: step %d" % step))
        elif un(o["demand"]) != un(prev["demand"]):
            v.append((None, "demand changed without a write: step %d" % step))
        prev = o
    return v


def nontrivial(case, res):
    if "obs" not in res:
        return False
    o = res["obs"]
    return any(a["hatchery"] != b["hatchery"] for a, b in zip(o, o[1:]))


# ------------------------------------------------------------------ Coq printing
def _child(c):
    return "(mkChild %s %s %s %s)" % tuple(cQ(un(x)) for x in c)


def _nats(l):
    return clist(cnat(x) for x in l) if l else "(@nil nat)"


def _op(op):
    if op[0] == "set":
        return "(SetDemand %s)" % cQ(un(op[1]))
    if op[0] == "child":
        a = {"supply": "ASupply", "util": "AUtil", "alloc": "AAlloc", "demand": "ADemand"}[op[2]]
        return "(ChildSet %s %s %s)" % (cnat(op[1]), a, cQ(un(op[3])))
    if op[0] == "collect":
        return "(Collect %s)" % cnat(op[1])
    return "(Adjust %s)" % _nats(op[1])


def _obs(o):
    def q(x):
        return cQ(un(x)) if x != "nonfinite" else cQ(-777777)
    return "(mkObs %s %s %s %s %s %s %s %s)" % (
        _nats(o["hatchery"]), _nats(o["mortuary"]),
        clist(q(x) for x in o["demands"]) if o["demands"] else "(@nil Q)",
        q(o["demand"]), q(o["supply"]), q(o["util"]), q(o["alloc"]), cnat(o["calls"]))


def coq_case(case, res):
    if "obs" not in res:
        return "(mkCase nil nil (mkChild 0 0 0 0) nil nil EndOutOfFuel)"
    end = {"ok": "EndOk", "assertion": "EndAssertion"}.get(res["end"], "EndOutOfFuel")
    return "(mkCase %s %s %s %s %s %s)" % (
        clist(_child(c) for c in case["children"]) if case["children"] else "(@nil child)",
        clist(_child(c) for c in case["script"]) if case["script"] else "(@nil child)",
        _child(case["default"]),
        clist(_op(o) for o in res["ops"]) if res["ops"] else "(@nil op)",
        clist(_obs(o) for o in res["obs"]), end)


def distribution(results):
    d = {"initial_children": {}, "ops": {}, "endings": {}, "spawned_total": 0, "released_total": 0,
         "adjust_grew": 0, "adjust_shrank": 0, "collected": 0, "max_children": 0}
    for (c, r, _v) in results:
        k = str(len(c["children"]))
        d["initial_children"][k] = d["initial_children"].get(k, 0) + 1
        if "obs" not in r:
            continue
        d["endings"][r["end"]] = d["endings"].get(r["end"], 0) + 1
        for op in r["ops"]:
            d["ops"][op[0]] = d["ops"].get(op[0], 0) + 1
        o = r["obs"]
        for a, b in zip(o, o[1:]):
            if b["calls"] > a["calls"]:
                d["adjust_grew"] += 1
                d["spawned_total"] += b["calls"] - a["calls"]
            rel = len(set(a["hatchery"]) - set(b["hatchery"]))
            if rel:
                d["adjust_shrank"] += 1
                d["released_total"] += rel
            d["max_children"] = max(d["max_children"], len(b["hatchery"]) + len(b["mortuary"]))
        d["collected"] += sum(1 for op in r["ops"] if op[0] == "collect")
    return d


def shrink(case, still_fails):
    cur = case
    changed = True
    while changed:
        changed = False
        for i in range(len(cur["ops"])):
            cand = dict(cur, ops=cur["ops"][:i] + cur["ops"][i + 1:])
            try:
                if cand["ops"] and still_fails(cand):
                    cur, changed = cand, True
                    break
            except Exception:
                pass
        if changed:
            continue
        for i in range(len(cur["children"]) - 1, -1, -1):
            cand = dict(cur, children=cur["children"][:i] + cur["children"][i + 1:])
            try:
                if still_fails(cand):
                    cur, changed = cand, True
                    break
            except Exception:
                pass
    return cur


# ------------------------------------------------------------------ translator tie
TIE_TARGETS = ["props/C15_tie.vo"]


def regen(chk):
    """regenerate gen/Gen_factory.v from the current composite/factory.py"""
    import os
    from . import common
    from py2coq import units
    res = units.regen(common.REPO, os.path.join(common.COQDIR, "gen"), ["Gen_factory.v"])
    chk.coverage["translator"] = res
    bad = [v for v in res.values() if v != "ok"]
    if bad:
        raise RuntimeError(bad[0])
