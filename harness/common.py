"""
Shared machinery of the cobald verification framework (see DESIGN.md section 2).

One property check =
  1. (re)generate the Coq files derived from /repo (translator tie, if the property has one)
  2. build the property's theorem file with coqc (full .vo build, under timeout)
  3. run the implementation on generated cases, evaluate the python oracle on every case
  4. evaluate the SAME cases through the Gallina model inside coqc (vm_compute) and collect
     the indices on which model and implementation disagree  (correspondence tie)
  5. verdict + evidence + replay files
"""
import fcntl
import hashlib
import json
import os
import random
import re
import subprocess
import sys
import time
import traceback
from fractions import Fraction

VERIF = os.path.dirname(os.path.dirname(os.path.abspath(__file__)))
REPO = os.environ.get("VERIF_REPO", "/repo")
COQDIR = os.path.join(VERIF, "coq")
BUILD = os.path.join(VERIF, "build")
PY = "/venv/bin/python"
GUARD = "COBALD_VERIF"

FORBIDDEN = re.compile(
    r"\b(Admitted|admit|Axiom|Axioms|Parameter|Parameters|Conjecture|Conjectures|"
    r"Unset\s+Guard|bypass_check|Admit\s+Obligations|native_compute|type-in-type|"
    r"impredicative-set)\b"
)


def impl_env(extra=None):
    env = dict(os.environ)
    env["PYTHONPATH"] = os.path.join(REPO, "src")
    env["PYTHONHASHSEED"] = "0"
    env["PYTHONDONTWRITEBYTECODE"] = "1"
    env[GUARD] = "1"
    if extra:
        env.update(extra)
    return env


def use_repo_sources():
    """Make in-process imports of cobald come from REPO's working tree."""
    src = os.path.join(REPO, "src")
    if src in sys.path:
        sys.path.remove(src)
    sys.path.insert(0, src)
    os.environ[GUARD] = "1"
    sys.dont_write_bytecode = True
    for name in list(sys.modules):
        if name == "cobald" or name.startswith("cobald."):
            mod = sys.modules[name]
            f = getattr(mod, "__file__", None) or ""
            if f and not f.startswith(src):
                del sys.modules[name]


# --------------------------------------------------------------------------------------
# Coq term printing helpers
# --------------------------------------------------------------------------------------
def cZ(z):
    z = int(z)
    return "(%d)%%Z" % z


def cN(n):
    return "%d%%N" % int(n)


def cnat(n):
    n = int(n)
    assert 0 <= n < 5000, "nat literal too large"
    return "%d%%nat" % n


def cbool(b):
    return "true" if b else "false"


def cQ(x):
    """Exact rational -> Coq Q term. Accepts int, Fraction, float (finite, exact dyadic)."""
    if isinstance(x, bool):
        x = int(x)
    if isinstance(x, float):
        x = Fraction(x)
    x = Fraction(x)
    return "(Qmake (%d)%%Z %d%%positive)" % (x.numerator, x.denominator)


def clist(items):
    items = list(items)
    if not items:
        return "nil"
    return "[" + "; ".join(items) + "]"


def cstr(s):
    """python str -> Coq `list N` of unicode code points (kit/PyStr.v: str := list N)."""
    return clist("%d%%N" % ord(ch) for ch in s) if s else "(@nil N)"


def cbytes(b):
    return clist("%d%%N" % x for x in b) if b else "(@nil N)"


def copt(x, f):
    return "None" if x is None else "(Some %s)" % f(x)


def cpair(a, b):
    return "(%s, %s)" % (a, b)


# --------------------------------------------------------------------------------------
# Coq build / evaluation
# --------------------------------------------------------------------------------------
class CoqLock:
    def __enter__(self):
        os.makedirs(BUILD, exist_ok=True)
        self.f = open(os.path.join(BUILD, ".coq.lock"), "w")
        fcntl.flock(self.f, fcntl.LOCK_EX)
        return self

    def __exit__(self, *a):
        fcntl.flock(self.f, fcntl.LOCK_UN)
        self.f.close()


def ensure_makefile():
    subprocess.run(
        [os.path.join(VERIF, "tools", "mkcoqproject.sh")], check=True, cwd=VERIF,
        stdout=subprocess.DEVNULL,
    )


def scan_forbidden(paths=None):
    """grep for Admitted/Axiom/... in the given .v files (relative to coq/), default: all."""
    hits = []
    if paths is None:
        paths = []
        for root, _dirs, files in os.walk(COQDIR):
            paths += [os.path.relpath(os.path.join(root, fn), COQDIR) for fn in files if fn.endswith(".v")]
    for rel in paths:
        if True:
            p = os.path.join(COQDIR, rel)
            if not os.path.exists(p):
                continue
            with open(p, encoding="utf-8", errors="replace") as fh:
                for i, line in enumerate(fh, 1):
                    code = re.sub(r"\(\*.*?\*\)", "", line)
                    if FORBIDDEN.search(code):
                        hits.append("%s:%d: %s" % (os.path.relpath(p, VERIF), i, line.strip()))
    return hits


def coq_make(targets, timeout=900, force=()):
    """make the given .vo targets (relative to coq/). `force` targets are removed first so
    that their output (Print Assumptions) is produced again. Returns (ok, log)."""
    with CoqLock():
        ensure_makefile()
        for t in force:
            for ext in ("", "k", "s"):
                try:
                    os.remove(os.path.join(COQDIR, t + ext if ext else t))
                except FileNotFoundError:
                    pass
        cmd = ["timeout", str(timeout), "make", "-j16", "-C", COQDIR] + list(targets)
        p = subprocess.run(cmd, stdout=subprocess.PIPE, stderr=subprocess.STDOUT, text=True)
        return p.returncode == 0, p.stdout


def parse_assumptions(log):
    """Extract the Print Assumptions blocks from a coqc log: list of text blocks."""
    out = []
    lines = log.splitlines()
    i = 0
    while i < len(lines):
        ln = lines[i]
        if ln.startswith("Closed under the global context"):
            out.append("Closed under the global context")
        elif ln.startswith("Axioms:"):
            blk = [ln]
            i += 1
            while i < len(lines) and (lines[i].startswith(" ") or lines[i].strip() == "" or ":" in lines[i]) \
                    and not lines[i].startswith(("COQC", "make", "Closed", "File")):
                if lines[i].strip():
                    blk.append(lines[i])
                i += 1
            out.append("\n".join(blk))
            continue
        i += 1
    return out


_STMT = re.compile(r"^\s*(Theorem|Lemma|Corollary|Example|Fact|Proposition|Remark)\s+([A-Za-z0-9_']+)", re.M)


def count_statements(vfiles):
    names = []
    for vf in vfiles:
        p = os.path.join(COQDIR, vf)
        if os.path.exists(p):
            with open(p, encoding="utf-8") as fh:
                names += ["%s:%s" % (vf, m.group(2)) for m in _STMT.finditer(fh.read())]
    return names


def dep_cone(vfile):
    """transitive .v dependencies of coq/<vfile> inside the development (via coqdep)."""
    seen, todo = [], [vfile]
    while todo:
        f = todo.pop()
        if f in seen:
            continue
        seen.append(f)
        p = subprocess.run(["coqdep", "-R", ".", "Cobald", f], cwd=COQDIR,
                           stdout=subprocess.PIPE, stderr=subprocess.DEVNULL, text=True)
        for line in p.stdout.splitlines():
            if line.startswith(f[:-2] + ".vo"):
                for d in line.split(":", 1)[1].split():
                    if d.endswith(".vo") and not d.startswith("/"):
                        v = d[:-1]
                        if v != f and os.path.exists(os.path.join(COQDIR, v)):
                            todo.append(v)
    return seen


class CoqEvalError(Exception):
    pass


def coq_eval_cases(prop_id, prelude, check_fn, case_type, terms, shard=300, timeout=600, tag="corr"):
    """Evaluate `check_fn : case_type -> bool` on every Coq term in `terms` inside coqc
    (vm_compute) and return the sorted list of indices for which it is false."""
    d = os.path.join(BUILD, tag, prop_id)
    os.makedirs(d, exist_ok=True)
    for fn in os.listdir(d):
        os.remove(os.path.join(d, fn))
    files = []
    for k in range(0, len(terms), shard):
        chunk = terms[k:k + shard]
        name = "cases_%s_%d" % (prop_id, k // shard)
        path = os.path.join(d, name + ".v")
        with open(path, "w", encoding="utf-8") as fh:
            fh.write("From Coq Require Import ZArith QArith List NArith String.\nImport ListNotations.\n")
            fh.write(prelude + "\n")
            fh.write("Definition cases : list (%s) :=\n  [ " % case_type)
            fh.write("\n  ; ".join(chunk))
            fh.write("\n  ].\n")
            fh.write("Definition bad := Cobald.kit.Corr.failing (%s) cases.\n" % check_fn)
            fh.write("Eval vm_compute in (List.length cases, bad).\n")
        files.append((k, path))
    if not files:
        return []
    procs = []
    failing = []
    errors = []
    # run up to 12 coqc in parallel
    pending = list(files)
    running = []
    while pending or running:
        while pending and len(running) < 12:
            k, path = pending.pop(0)
            p = subprocess.Popen(
                ["timeout", str(timeout), "coqc", "-R", COQDIR, "Cobald", "-w", "none", path],
                stdout=subprocess.PIPE, stderr=subprocess.STDOUT, text=True, cwd=d)
            running.append((k, path, p))
        k, path, p = running.pop(0)
        out, _ = p.communicate()
        if p.returncode != 0:
            errors.append("%s: coqc exit %s\n%s" % (path, p.returncode, out[-3000:]))
            continue
        flat = " ".join(out.split())
        m = re.search(r"= \((\d+)%?\w*, (nil|\[[^\]]*\])\s*\)", flat)
        if not m:
            errors.append("%s: cannot parse output: %s" % (path, flat[-500:]))
            continue
        if m.group(2) != "nil":
            for tok in re.findall(r"\d+", m.group(2)):
                failing.append(k + int(tok))
    if errors:
        raise CoqEvalError("\n".join(errors))
    return sorted(failing)


# --------------------------------------------------------------------------------------
# Known findings
# --------------------------------------------------------------------------------------
def load_known_findings():
    out = []
    p = os.path.join(VERIF, "known_findings.json")
    if os.path.exists(p):
        with open(p) as fh:
            out += json.load(fh).get("findings", [])
    d = os.path.join(VERIF, "findings.d")   # per-property fragments (merged into known_findings.json by tools/mkmanifest.py)
    if os.path.isdir(d):
        for fn in sorted(os.listdir(d)):
            if fn.endswith(".json"):
                with open(os.path.join(d, fn)) as fh:
                    out += json.load(fh).get("findings", [])
    return out


# --------------------------------------------------------------------------------------
# A run of one property check
# --------------------------------------------------------------------------------------
def canon_hash(obj):
    return hashlib.sha1(json.dumps(obj, sort_keys=True, default=str).encode()).hexdigest()


class Check:
    def __init__(self, prop_id, tier=None, seed=None):
        self.id = prop_id
        self.tier = tier or os.environ.get("VERIF_TIER") or "quick"
        if self.tier not in ("quick", "thorough"):
            self.tier = "quick"
        try:
            self.seed = int(seed if seed is not None else os.environ.get("VERIF_SEED", "20260930"))
        except ValueError:
            self.seed = 20260930
        self.t0 = time.time()
        self.violations = []        # (replay_path, no_input)
        self.known_printed = []
        self.coverage = {}
        self.assumptions = []
        self.notes = []
        self.known = [f for f in load_known_findings() if f.get("property") == prop_id]

    def rng(self, stream=""):
        return random.Random("%s/%s/%s" % (self.seed, self.id, stream))

    # ---- reporting -------------------------------------------------------------
    def violation(self, replay, no_input=False):
        os.makedirs(os.path.join(VERIF, "replays"), exist_ok=True)
        replay = dict(replay)
        replay.setdefault("property", self.id)
        replay.setdefault("seed", self.seed)
        replay.setdefault("tier", self.tier)
        h = canon_hash(replay)[:12]
        path = os.path.join(VERIF, "replays", "%s-%s.json" % (self.id, h))
        with open(path, "w") as fh:
            json.dump(replay, fh, indent=1, sort_keys=True, default=str)
        line = "VIOLATION property=%s replay=%s" % (self.id, path)
        if no_input:
            line += " no-failing-input-found"
        print(line, flush=True)
        self.violations.append((path, no_input))

    def known_finding(self, finding_id, what):
        """Print one KNOWN-FINDING line per listed finding (status 'known' only)."""
        for f in self.known:
            if f.get("id") == finding_id and f.get("status") == "known":
                if finding_id not in self.known_printed:
                    print("KNOWN-FINDING: property=%s %s" % (self.id, f.get("what", what)), flush=True)
                    self.known_printed.append(finding_id)
                return True
        return False

    def is_known(self, finding_id):
        return any(f.get("id") == finding_id and f.get("status") == "known" for f in self.known)

    def note(self, msg):
        self.notes.append(msg)
        print("[%s] %s" % (self.id, msg), flush=True)

    # ---- coq ------------------------------------------------------------------
    def build_props(self, targets, timeout=900):
        """Build the property theorem files (forced rebuild) and collect Print Assumptions."""
        ok, log = coq_make(targets, timeout=timeout, force=targets)
        self.build_log = log
        self.assumptions = parse_assumptions(log)
        bad_axioms = [a for a in self.assumptions if a != "Closed under the global context"]
        vfiles = []
        for t in targets:
            for v in dep_cone(t[:-1]):
                if v not in vfiles:
                    vfiles.append(v)
        hits = scan_forbidden(vfiles)
        stmts = count_statements(vfiles)
        self.coverage.update({
            "obligations": len(stmts),
            "discharged": len(stmts) if ok else 0,
            "checker_cmd": "make -C coq %s   (coqc 8.16.1, full .vo build; Print Assumptions under every property theorem)" % " ".join(targets),
            "theorem_files": vfiles,
            "property_theorems": [s for s in stmts if s.startswith("props/")],
            "print_assumptions": self.assumptions,
            "forbidden_constructs_found": hits,
        })
        if hits:
            ok = False
            log += "\nFORBIDDEN constructs:\n" + "\n".join(hits)
        if ok and self.tier == "thorough" and not os.environ.get("VERIF_NO_COQCHK"):
            # independent re-check of the compiled theorem files and everything they depend on
            mods = ["Cobald." + t[:-3].replace("/", ".") for t in targets]
            try:
                pc = subprocess.run(["timeout", "1500", "coqchk", "-silent", "-o", "-R", ".", "Cobald"] + mods,
                                    cwd=COQDIR, stdout=subprocess.PIPE, stderr=subprocess.STDOUT, text=True)
                tail = pc.stdout[pc.stdout.find("CONTEXT SUMMARY"):] if "CONTEXT SUMMARY" in pc.stdout else pc.stdout[-600:]
                self.coverage["coqchk"] = {"exit": pc.returncode, "summary": " ".join(tail.split())[:800]}
                if pc.returncode != 0:
                    ok = False
                    log += "\ncoqchk failed:\n" + pc.stdout[-1500:]
            except Exception as e:  # coqchk unavailable: recorded, not fatal
                self.coverage["coqchk"] = {"error": str(e)}
        if bad_axioms:
            self.note("axioms reported by Print Assumptions: %s" % bad_axioms)
        return ok, log

    # ---- evidence --------------------------------------------------------------
    def write_evidence(self, trusted_base, assumptions, level="proof"):
        cov = dict(self.coverage)
        cov.setdefault("trusted_base", trusted_base)
        cov.setdefault("obligations", 0)
        cov.setdefault("discharged", 0)
        cov.setdefault("checker_cmd", "coqc 8.16.1")
        cov["notes"] = self.notes
        cov["known_findings_reported"] = self.known_printed
        ev = {
            "property_id": self.id,
            "tier": self.tier,
            "seed": self.seed,
            "level": level,
            "coverage": cov,
            "assumptions": assumptions,
            "wall_s": round(time.time() - self.t0, 2),
            "violations": len(self.violations),
        }
        os.makedirs(os.path.join(VERIF, "evidence"), exist_ok=True)
        with open(os.path.join(VERIF, "evidence", "%s.json" % self.id), "w") as fh:
            json.dump(ev, fh, indent=1, default=str)

    def exit_code(self):
        return 1 if self.violations else 0


def load_scale():
    """how much slower than an idle machine things are right now: 1 on an idle machine, up to 4 when the run queue is
    several times the number of cores.  Quiet periods and time bounds of the timed checks are stretched by it
    (a loaded machine must not make a check report that something "never happened")."""
    forced = os.environ.get("VERIF_TIME_SCALE")
    if forced:
        return max(1.0, float(forced))
    try:
        per_core = os.getloadavg()[0] / max(1, os.cpu_count() or 1)
    except OSError:
        return 1.0
    return 1.0 if per_core < 0.75 else min(4.0, 1.0 + per_core)


# --------------------------------------------------------------------------------------
# Generic driver for "pure" properties (hand model + correspondence + oracle)
# --------------------------------------------------------------------------------------
def run_pure(mod, tier=None, seed=None, replay=None):
    """
    `mod` is a property module providing:
      ID, COQ_TARGETS, CORR_PRELUDE, CORR_CHECK, CORR_TYPE, TRUSTED_BASE, ASSUMPTIONS, RULE
      gen_cases(rng, n) -> iterable of JSON-able cases  (boundary corpus first, then random)
      run_impl(case) -> JSON-able observation of the implementation
      coq_case(case, obs) -> Coq term : CORR_TYPE   (input and observation)
      oracle(case, obs) -> list of (finding_id_or_None, message): direct violations of the property
      nontrivial(case, obs) -> bool
      N_QUICK, N_THOROUGH
    optional: shrink(case, still_fails) -> smaller case ; EXTRA(check) -> extra work
    """
    chk = Check(mod.ID, tier, seed)
    use_repo_sources()
    if hasattr(mod, "setup"):
        mod.setup(chk)

    if replay:
        with open(replay) as fh:
            rp = json.load(fh)
        case = rp.get("case")
        obs = mod.run_impl(case)
        viol = mod.oracle(case, obs)
        print(json.dumps({"case": case, "observation": obs, "oracle": viol}, indent=1, default=str))
        return 1 if viol else 0

    # 0. translator tie (optional)
    tie_T = None
    if hasattr(mod, "regen"):
        try:
            mod.regen(chk)
            tie_T = "ok"
        except Exception as e:  # fail-closed translator
            tie_T = "broken: %s" % e
            chk.note("translator tie lost: %s" % e)

    # 1. theorems
    ok_build, log = chk.build_props(mod.COQ_TARGETS)
    broken = []
    if not ok_build:
        tail = "\n".join(log.splitlines()[-25:])
        chk.note("coq build failed:\n" + tail)
        broken.append({"kind": "proof", "detail": tail})

    # 1b. translator-tie theorems (generated terms = reference model).  A lost tie alone is not an alarm
    # (a harmless rewrite can break it): the correspondence is then run at thorough strength.
    if hasattr(mod, "TIE_TARGETS"):
        if tie_T == "ok":
            ok_tie, log_tie = coq_make(mod.TIE_TARGETS, timeout=600, force=mod.TIE_TARGETS)
            tie_ass = parse_assumptions(log_tie)
            chk.coverage["tie_theorems"] = count_statements([t[:-1] for t in mod.TIE_TARGETS])
            chk.coverage["tie_print_assumptions"] = tie_ass
            if not ok_tie or any(a != "Closed under the global context" for a in tie_ass):
                tail = "\n".join(log_tie.splitlines()[-12:])
                tie_T = "broken: the generated kernels no longer provably equal the reference model:\n" + tail
                chk.note("translator tie lost: " + tail)
            else:
                chk.coverage["obligations"] = chk.coverage.get("obligations", 0) + len(chk.coverage["tie_theorems"])
                chk.coverage["discharged"] = chk.coverage.get("discharged", 0) + len(chk.coverage["tie_theorems"])
        if tie_T != "ok":
            chk.note("escalating the correspondence to thorough strength because the translator tie is lost")

    # 2. cases + oracle
    n = mod.N_THOROUGH if chk.tier == "thorough" else mod.N_QUICK
    if hasattr(mod, "TIE_TARGETS") and tie_T != "ok":
        n = max(n, mod.N_THOROUGH)
    results = execute_cases(chk, mod, n, "main")
    unknown_viol = report_oracle(chk, mod, results)

    # 3. correspondence
    mism = []
    corr_err = None
    if ok_build or getattr(mod, "CORR_INDEPENDENT_OF_PROPS", True):
        try:
            okc, logc = coq_make(getattr(mod, "CORR_TARGETS", []), timeout=900)
            if not okc:
                raise CoqEvalError("correspondence model does not build:\n" + "\n".join(logc.splitlines()[-20:]))
            terms_all = [mod.coq_case(c, o) for (c, o, _v) in results]
            idx = [i for i, t in enumerate(terms_all) if t is not None]      # None = oracle-only case
            terms = [terms_all[i] for i in idx]
            bad = coq_eval_cases(mod.ID, mod.CORR_PRELUDE, mod.CORR_CHECK, mod.CORR_TYPE, terms)
            mism = [results[idx[i]] for i in bad]
            chk.coverage["oracle_only_cases"] = len(terms_all) - len(terms)
        except CoqEvalError as e:
            corr_err = str(e)
            chk.note("correspondence could not be evaluated: %s" % corr_err[-1500:])
    if mism:
        broken.append({"kind": "correspondence", "detail": "%d of %d cases disagree; first: %s" % (
            len(mism), len(results), json.dumps({"case": mism[0][0], "impl": mism[0][1]}, default=str)[:1500])})
    if corr_err:
        broken.append({"kind": "correspondence", "detail": corr_err[-2000:]})
    if tie_T and tie_T != "ok" and not broken:
        # translator tie lost but theorems + correspondence hold: pass, recorded
        pass

    # 4. something broke but no concrete violation yet: search harder for a failing input
    if broken and not unknown_viol:
        chk.note("a proof obligation / the correspondence broke; searching for a failing input")
        more = execute_cases(chk, mod, max(mod.N_THOROUGH, 4 * n), "search")
        unknown_viol = report_oracle(chk, mod, more)
        if not unknown_viol:
            chk.violation({
                "what": "property no longer shown to hold; no failing input found",
                "broken": broken,
                "mismatching_cases": [{"case": c, "impl": o} for (c, o, _v) in mism[:5]],
            }, no_input=True)

    distinct = {}
    for (c, o, _v) in results:
        if mod.nontrivial(c, o):
            distinct[canon_hash(c)] = 1
    chk.coverage.update({
        "evaluations": len(results),
        "distinct_nontrivial": len(distinct),
        "rule": mod.RULE,
        "samples": [{"case": c, "impl": o} for (c, o, _v) in results[:3]] + [{"case": c, "impl": o} for (c, o, _v) in results[-2:]],
        "correspondence_mismatches": len(mism),
        "tie": ("translator+correspondence" if tie_T == "ok" else
                ("correspondence-only (translator tie lost: %s)" % tie_T if tie_T else "correspondence")),
        "distribution": getattr(mod, "distribution", lambda r: {})(results),
    })
    chk.write_evidence(mod.TRUSTED_BASE, mod.ASSUMPTIONS)
    return chk.exit_code()


def execute_cases(chk, mod, n, stream):
    results = []
    rng = chk.rng(stream)
    for case in mod.gen_cases(rng, n):
        try:
            obs = mod.run_impl(case)
        except Exception as e:  # harness failure: surface loudly, as an observation
            obs = {"harness_error": "%s: %s" % (type(e).__name__, e), "tb": traceback.format_exc()[-800:]}
        viol = mod.oracle(case, obs)
        results.append((case, obs, viol))
    return results


def report_oracle(chk, mod, results):
    """Report oracle failures. Returns number of unknown (non-listed) violations."""
    unknown = 0
    seen = set()
    for (case, obs, viol) in results:
        for (fid, msg) in viol:
            if fid is not None and chk.is_known(fid):
                chk.known_finding(fid, msg)
                continue
            key = (fid, msg.split(":")[0])
            if key in seen:
                continue
            seen.add(key)
            small = case
            if hasattr(mod, "shrink"):
                try:
                    small = mod.shrink(case, lambda c: any(
                        (f2, m2.split(":")[0]) == key for (f2, m2) in mod.oracle(c, mod.run_impl(c))))
                except Exception:
                    small = case
            chk.violation({"what": msg, "finding_class": fid, "case": small,
                           "impl_observation": mod.run_impl(small) if small is not case else obs})
            unknown += 1
    return unknown
