"""C06 -- Standardiser: generators, implementation runner, oracle, Coq case printer.

Numbers cross every boundary with their python type tag and exact value:
  ["i", "<decimal>"]   int
  ["f", "p/q"]         finite float (always an exact dyadic rational here)
  ["f", "inf"] / ["f", "-inf"]
  ["nan"]              only ever an observation (ends the history, outcome ENaN in the model)
"""
import json
import os
import sys
from fractions import Fraction as F

from . import common
from .common import cQ, cZ, clist, cbool

ID = "C06"
COQ_TARGETS = ["props/C06.vo"]
CORR_TARGETS = ["corr/C06Corr.vo"]
CORR_PRELUDE = "From Cobald Require Import kit.QKit kit.PyNum kit.Corr model.Standardiser corr.C06Corr."
CORR_CHECK = "C06Corr.check"
CORR_TYPE = "C06Corr.case"
N_QUICK, N_THOROUGH = 1500, 12000
RULE = ("Standardiser over a plain recording pool; parameter combinations with 0-5 limits active (ints, dyadic "
        "floats, +-inf; minimum == maximum; fractional limits), constructor rejections (ValueError), histories of "
        "1-30 operations (demand writes, demand reads, supply changes, outside writes of target.demand, "
        "read-modify-write increments) with written values on every limit / window edge / multiple of the "
        "granularity and one granule, 1 and 1/4 either side; twin histories n x (+1) versus 1 x (+n). Boundary corpus "
        "first, then seeded random. (An out-of-domain stream -- infinite granularity / infinite written values, NaN "
        "outcome -- is compared in an informational pass only.) non-trivial = accepted parameters and at least one write changed by a limit "
        "or by the granularity")
TRUSTED_BASE = [
    "Coq 8.16.1 kernel + vm_compute (bytecode VM) for evaluating the model on the cases",
    "harness/c06.py: recording target pool, canonicalisation of numbers (type tag + exact rational / infinity)",
    "model/Standardiser.v + kit/PyNum.v are hand-written; tied to src/cobald/decorator/standardiser.py by the "
    "correspondence run only (no translator)",
    "ideal arithmetic: binary64 rounding and int->float overflow are not modelled (cases use ints and dyadic "
    "floats of small magnitude, on which python's arithmetic is exact)",
]
ASSUMPTIONS = [
    "the target is a plain pool: writing its demand stores the value, nothing else changes as a side effect",
    "domain of the theorems: finite supply, finite written values, finite granularity; limits may be infinite. "
    "NaN never enters (no NaN constructor in the model; NaN-producing operations are the explicit outcome ENaN)",
    "granularity == 1 is the documented 'no limit' default: the code does not floor then, so a non-integral float "
    "written with granularity 1 is forwarded unrounded (reading decision, not a finding)",
    "'n increments of 1 equal one increment of n' is read for increments on which no limit interferes "
    "(it is false once maximum clips: max=6, g=4, 6 -> +1,+1 forwards 4, +2 forwards 6)",
]

INF = float("inf")
PARAMS = ["minimum", "maximum", "granularity", "backlog", "surplus"]
DEFAULTS = {"minimum": ["f", "-inf"], "maximum": ["f", "inf"], "granularity": ["i", "1"],
            "backlog": ["f", "inf"], "surplus": ["f", "inf"]}


# ------------------------------------------------------------------ number encoding
def enc(x):
    if isinstance(x, bool):
        return ["other", "bool"]
    if isinstance(x, int):
        return ["i", str(x)]
    if isinstance(x, float):
        if x != x:
            return ["nan"]
        if x == INF:
            return ["f", "inf"]
        if x == -INF:
            return ["f", "-inf"]
        q = F(x)
        return ["f", "%d/%d" % (q.numerator, q.denominator)]
    return ["other", type(x).__name__]


def dec(e):
    if e[0] == "i":
        return int(e[1])
    if e[0] == "f":
        if e[1] == "inf":
            return INF
        if e[1] == "-inf":
            return -INF
        q = F(e[1])
        x = float(q)
        assert F(x) == q, "not exactly representable: %s" % e[1]
        return x
    raise ValueError(e)


def V(e):
    """exact value: Fraction, or +-inf as float"""
    if e[0] == "i":
        return F(int(e[1]))
    if e[0] == "f":
        if e[1] == "inf":
            return INF
        if e[1] == "-inf":
            return -INF
        return F(e[1])
    raise ValueError(e)


def fin(x):
    return isinstance(x, F)


def num_of(q, rng=None, prefer=None):
    """encode an exact dyadic value as int or float"""
    if q in (INF, -INF):
        return ["f", "inf" if q > 0 else "-inf"]
    q = F(q)
    as_int = q.denominator == 1 and (prefer == "i" or (prefer is None and (rng is None or rng.random() < 0.6)))
    if as_int:
        return ["i", str(q.numerator)]
    return ["f", "%d/%d" % (q.numerator, q.denominator)]


# ------------------------------------------------------------------ generation
def rnd_dy(rng, lo=-10, hi=40):
    r = rng.random()
    if r < 0.5:
        return F(rng.randint(lo, hi))
    if r < 0.85:
        return F(rng.randint(lo * 4, hi * 4), 4)
    if r < 0.95:
        return F(rng.randint(lo * 16, hi * 16), 16)
    return F(rng.randint(-5, 5) * 2 ** 30 + rng.randint(-3, 3))


GRANS = [F(1), F(2), F(3), F(4), F(5), F(7), F(10), F(1, 2), F(1, 4), F(3, 2), F(5, 2), F(3, 4), F(64)]


def gen_params(rng):
    k = rng.choice([0, 1, 1, 2, 2, 2, 3, 3, 4, 5, 5])
    active = rng.sample(PARAMS, k)
    par = {}
    mn = None
    if "minimum" in active:
        r = rng.random()
        mn = -INF if r < 0.08 else (INF if r < 0.11 else rnd_dy(rng, -10, 30))
        par["minimum"] = num_of(mn, rng)
    if "maximum" in active:
        r = rng.random()
        base = mn if mn is not None and mn != -INF else rnd_dy(rng, -10, 30)
        if r < 0.1:
            mx = INF
        elif r < 0.13 and (mn is None or mn == -INF):
            mx = -INF
        elif r < 0.3:
            mx = base            # minimum == maximum
        elif base == INF:
            mx = INF
        else:
            mx = base + rng.choice([F(1, 4), F(1, 2), F(1), F(2), F(3), F(5), F(10), F(30)])
        par["maximum"] = num_of(mx, rng)
    if "granularity" in active:
        par["granularity"] = num_of(rng.choice(GRANS), rng)
    for name in ("backlog", "surplus"):
        if name in active:
            r = rng.random()
            q = INF if r < 0.12 else rng.choice([F(1, 4), F(1, 2), F(1), F(2), F(3), F(5), F(15, 2), F(10)])
            par[name] = num_of(q, rng)
    return par


def break_params(rng, par):
    par = dict(par)
    which = rng.choice(["order", "surplus", "backlog", "granularity"])
    if which == "order":
        mn = rnd_dy(rng, -10, 30)
        r = rng.random()
        if r < 0.15:
            par["minimum"], par["maximum"] = ["f", "inf"], num_of(mn, rng)
        elif r < 0.3:
            par["minimum"], par["maximum"] = num_of(mn, rng), ["f", "-inf"]
        else:
            par["minimum"] = num_of(mn, rng)
            par["maximum"] = num_of(mn - rng.choice([F(1, 4), F(1), F(7)]), rng)
    else:
        r = rng.random()
        bad = F(0) if r < 0.45 else (-INF if r < 0.55 else -rng.choice([F(1, 4), F(1), F(3)]))
        par[which] = num_of(bad, rng)
    return par


def full_params(par):
    return {k: par.get(k, DEFAULTS[k]) for k in PARAMS}


def interesting_values(par, supply):
    """every limit, window edge, multiples of the granularity around them; +- one granule, 1, 1/4"""
    P = {k: V(v) for k, v in full_params(par).items()}
    g = P["granularity"] if fin(P["granularity"]) and P["granularity"] > 0 else F(1)
    pts = [F(0), supply]
    for x in (P["minimum"], P["maximum"]):
        if fin(x):
            pts.append(x)
    if fin(P["backlog"]):
        pts.append(supply - P["backlog"])
    if fin(P["surplus"]):
        pts.append(supply + P["surplus"])
    out = []
    for p in pts:
        fl = (p // g) * g
        for b in (p, fl, fl + g):
            for d in (F(0), g, -g, F(1), F(-1), F(1, 4), F(-1, 4)):
                out.append(b + d)
    return out


def gen_ops(rng, par, pool, n_ops, allow_ood=False):
    ops = []
    supply = V(pool["supply"])
    vals = interesting_values(par, supply)
    for _ in range(n_ops):
        r = rng.random()
        if r < 0.45:
            q = rng.choice(vals) if rng.random() < 0.7 else rnd_dy(rng, -20, 60)
            if allow_ood and rng.random() < 0.15:
                q = rng.choice([INF, -INF])
            ops.append(["w", num_of(q, rng)])
        elif r < 0.68:
            ops.append(["r"])
        elif r < 0.78:
            supply = rnd_dy(rng, -5, 30)
            vals = interesting_values(par, supply)
            ops.append(["s", num_of(supply, rng)])
        elif r < 0.92:
            q = rng.choice(vals) if rng.random() < 0.6 else rnd_dy(rng, -20, 60)
            if allow_ood and rng.random() < 0.15:
                q = rng.choice([INF, -INF])
            ops.append(["o", num_of(q, rng)])
        else:
            ops.append(["incr", rng.choice([1, 1, 2, 3, -1, 5])])
    return ops


def gen_pool(rng):
    return {"demand": num_of(rnd_dy(rng, -5, 30), rng), "supply": num_of(rnd_dy(rng, -5, 30), rng),
            "util": num_of(F(rng.randint(0, 16), 16), rng, prefer="f"),
            "alloc": num_of(F(rng.randint(0, 16), 16), rng, prefer="f")}


def I(n):
    return ["i", str(n)]


def Fl(s):
    return ["f", s]


def corpus():
    pool = {"demand": I(0), "supply": I(0), "util": Fl("1/2"), "alloc": Fl("3/4")}
    # defaults: no limit at all (floats pass unrounded at granularity 1: reading decision)
    yield {"par": {}, "pool": pool, "hists": [[["w", I(7)], ["r"], ["w", Fl("15/2")], ["r"], ["w", I(-3)], ["r"]]], "incr": None}
    # fractional minimum with integer demands (the cast that was fixed)
    yield {"par": {"minimum": Fl("21/2")}, "pool": pool, "hists": [[["w", I(3)], ["r"], ["w", I(11)], ["r"], ["w", Fl("21/2")], ["r"]]], "incr": None}
    # infinite limits with integer demands
    yield {"par": {"minimum": Fl("inf"), "maximum": Fl("inf")}, "pool": pool, "hists": [[["w", I(3)], ["r"], ["r"], ["o", I(5)], ["r"]]], "incr": None}
    yield {"par": {"minimum": Fl("-inf"), "maximum": Fl("-inf")}, "pool": pool, "hists": [[["w", I(3)], ["r"], ["w", Fl("5/2")], ["r"]]], "incr": None}
    # each limit alone, values on the boundary and one granule either side
    yield {"par": {"minimum": I(10)}, "pool": pool, "hists": [[["w", I(9)], ["r"], ["w", I(10)], ["r"], ["w", I(11)], ["r"]]], "incr": None}
    yield {"par": {"maximum": I(10)}, "pool": pool, "hists": [[["w", I(9)], ["r"], ["w", I(10)], ["r"], ["w", I(11)], ["r"]]], "incr": None}
    yield {"par": {"granularity": I(5)}, "pool": pool, "hists": [[["w", I(4)], ["r"], ["w", I(5)], ["r"], ["w", I(9)], ["r"], ["w", I(-1)], ["r"], ["w", Fl("19/2")], ["r"]]], "incr": None}
    yield {"par": {"granularity": Fl("5/2")}, "pool": pool, "hists": [[["w", I(4)], ["r"], ["w", I(5)], ["r"], ["w", Fl("-1/4")], ["r"]]], "incr": None}
    yield {"par": {"granularity": Fl("1/1")}, "pool": pool, "hists": [[["w", Fl("15/2")], ["r"]]], "incr": None}
    p5 = dict(pool, supply=I(5))
    yield {"par": {"surplus": I(3)}, "pool": p5, "hists": [[["w", I(7)], ["r"], ["w", I(8)], ["r"], ["w", I(9)], ["r"], ["s", I(20)], ["r"], ["w", I(9)], ["r"]]], "incr": None}
    yield {"par": {"backlog": I(3)}, "pool": p5, "hists": [[["w", I(1)], ["r"], ["w", I(2)], ["r"], ["w", I(3)], ["r"]]], "incr": None}
    # two limits: granularity is weakest, window next, minimum/maximum overrule
    yield {"par": {"granularity": I(4), "minimum": I(6)}, "pool": pool, "hists": [[["w", I(7)], ["r"], ["w", I(3)], ["r"], ["w", I(8)], ["r"]]], "incr": None}
    yield {"par": {"granularity": I(4), "surplus": I(3)}, "pool": p5, "hists": [[["w", I(7)], ["r"], ["w", I(9)], ["r"], ["w", I(30)], ["r"]]], "incr": None}
    yield {"par": {"surplus": I(3), "minimum": I(20)}, "pool": p5, "hists": [[["w", I(7)], ["r"], ["w", I(25)], ["r"]]], "incr": None}      # window incompatible: minimum wins
    yield {"par": {"backlog": I(2), "maximum": I(1)}, "pool": p5, "hists": [[["w", I(7)], ["r"], ["w", I(0)], ["r"]]], "incr": None}        # window incompatible: maximum wins
    yield {"par": {"minimum": I(2), "maximum": I(12), "granularity": I(5), "backlog": I(4), "surplus": Fl("7/2")}, "pool": p5,
           "hists": [[["w", I(-3)], ["r"], ["w", I(4)], ["r"], ["w", I(9)], ["r"], ["w", I(14)], ["r"], ["s", I(11)], ["w", I(14)], ["r"], ["w", I(30)], ["r"]]], "incr": None}
    # getter: resynchronise exactly at one granule, not below
    yield {"par": {"granularity": I(5)}, "pool": pool, "hists": [[["w", I(12)], ["r"], ["o", I(14)], ["r"], ["o", I(15)], ["r"], ["o", I(10)], ["r"], ["o", I(7)], ["r"], ["o", I(2)], ["r"]]], "incr": None}
    yield {"par": {}, "pool": pool, "hists": [[["w", I(3)], ["o", Fl("7/2")], ["r"], ["o", I(4)], ["r"], ["o", I(3)], ["r"]]], "incr": None}
    # increments add up: n x (+1) versus 1 x (+n)
    for n in (1, 2, 5, 7):
        pre = [["w", I(3)]]
        yield {"par": {"granularity": I(5)}, "pool": pool, "hists": [pre + [["incr", 1]] * n + [["r"]], pre + [["incr", n]] + [["r"]]], "incr": n}
        yield {"par": {"granularity": Fl("5/2"), "maximum": I(100), "surplus": I(50)}, "pool": pool, "hists": [pre + [["incr", 1]] * n + [["r"]], pre + [["incr", n]] + [["r"]]], "incr": n}
    # the documented exception: maximum clips, increments differ (not a violation: a limit interferes)
    pre = [["w", I(6)]]
    yield {"par": {"granularity": I(4), "maximum": I(6)}, "pool": pool, "hists": [pre + [["incr", 1]] * 2 + [["r"]], pre + [["incr", 2]] + [["r"]]], "incr": 2}
    # constructor rejections
    yield {"par": {"minimum": I(5), "maximum": I(4)}, "pool": pool, "hists": [], "incr": None}
    yield {"par": {"minimum": Fl("inf"), "maximum": I(4)}, "pool": pool, "hists": [], "incr": None}
    yield {"par": {"minimum": I(5), "maximum": I(5)}, "pool": pool, "hists": [[["w", I(9)], ["r"]]], "incr": None}
    for name in ("surplus", "backlog", "granularity"):
        yield {"par": {name: I(0)}, "pool": pool, "hists": [], "incr": None}
        yield {"par": {name: Fl("-1/2")}, "pool": pool, "hists": [], "incr": None}
        yield {"par": {name: Fl("-inf")}, "pool": pool, "hists": [], "incr": None}
    # granularity below 1
    yield {"par": {"granularity": Fl("1/2")}, "pool": pool, "hists": [[["w", Fl("31/4")], ["r"], ["w", I(3)], ["r"], ["w", Fl("-1/4")], ["r"]]], "incr": None}
    yield {"par": {"granularity": Fl("3/4")}, "pool": pool, "hists": [[["w", I(20)], ["r"], ["w", Fl("3/4")], ["r"]]], "incr": None}


def ood_corpus():
    """out of the property's domain (infinite granularity, infinite written values): NaN outcomes.
    Compared with the model in an informational pass only."""
    pool = {"demand": I(0), "supply": I(0), "util": Fl("1/2"), "alloc": Fl("3/4")}
    yield {"par": {"minimum": Fl("inf"), "maximum": Fl("inf"), "granularity": I(4)}, "pool": pool, "hists": [[["w", I(3)], ["incr!", 1]]], "incr": None}
    yield {"par": {"granularity": Fl("inf")}, "pool": pool, "hists": [[["w", I(-3)], ["r"], ["w", I(3)]], [["w", Fl("0/1")]]], "incr": None}
    yield {"par": {"granularity": I(2)}, "pool": pool, "hists": [[["w", Fl("inf")]], [["o", Fl("inf")], ["r"], ["w", I(3)]]], "incr": None}
    yield {"par": {}, "pool": pool, "hists": [[["w", Fl("inf")], ["r"], ["incr!", 1], ["r"], ["w", Fl("-inf")], ["r"]]], "incr": None}


def gen_cases(rng, n):
    out = list(corpus())
    for c in out:
        yield c
    for _ in range(max(0, n - len(out))):
        par = gen_params(rng)
        pool = gen_pool(rng)
        mode = rng.random()
        if mode < 0.08:
            yield {"par": break_params(rng, par), "pool": pool, "hists": [gen_ops(rng, par, pool, rng.randint(1, 4))], "incr": None}
        elif mode < 0.3:
            pre = gen_ops(rng, par, pool, rng.randint(0, 6))
            if rng.random() < 0.7:
                # start the increments from a value on which (often) no limit interferes
                pre.append(["w", num_of(rng.choice(interesting_values(par, V(pool["supply"]))), rng)])
            k = rng.choice([1, 2, 3, 4, 5, 8, 13])
            yield {"par": par, "pool": pool, "hists": [pre + [["incr", 1]] * k + [["r"]], pre + [["incr", k]] + [["r"]]], "incr": k}
        else:
            n_ops = rng.choice([1, 2, 3, 5, 8, 12, 20, 30]) if rng.random() < 0.5 else rng.randint(1, 30)
            case = {"par": par, "pool": pool, "hists": [gen_ops(rng, par, pool, n_ops)], "incr": None}
            if rng.random() < 0.25:
                case["other"] = gen_params(rng)
            if rng.random() < 0.2:
                case["facade"] = True
            if rng.random() < 0.06:
                # integers beyond 2**53 with an integer granularity: integer arithmetic is exact at every magnitude
                big = {"granularity": ["i", str(rng.choice([2, 3, 5, 7, 10, 64]))]}
                if rng.random() < 0.4:
                    big["minimum"] = ["i", str(-(2 ** rng.choice([55, 70])) - rng.randrange(100))]
                if rng.random() < 0.4:
                    big["maximum"] = ["i", str(2 ** rng.choice([60, 90]) + rng.randrange(100))]
                ops = []
                for _ in range(rng.randint(2, 10)):
                    r = rng.random()
                    if r < 0.6:
                        ops.append(["w", ["i", str(rng.choice([1, -1]) * (2 ** rng.choice([54, 58, 61, 64, 80]) + rng.randrange(1000)))]])
                    elif r < 0.85:
                        ops.append(["r"])
                    else:
                        ops.append(["incr", rng.choice([1, 7, 3])])
                case = {"par": big, "pool": {"demand": ["i", "0"], "supply": ["i", str(rng.randrange(50))], "util": pool["util"],
                                             "alloc": pool["alloc"]}, "hists": [ops], "incr": None}
            if rng.random() < 0.04:
                # a pool of unlimited supply (oracle-only stream): writes and reads only
                case["pool"] = dict(pool, supply=["f", rng.choice(["inf", "inf", "-inf"])])
                case["hists"] = [[op for op in h if op[0] in ("w", "r")] or [["w", ["i", "12"]]] for h in case["hists"]]
                case["infsupply"] = True
            yield case


def gen_ood_cases(rng, n):
    out = list(ood_corpus())
    for c in out:
        yield c
    for _ in range(max(0, n - len(out))):
        par = gen_params(rng)
        pool = gen_pool(rng)
        if rng.random() < 0.5:
            par = dict(par, granularity=["f", "inf"])
        ops = gen_ops(rng, par, pool, rng.randint(1, 10), allow_ood=True)
        yield {"par": par, "pool": pool, "hists": [[["incr!", o[1]] if o[0] == "incr" else o for o in ops]], "incr": None}


# ------------------------------------------------------------------ implementation
def _mk_target(pool):
    from cobald.interfaces import Pool

    class Target(Pool):
        supply = demand = utilisation = allocation = None

        def __init__(self, demand, supply, util, alloc):
            self.demand, self.supply, self.utilisation, self.allocation = demand, supply, util, alloc

    return Target(dec(pool["demand"]), dec(pool["supply"]), dec(pool["util"]), dec(pool["alloc"]))


def _facade(real):
    """the Standardiser's target is itself a decorator that overrides what it reports (a unit converter, a
    re-wired chain): here it reports the state of `real` while the pool it formally decorates says something else.
    What a decorator sees is its target, not what its target may happen to decorate"""
    from cobald.interfaces import PoolDecorator

    class Facade(PoolDecorator):
        supply = property(lambda self: real.supply)
        utilisation = property(lambda self: real.utilisation)
        allocation = property(lambda self: real.allocation)
        demand = property(lambda self: real.demand, lambda self, v: setattr(real, "demand", v))

    decoy = _mk_target({"demand": ["i", "777"], "supply": ["i", "555"], "util": ["f", "1/8"], "alloc": ["f", "3/8"]})
    return Facade(decoy)


def _observe(std, target, read):
    return {"read": None if read is None else enc(read[0]), "td": enc(target.demand), "supply": enc(std.supply),
            "util": enc(std.utilisation), "alloc": enc(std.allocation)}


def _has_nan(o):
    return any(v is not None and v[0] == "nan" for v in o.values())


def _weird(o):
    return any(v is not None and v[0] == "other" for v in o.values())


def _exc(e):
    if isinstance(e, ZeroDivisionError):
        return "zerodiv"
    if isinstance(e, ValueError):
        return "value_error"
    return "other:%s" % type(e).__name__


def run_impl(case):
    from cobald.decorator.standardiser import Standardiser
    kwargs = {k: dec(v) for k, v in case["par"].items()}
    res = {"ctor": "ok", "init": None, "hists": []}
    try:
        t = _mk_target(case["pool"])
        s = Standardiser(t, **kwargs)
        res["init"] = _observe(s, t, None)
    except Exception as e:
        res["ctor"] = _exc(e)
        return res
    for ops in case["hists"]:
        t = _mk_target(case["pool"])
        s = Standardiser(_facade(t) if case.get("facade") else t, **kwargs)
        if case.get("other"):
            # a second, unrelated instance with other limits (another pipeline in the same process, or the
            # next layer of a Limiter >> Coarser stack): instances do not influence each other
            t2 = _mk_target(case["pool"])
            s2 = Standardiser(t2, **{k: dec(v) for k, v in case["other"].items()})
            s2.demand = 3
        h = {"ops": [], "obs": [], "end": None}
        res["hists"].append(h)
        todo = []
        for op in ops:
            todo += [["r"], ["w+" if op[0] == "incr" else "w+!", op[1]]] if op[0] in ("incr", "incr!") else [op]
        last_read = None
        for op in todo:
            try:
                read = None
                if op[0] in ("w+", "w+!"):       # second half of `s.demand = s.demand + k`
                    new = last_read + op[1]
                    if op[0] == "w+" and isinstance(new, float) and (new != new or new in (INF, -INF)):
                        h["truncated"] = True
                        break    # the read-back is infinite (infinite minimum/maximum): writing it would leave
                        #          the domain of the property (finite written values); the history stops here
                    op = ["w", enc(new)]
                if op[0] == "w":
                    s.demand = dec(op[1])
                elif op[0] == "r":
                    last_read = s.demand
                    read = (last_read,)
                elif op[0] == "s":
                    t.supply = dec(op[1])
                elif op[0] == "o":
                    t.demand = dec(op[1])
                o = _observe(s, t, read)
            except Exception as e:
                h["ops"].append(op)
                h["end"] = _exc(e)
                break
            h["ops"].append(op)
            if _has_nan(o):
                h["end"] = "nan"
                break
            if _weird(o):
                h["end"] = "other:type"
                break
            h["obs"].append(o)
    return res


# ------------------------------------------------------------------ oracle: the property, restated on observations
def _le(a, b):
    return a <= b


def _ref(P, s, x):
    """documented priority order: supply window first, minimum/maximum overrule (pure min/max form)"""
    lo, hi = s - P["backlog"], s + P["surplus"]
    x = min(max(x, lo), hi)
    return min(max(x, P["minimum"]), P["maximum"])


def _within(P, s, x):
    return s - P["backlog"] <= x <= s + P["surplus"] and P["minimum"] <= x <= P["maximum"]


def _in_domain(case, P):
    if not fin(P["granularity"]):
        return False
    for k in ("demand", "supply"):
        if not fin(V(case["pool"][k])):
            return False
    for ops in case["hists"]:
        for op in ops:
            if op[0] in ("w", "s", "o") and not fin(V(op[1])):
                return False
    return True


def _oracle_infinite_supply(case, res, P):
    """a pool reporting infinite supply: a limit that is undefined (inf - inf) cannot interfere; what does reach
    the target still obeys minimum / maximum, is never NaN, and is the rounded written value when nothing cuts"""
    v = []
    s = float(V(case["pool"]["supply"]))
    g = P["granularity"]
    lo, hi = s - float(P["backlog"]), s + float(P["surplus"])
    for hi_, h in enumerate(res["hists"]):
        if h["end"] is not None:
            v.append((None, "infinite supply: history %d ended with %s at %s" % (hi_, h["end"], h["ops"][len(h["obs"]):][:1])))
        for i, (op, o) in enumerate(zip(h["ops"], h["obs"])):
            if op[0] != "w" or not fin(V(op[1])):
                continue
            where = "supply %s, history %d step %d %s" % (s, hi_, i, op)
            x, td = V(op[1]), V(o["td"])
            if not P["minimum"] <= td <= P["maximum"]:
                v.append((None, "limits: forwarded %s outside [minimum %s, maximum %s]; %s" % (td, P["minimum"], P["maximum"], where)))
            rounded = x if g == 1 else (x // g) * g
            cut = (lo == lo and rounded < lo) or (hi == hi and rounded > hi) or not P["minimum"] <= rounded <= P["maximum"] \
                or (lo == lo and x < lo) or (hi == hi and x > hi) or not P["minimum"] <= x <= P["maximum"]
            if not cut and td != rounded:
                v.append((None, "rounding: no defined limit interferes but forwarded %s is not %s; %s" % (td, rounded, where)))
    return v


def oracle(case, res):
    v = []
    if "harness_error" in res:
        return [(None, "harness error: " + res["harness_error"])]
    P = {k: V(x) for k, x in full_params(case["par"]).items()}
    valid = P["minimum"] <= P["maximum"] and P["surplus"] > 0 and P["backlog"] > 0 and P["granularity"] > 0
    if not valid:
        if res["ctor"] != "value_error":
            v.append((None, "constructor: invalid parameters not rejected with ValueError (%s): %s" % (res["ctor"], case["par"])))
        return v
    if res["ctor"] != "ok":
        return [(None, "constructor: valid parameters rejected (%s): %s" % (res["ctor"], case["par"]))]
    if case.get("infsupply"):
        return v + _oracle_infinite_supply(case, res, P)
    if not _in_domain(case, P):
        return v
    g = P["granularity"]
    finals = []
    for hi_, h in enumerate(res["hists"]):
        # a non-finite value written/set from here on (e.g. `demand + 1` after reading back an infinite
        # minimum) leaves the domain of the property: only the part before it is judged
        ndom = len(h["ops"])
        for i, op in enumerate(h["ops"]):
            if op[0] in ("w", "s", "o") and not fin(V(op[1])):
                ndom = i
                break
        if h["end"] is not None and ndom > len(h["obs"]):
            v.append((None, "outcome: history %d ended with %s inside the domain at op %d %s" % (hi_, h["end"], len(h["obs"]), h["ops"][len(h["obs"])])))
        s = V(case["pool"]["supply"])
        util, alloc = case["pool"]["util"], case["pool"]["alloc"]
        exp_d = V(case["pool"]["demand"])      # what a read returns if the target has not moved
        fresh = None                           # value written last, as long as only reads followed
        td_prev = V(case["pool"]["demand"])
        for i, (op, o) in enumerate(zip(h["ops"][:ndom], h["obs"])):
            where = "history %d step %d %s" % (hi_, i, op)
            td = V(o["td"])
            if op[0] == "s":
                s = V(op[1])
            # pass-through
            want_supply = op[1] if op[0] == "s" else None
            if want_supply is not None and o["supply"] != want_supply:
                v.append((None, "pass-through: supply %s read through is not the target's %s; %s" % (o["supply"], want_supply, where)))
            if V(o["supply"]) != s or o["util"] != util or o["alloc"] != alloc:
                v.append((None, "pass-through: supply/utilisation/allocation differ from the target's; %s: %s" % (where, o)))
            lo, hi = s - P["backlog"], s + P["surplus"]
            compat = lo <= P["maximum"] and P["minimum"] <= hi
            if op[0] == "w":
                x = V(op[1])
                if not P["minimum"] <= td <= P["maximum"]:
                    v.append((None, "limits: forwarded %s outside [minimum %s, maximum %s]; %s" % (td, P["minimum"], P["maximum"], where)))
                if compat and not lo <= td <= hi:
                    v.append((None, "window: forwarded %s outside [supply-backlog %s, supply+surplus %s] although compatible with minimum/maximum; %s" % (td, lo, hi, where)))
                rounded = x if g == 1 else (x // g) * g       # granularity 1: no rounding (reading decision)
                if _within(P, s, rounded) and td != rounded:
                    v.append((None, "rounding: no limit interferes but forwarded %s is not %s; %s" % (td, rounded, where)))
                if td != _ref(P, s, rounded):
                    v.append((None, "priority: forwarded %s differs from the reference %s; %s" % (td, _ref(P, s, rounded), where)))
                exp_d = _ref(P, s, x)
                fresh = (x, s)
            elif op[0] == "o":
                fresh = None
                if td != V(op[1]):
                    v.append((None, "harness: outside write not stored; %s" % where))
            elif op[0] == "s":
                if td != td_prev:
                    v.append((None, "frame: target demand changed by a supply change; %s" % where))
            elif op[0] == "r":
                r = V(o["read"])
                if td != td_prev:
                    v.append((None, "frame: target demand changed by a read; %s" % where))
                if fin(exp_d) and fin(td):
                    moved = abs(exp_d - td) >= g
                else:
                    moved = exp_d != td
                want = td if moved else exp_d
                if r != want:
                    v.append((None, "read-back: read %s, expected %s (held %s, target %s, granularity %s); %s" % (r, want, exp_d, td, g, where)))
                if not (r == td or (fin(r) and fin(td) and abs(r - td) < g)):
                    v.append((None, "granule: read %s is a granule or more away from the target's demand %s; %s" % (r, td, where)))
                exp_d = r
                if fresh is not None and fresh[1] == s:
                    if not P["minimum"] <= r <= P["maximum"]:
                        v.append((None, "read-limits: read-back %s outside [minimum, maximum]; %s" % (r, where)))
                    if compat and not lo <= r <= hi:
                        v.append((None, "read-window: read-back %s outside the supply window; %s" % (r, where)))
                    if r != _ref(P, s, fresh[0]):
                        v.append((None, "read-unrounded: read-back %s is not the limited unrounded value %s; %s" % (r, _ref(P, s, fresh[0]), where)))
            td_prev = td
        finals.append((h, s))
    n = case.get("incr")
    if n and len(res["hists"]) == 2 and all(h["end"] is None and not h.get("truncated") for h in res["hists"]):
        a, b = res["hists"]
        if len(b["obs"]) >= 3 and len(a["obs"]) >= 3:
            d0 = V(b["obs"][-3]["read"])
            s = finals[1][1]
            if fin(d0) and _within(P, s, d0) and _within(P, s, d0 + n):
                if V(a["obs"][-1]["td"]) != V(b["obs"][-1]["td"]) or V(a["obs"][-1]["read"]) != V(b["obs"][-1]["read"]):
                    v.append((None, "increments: %d x (+1) from %s gives target %s / read %s, 1 x (+%d) gives target %s / read %s" % (
                        n, d0, a["obs"][-1]["td"], a["obs"][-1]["read"], n, b["obs"][-1]["td"], b["obs"][-1]["read"])))
    return v


def nontrivial(case, res):
    if res.get("ctor") != "ok":
        return False
    for h in res["hists"]:
        for op, o in zip(h["ops"], h["obs"]):
            if op[0] == "w" and op[1][0] != "nan" and o["td"] != op[1]:
                return True
    return False


# ------------------------------------------------------------------ Coq printing
def cnum(e):
    if e is None or e[0] in ("nan", "other"):
        return "(PFlt (Fin (Qmake (-777777)%Z 1%positive)))"
    if e[0] == "i":
        return "(PInt %s)" % cZ(int(e[1]))
    if e[1] == "inf":
        return "(PFlt PInf)"
    if e[1] == "-inf":
        return "(PFlt NInf)"
    return "(PFlt (Fin %s))" % cQ(F(e[1]))


def _cobs(o):
    rd = "None" if o["read"] is None else "(Some %s)" % cnum(o["read"])
    return "(mkObs %s %s %s %s %s)" % (rd, cnum(o["td"]), cnum(o["supply"]), cnum(o["util"]), cnum(o["alloc"]))


def _cop(op):
    if op[0] == "w":
        return "(Write %s)" % cnum(op[1])
    if op[0] == "r":
        return "Read"
    if op[0] == "s":
        return "(SetSupply %s)" % cnum(op[1])
    if op[0] == "o":
        return "(OutsideSetDemand %s)" % cnum(op[1])
    return "Read"     # a half-executed increment whose addition failed: flagged insane below


def coq_case(case, res):
    if case.get("infsupply"):
        return None        # infinite supply makes limits undefined (inf - inf): judged by the oracle only, see oracle()
    P = full_params(case["par"])
    par = "(mkParams %s %s %s %s %s)" % tuple(cnum(P[k]) for k in PARAMS)
    pool = "(mkPool %s %s %s %s)" % tuple(cnum(case["pool"][k]) for k in ("demand", "supply", "util", "alloc"))
    sane = "harness_error" not in res and res.get("ctor") in ("ok", "value_error")
    accepted = res.get("ctor") == "ok"
    dummy = {"read": None, "td": None, "supply": None, "util": None, "alloc": None}
    init = _cobs(res.get("init") or dummy)
    hists = []
    for h in res.get("hists", []):
        end = {None: "None", "nan": "(Some ENaN)", "zerodiv": "(Some EZeroDiv)", "value_error": "(Some EValue)"}.get(h["end"])
        if end is None or any(op[0] not in ("w", "r", "s", "o") or (len(op) > 1 and op[1][0] in ("nan", "other")) for op in h["ops"]):
            sane = False
            end = "None"
        hists.append("(mkHist %s %s %s)" % (clist(_cop(op) for op in h["ops"]), clist(_cobs(o) for o in h["obs"]), end))
    return "(mkCase %s %s %s %s %s %s)" % (par, pool, cbool(accepted), init, clist(hists), cbool(sane))


# ------------------------------------------------------------------ reporting helpers
def distribution(results):
    d = {"limits_active": {}, "ctor": {}, "ops": {}, "history_len": {"1-5": 0, "6-15": 0, "16-30": 0, ">30": 0},
         "ends": {}, "value_types": {"int": 0, "float": 0, "inf": 0}, "twin_increment_cases": 0,
         "writes_changed_by_limit_or_granularity": 0, "writes_unchanged": 0, "reads_equal_to_target": 0}
    for (c, o, _v) in results:
        k = str(len(c["par"]))
        d["limits_active"][k] = d["limits_active"].get(k, 0) + 1
        d["ctor"][o.get("ctor", "?")] = d["ctor"].get(o.get("ctor", "?"), 0) + 1
        if c.get("incr"):
            d["twin_increment_cases"] += 1
        for e in list(c["par"].values()):
            d["value_types"]["inf" if e[1] in ("inf", "-inf") else ("int" if e[0] == "i" else "float")] += 1
        for h in o.get("hists", []):
            n = len(h["ops"])
            d["history_len"]["1-5" if n <= 5 else "6-15" if n <= 15 else "16-30" if n <= 30 else ">30"] += 1
            d["ends"][str(h["end"])] = d["ends"].get(str(h["end"]), 0) + 1
            prev_td = None
            for op, ob in zip(h["ops"], h["obs"]):
                d["ops"][op[0]] = d["ops"].get(op[0], 0) + 1
                if op[0] == "w":
                    d["value_types"]["inf" if op[1][1] in ("inf", "-inf") else ("int" if op[1][0] == "i" else "float")] += 1
                    if ob["td"] != op[1]:
                        d["writes_changed_by_limit_or_granularity"] += 1
                    else:
                        d["writes_unchanged"] += 1
                if op[0] == "r" and prev_td is not None and ob["read"] == ob["td"]:
                    d["reads_equal_to_target"] += 1
                prev_td = ob["td"]
    return d


def shrink(case, still_fails):
    cur = case
    if cur.get("incr"):
        for h in cur["hists"]:
            cand = dict(cur, hists=[h], incr=None)
            try:
                if still_fails(cand):
                    cur = cand
                    break
            except Exception:
                pass
        if cur.get("incr"):
            return cur
    # keep only one failing history
    if len(cur["hists"]) > 1:
        for h in cur["hists"]:
            cand = dict(cur, hists=[h])
            try:
                if still_fails(cand):
                    cur = cand
                    break
            except Exception:
                pass
    changed = True
    while changed:
        changed = False
        for hi_, ops in enumerate(cur["hists"]):
            for i in range(len(ops)):
                cand = dict(cur, hists=[o if j != hi_ else ops[:i] + ops[i + 1:] for j, o in enumerate(cur["hists"])])
                try:
                    if still_fails(cand):
                        cur, changed = cand, True
                        break
                except Exception:
                    pass
            if changed:
                break
    # drop parameters that are not needed
    for k in list(cur["par"]):
        cand = dict(cur, par={a: b for a, b in cur["par"].items() if a != k})
        try:
            if still_fails(cand):
                cur = cand
        except Exception:
            pass
    return cur


# ------------------------------------------------------------------ driver
TIE_TARGETS = ["props/C06_tie.vo"]


def regen(chk):
    """translator tie: regenerate gen/Gen_standardiser.v from the current standardiser.py"""
    from py2coq import units
    res = units.regen(common.REPO, os.path.join(common.COQDIR, "gen"), ["Gen_standardiser.v"])
    chk.coverage["translator"] = res
    bad = [v for v in res.values() if v != "ok"]
    if bad:
        raise RuntimeError(bad[0])


def main(tier=None, seed=None, replay=None):
    """generic driver (verdict: values + outcomes), then an informational pass comparing int/float types"""
    mod = sys.modules[__name__]
    rc = common.run_pure(mod, tier=tier, seed=seed, replay=replay)
    if replay or rc != 0:
        return rc
    chk = common.Check(ID, tier, seed)
    n = N_THOROUGH if chk.tier == "thorough" else N_QUICK
    info = {"compared": 0, "cases_with_a_type_difference": None}
    try:
        results = common.execute_cases(chk, mod, n, "main")
        if chk.tier != "thorough":
            results = results[:600]      # quick tier: the corpus and the first random cases
        terms = [coq_case(c, o) for (c, o, _v) in results]
        bad = common.coq_eval_cases(ID, CORR_PRELUDE, "C06Corr.check_tags", CORR_TYPE, terms, tag="corr_tags")
        info = {"compared": len(terms), "cases_with_a_type_difference": len(bad),
                "first": [{"case": results[i][0], "impl": results[i][1]} for i in bad[:2]]}
        ood = list(gen_ood_cases(chk.rng("ood"), max(60, n // 10)))
        ood_res = [(c, run_impl(c)) for c in ood]
        ood_bad = common.coq_eval_cases(ID, CORR_PRELUDE, CORR_CHECK, CORR_TYPE, [coq_case(c, o) for (c, o) in ood_res], tag="corr_ood")
        info["out_of_domain"] = {"what": "infinite granularity / infinite written values / infinite outside demand: the model's "
                                         "NaN outcome versus a NaN observed on the implementation (not part of the property)",
                                 "compared": len(ood_res), "disagreeing": len(ood_bad),
                                 "histories_ending_in_nan": sum(1 for (_c, o) in ood_res for h in o.get("hists", []) if h["end"] == "nan"),
                                 "first": [{"case": ood_res[i][0], "impl": ood_res[i][1]} for i in ood_bad[:2]]}
        if ood_bad:
            print("[C06] note: outside the property's domain (NaN-producing inputs) model and implementation differ on "
                  "%d of %d cases (informational)" % (len(ood_bad), len(ood_res)), flush=True)
        if bad:
            print("[C06] note: values agree everywhere, but the int/float TYPE of an observed number differs from "
                  "the model's typing on %d of %d cases (not part of the property; see evidence)" % (len(bad), len(terms)), flush=True)
    except Exception as e:      # informational only
        info["error"] = "%s: %s" % (type(e).__name__, str(e)[-500:])
    path = os.path.join(common.VERIF, "evidence", "%s.json" % ID)
    try:
        with open(path) as fh:
            ev = json.load(fh)
        ev["coverage"]["type_tag_agreement"] = info
        with open(path, "w") as fh:
            json.dump(ev, fh, indent=1, default=str)
    except Exception:
        pass
    return rc
