"""C12 — runtime lifecycle; see harness/rt.py.  The exclusivity guard kernel (guard.py::exclusive_call) is
additionally tied by translation: gen/Gen_guard.v is regenerated from the source on every run and
props/C12_tie.v proves its contract for all lock states and all ways the guarded call can end."""
import os

from . import common, rt

ID = "C12"
COQ_TARGETS = ["props/C12.vo"]
TIE_TARGETS = ["props/C12_tie.vo"]


def regen(chk):
    from py2coq import units
    res = units.regen(common.REPO, os.path.join(common.COQDIR, "gen"), ["Gen_guard.v"])
    chk.coverage["translator"] = res
    bad = [v for v in res.values() if v != "ok"]
    if bad:
        raise RuntimeError(bad[0])


def main(tier=None, seed=None, replay=None):
    return rt.main(ID, COQ_TARGETS, tier=tier, seed=seed, replay=replay, tie_targets=TIE_TARGETS, regen=regen)
