"""C04 -- `>>` chains of Partial templates, currying, eager signature check.

Case kinds (all JSON):
  chain : classes synthesised by exec with random constructor signatures (or shipped classes),
          templates made by `.s(...)` / Partial(...) and 0-3 curry calls, one tree of real `>>`
  bind  : one real constructor call, which formal received what
  sig   : what inspect.signature(cls) reports
"""
import functools
import gc
import inspect
import itertools
import operator
import threading

from .common import cN, cbool, clist

ID = "C04"
COQ_TARGETS = ["props/C04.vo"]
CORR_TARGETS = ["corr/C04Corr.vo"]
CORR_PRELUDE = "From Cobald Require Import kit.Corr model.PyBind model.Partial corr.C04Corr."
CORR_CHECK = "C04Corr.check"
CORR_TYPE = "C04Corr.case"
N_QUICK, N_THOROUGH = 2600, 14000
RULE = ("chains of 1-12 templates over classes synthesised with random constructor signatures (0-5 formals of all "
        "five kinds, defaults, 1-3 class layers, a share wrapped by @service(flavour=threading)); every "
        "parenthesisation for n<=5 (n=6 in the thorough tier) x three tail forms, random trees up to n=12; each "
        "element's arguments split over 1-4 calls (.s + curry); valid / eagerly-rejectable / incomplete argument "
        "lists; ill-kinded chains (controller or leaf template in the middle, explicit __leaf__) as a malformed "
        "stream; single real constructor calls (binding) and inspect.signature of every class shape; the shipped "
        "classes with their live signatures. non-trivial = a chain of >= 2 elements that was really built, or a "
        "rejected template call")
TRUSTED_BASE = [
    "Coq 8.16.1 kernel + vm_compute for evaluating the model on the cases",
    "harness/c04.py: class synthesis by exec, recording __init__ wrapper (functools.wraps), canonical numbering of names/values",
    "model/Partial.v, model/PyBind.v are hand-written; tied to src/cobald/interfaces/_partial.py, the .s factories, "
    "daemon/runners/service.py and to CPython's call binding / inspect.signature / Signature.bind_partial by the "
    "correspondence run only",
]
ASSUMPTIONS = [
    "chain elements e2..en are non-leaf templates of Pool subclasses, e1 is any template, the tail is a Pool instance "
    "or a leaf template of a Pool subclass (the property's reading of a chain)",
    "the only user-defined __new__ in a class hierarchy is the wrapper installed by cobald.daemon.service; no metaclass __call__",
    "keyword names are distinct within one call (python guarantees it); argument values never influence binding",
    "eager-check exactness excludes keywords naming a positional-only formal that is not filled positionally when the "
    "constructor also has **kwargs: CPython<=3.12 inspect refuses those although a call binds (stdlib quirk, see notes/C04.md)",
]

FINDING = "C04-service-signature-vacuous"
FINDING_LEAF = "C04-unbound-stepwise-leaf"
SHIPPED = ["LinearController", "RelativeSupplyController", "Stepwise", "DemandSwitch", "Buffer", "Logger",
           "Standardiser", "FactoryPool"]

# --------------------------------------------------------------------------------------------
# signatures (JSON): {"po": [[name, has_default]..], "pk": [..], "va": name|None, "ko": [..], "vk": name|None}
# --------------------------------------------------------------------------------------------
_DEFAULT = object()       # default value of every synthesised formal


def sig_named(s):
    return [p[0] for p in s["pk"]] + [p[0] for p in s["ko"]]


def rnd_sig(rng, kind):
    """random constructor signature (without self); owners mostly start with a target formal"""
    names = ["a", "b", "c", "d", "e", "f", "g"]
    rng.shuffle(names)
    n = rng.choice([0, 1, 1, 2, 2, 3, 3, 3, 4, 4, 5])
    s = {"po": [], "pk": [], "va": None, "ko": [], "vk": None}
    kinds = sorted(rng.choice(["po", "pk", "pk", "pk", "ko", "ko"]) for _ in range(n))
    # defaults among positional formals must be a suffix
    npos = sum(1 for k in kinds if k in ("po", "pk"))
    first_default = rng.randint(0, npos) if npos else 0
    i = 0
    for k in sorted(kinds, key=["po", "pk", "ko"].index):
        nm = names.pop()
        if k in ("po", "pk"):
            s[k].append([nm, i >= first_default])
            i += 1
        else:
            s[k].append([nm, rng.random() < 0.5])
    if rng.random() < 0.3:
        s["va"] = rng.choice(["args", "rest"])
    if rng.random() < 0.3:
        s["vk"] = rng.choice(["kwargs", "extra"])
    if kind != "P" and rng.random() < 0.9:
        tname = rng.choice(["target", "target", "target", "pool"])
        (s["po"] if (s["po"] or rng.random() < 0.2) else s["pk"]).insert(0, [tname, False])
    return s


def sig_source(s):
    parts = ["self"]
    for nm, d in s["po"]:
        parts.append(nm + ("=_D" if d else ""))
    if s["po"]:
        parts.append("/")
    for nm, d in s["pk"]:
        parts.append(nm + ("=_D" if d else ""))
    if s["va"]:
        parts.append("*" + s["va"])
    elif s["ko"]:
        parts.append("*")
    for nm, d in s["ko"]:
        parts.append(nm + ("=_D" if d else ""))
    if s["vk"]:
        parts.append("**" + s["vk"])
    return ", ".join(parts)


def sig_of_callable(fn, drop_first):
    """live signature -> JSON sig"""
    ps = list(inspect.signature(fn).parameters.values())
    if drop_first:
        ps = ps[1:]
    s = {"po": [], "pk": [], "va": None, "ko": [], "vk": None}
    for p in ps:
        d = p.default is not inspect.Parameter.empty
        if p.kind == p.POSITIONAL_ONLY:
            s["po"].append([p.name, d])
        elif p.kind == p.POSITIONAL_OR_KEYWORD:
            s["pk"].append([p.name, d])
        elif p.kind == p.VAR_POSITIONAL:
            s["va"] = p.name
        elif p.kind == p.KEYWORD_ONLY:
            s["ko"].append([p.name, d])
        else:
            s["vk"] = p.name
    return s


# --------------------------------------------------------------------------------------------
# class synthesis / shipped classes
# --------------------------------------------------------------------------------------------
class World:
    """the python objects of one case: classes, pool instances, the construction log"""

    _made = [0]

    def __init__(self, class_specs):
        from cobald.interfaces import Pool, PoolDecorator, Controller
        World._made[0] += 1
        if World._made[0] % 64 == 0:
            gc.collect()       # synthesised classes are cyclic garbage; ABCMeta's checks slow down with every live subclass
        self.log = []            # (object, class index, raw positional tuple, raw keyword dict)
        self.bindings = {}       # id(object) -> what the innermost __init__ saw
        self.Pool = Pool

        class Inst(Pool):
            supply = demand = utilisation = allocation = 0.0

        class EmptyGroup(Inst):        # a pool that is a (currently empty) container: falsy, but a pool all the same
            def __len__(self):
                return 0

        class IdlePool(Inst):
            def __bool__(self):
                return False

        self.pools = [Inst(), EmptyGroup(), IdlePool()]
        self.layer_classes = {}
        self.bases = {"C": Controller, "D": PoolDecorator, "P": Pool}
        self.specs = class_specs
        self.classes = [self._build(i, sp) for i, sp in enumerate(class_specs)]

    def _build(self, idx, sp):
        if "shipped" in sp:
            return shipped_class(sp["shipped"])
        from cobald.daemon import service
        cls = self.bases[sp["kind"]]
        layers = sp["layers"]
        for j in reversed(range(len(layers))):
            layer = layers[j]
            body = {"run": lambda self: None}
            if sp["kind"] == "P":
                body.update(supply=0.0, demand=0.0, utilisation=0.0, allocation=0.0)
            if layer["init"] is not None:
                body["__init__"] = self._make_init(idx, layer["init"])
            elif sp.get("noinit") and j == len(layers) - 1:
                # `class D(PoolDecorator): pass`: no constructor of its own.  To see its constructions all the same, the
                # class gets a pass-through that IS the inherited constructor for inspect (functools.wraps: the signature
                # is read through __wrapped__) and for binding (it calls it with whatever it is given)
                body["__init__"] = self._make_passthrough(idx, cls)
            if sp.get("falsy") and j == 0:
                body["__len__"] = lambda self: 0
            cls = type(cls)("G%d_%d" % (idx, j), (cls,), body)
            if layer["service"]:
                cls = service(flavour=threading)(cls)
            self.layer_classes.setdefault(idx, []).append(cls)
        return cls

    def _make_passthrough(self, idx, base):
        inherited = base.__init__
        world = self

        @functools.wraps(inherited)
        def __init__(self, *args, **kwargs):
            inherited(self, *args, **kwargs)
            bound = inspect.signature(inherited).bind(self, *args, **kwargs).arguments
            world.bindings[id(self)] = {k: v for k, v in list(bound.items())[1:]}
            world.log.append((self, idx, args, dict(kwargs)))

        return __init__

    def _make_init(self, idx, s):
        names = [p[0] for p in s["po"] + s["pk"]] + ([s["va"]] if s["va"] else []) \
            + [p[0] for p in s["ko"]] + ([s["vk"]] if s["vk"] else [])
        src = "def __init__(%s):\n    _seen(self, {%s})\n" % (
            sig_source(s), ", ".join("%r: %s" % (n, n) for n in names))
        ns = {"_D": _DEFAULT, "_seen": lambda obj, d: self.bindings.__setitem__(id(obj), d)}
        exec(src, ns)
        inner = ns["__init__"]
        world = self

        @functools.wraps(inner)
        def __init__(self, *args, **kwargs):
            inner(self, *args, **kwargs)            # binds for real: TypeError before anything is logged
            world.log.append((self, idx, args, dict(kwargs)))

        return __init__

    # ---- values
    def val(self, v):
        if isinstance(v, dict):
            if "a" in v:            # rich atoms: a float equal to the int atom of the same number / an unhashable list
                return float(v["n"]) if v["a"] == "f" else [v["n"]]
            return self.pools[v["p"]]
        return v

    def unval(self, x):
        for i, p in enumerate(self.pools):
            if x is p:
                return {"p": i}
        if isinstance(x, float) and x == int(x):
            return {"a": "f", "n": int(x)}
        if isinstance(x, list) and len(x) == 1 and type(x[0]) is int:
            return {"a": "l", "n": x[0]}
        if isinstance(x, bool) or not isinstance(x, (int, str)):
            return {"weird": type(x).__name__}
        return x

    def view(self, x, depth=0):
        from cobald.interfaces import Partial
        from cobald.interfaces._partial import PartialBind
        for i, (o, cid, a, k) in enumerate(self.log):
            if o is x:
                if depth > 40:
                    return {"weird": "cycle"}
                return {"b": cid, "i": i, "pos": [self.view(y, depth + 1) for y in a],
                        "kw": {n: self.view(v, depth + 1) for n, v in sorted(k.items())}}
        if isinstance(x, Partial):
            return "partial"
        if isinstance(x, PartialBind):
            return "bind"
        return self.unval(x)


def shipped_class(name):
    import importlib
    mod = {"LinearController": "cobald.controller.linear", "RelativeSupplyController": "cobald.controller.relative_supply",
           "Stepwise": "cobald.controller.stepwise", "DemandSwitch": "cobald.controller.switch",
           "Buffer": "cobald.decorator.buffer", "Logger": "cobald.decorator.logger",
           "Standardiser": "cobald.decorator.standardiser", "FactoryPool": "cobald.composite.factory"}[name]
    return getattr(importlib.import_module(mod), name)


def live_kind(cls):
    from cobald.interfaces import Pool, PoolDecorator, Controller
    mro = cls.__mro__          # not issubclass: ABCMeta walks every (even dead) subclass for negative answers
    if Controller in mro:
        return "C"
    if PoolDecorator in mro:
        return "D"
    if Pool in mro:
        return "P"
    raise ValueError("class is neither controller nor pool: %r" % cls.__name__)


def live_layers(cls):
    """MRO of the live class as the model sees it: per class, has it a __new__ of its own (must have the
    shape of the service wrapper) and the signature of its own __init__"""
    out = []
    for base in cls.__mro__:
        if base is object:
            continue
        d = vars(base)
        layer = {"service": False, "init": None}
        if "__new__" in d:
            new = d["__new__"]
            new = getattr(new, "__func__", new)
            s = sig_of_callable(new, True)
            running = init_function(base)
            if running is not None and s == sig_of_callable(running, True):
                # a wrapper that advertises the signature of the __init__ that runs (what a repair of the
                # known defect would do) is, for inspect and for binding alike, that __init__
                layer["init"] = s
                out.append(layer)
                continue
            if not (s["po"] or s["pk"] or s["ko"]) and s["va"] == "args" and s["vk"] == "kwargs":
                layer["service"] = True          # the wrapper as it is: (cls, *args, **kwargs)
            else:
                raise ValueError("user-defined __new__ that is not the service wrapper: outside the model")
        if "__init__" in d:
            layer["init"] = sig_of_callable(d["__init__"], True)
        out.append(layer)
    return out


def init_function(cls):
    for base in cls.__mro__:
        if "__init__" in vars(base) and base is not object:
            return vars(base)["__init__"]
    return None


def shadowed_by_new(cls):
    """the known defect class: the first class of the MRO that defines __new__ or __init__ defines __new__
    (then inspect reports __new__) and what inspect reports is not the signature of the __init__ that runs"""
    for base in cls.__mro__:
        if base is object:
            continue
        if "__new__" in vars(base):
            running = init_function(cls)
            return running is None or sig_of_callable(cls, False) != sig_of_callable(running, True)
        if "__init__" in vars(base):
            return False
    return False


# --------------------------------------------------------------------------------------------
# generation
# --------------------------------------------------------------------------------------------
class Atoms:
    def __init__(self):
        self.n = 0

    def new(self, rng):
        self.n += 1
        r = rng.random()
        if r < 0.08:
            return {"a": rng.choice("fl"), "n": self.n}
        return self.n if r < 0.72 else "s%d" % self.n


def rnd_class(rng, kind):
    nl = rng.choice([1, 1, 1, 2, 2, 3])
    layers = []
    for j in range(nl):
        base_most = j == nl - 1
        # (classes without any constructor of their own are made below: `noinit`)
        has_init = base_most or rng.random() < 0.5
        layers.append({"service": rng.random() < 0.3, "init": rnd_sig(rng, kind) if has_init else None})
    if rng.random() < 0.5:          # most classes: not wrapped at all, so that the exact check is exercised
        for layer in layers:
            layer["service"] = False
    sp = {"kind": kind, "layers": layers}
    if kind != "P" and rng.random() < 0.12:
        # no constructor of its own anywhere: the interface class's constructor (taking the target) is inherited
        sp["noinit"] = True
        for layer in layers:
            layer["init"] = None
    if kind != "C" and rng.random() < 0.12:
        sp["falsy"] = True       # instances are empty containers (len 0): falsy objects are objects all the same
    return sp


def spec_init_sig(sp):
    for layer in sp["layers"]:
        if layer["init"] is not None:
            return layer["init"]
    # no constructor of its own: the interface class's (Controller / PoolDecorator take the target, Pool nothing)
    if sp.get("kind") in ("C", "D"):
        return {"po": [], "pk": [["target", False]], "va": None, "ko": [], "vk": None}
    return {"po": [], "pk": [], "va": None, "ko": [], "vk": None}


def rnd_args(rng, s, with_target, atoms, mode):
    """argument list for a constructor signature: (positionals, keywords as list of pairs).
    mode: valid | incomplete | bad"""
    pos_formals = [p for p in s["po"]] + [p for p in s["pk"]]
    npo = len(s["po"])
    skip = 1 if with_target else 0
    avail = max(0, len(pos_formals) - skip)
    if mode == "incomplete":
        m = rng.randint(0, avail)
    else:
        need_all = 0                                    # positional-only formals without default must be filled
        for i, p in enumerate(s["po"]):
            if not p[1]:
                need_all = i + 1
        need = max(0, need_all - skip)
        m = rng.randint(min(need, avail), avail)
    if s["va"] and rng.random() < 0.5:
        m += rng.randint(0, 2)
    pos = [atoms.new(rng) for _ in range(m)]
    filled = skip + m
    kw = []
    for i, p in enumerate(s["pk"]):
        if npo + i < filled:
            continue
        if not p[1]:
            if mode != "incomplete" or rng.random() < 0.5:
                kw.append([p[0], atoms.new(rng)])
        elif rng.random() < 0.4:
            kw.append([p[0], atoms.new(rng)])
    for p in s["ko"]:
        if (not p[1] and (mode != "incomplete" or rng.random() < 0.5)) or (p[1] and rng.random() < 0.4):
            kw.append([p[0], atoms.new(rng)])
    if s["vk"]:
        for _ in range(rng.choice([0, 0, 1, 2])):
            nm = rng.choice(["x", "y", "z", "w"])
            if nm not in [k for k, _ in kw]:
                kw.append([nm, atoms.new(rng)])
    rng.shuffle(kw)
    if mode == "bad":
        r = rng.random()
        names_all = [p[0] for p in s["po"] + s["pk"] + s["ko"]]
        if r < 0.2:
            pos = pos + [atoms.new(rng) for _ in range(rng.randint(1, 3) + max(0, avail - m))]
        elif r < 0.4:
            kw.append([rng.choice(["q", "r", "zz"]), atoms.new(rng)])
        elif r < 0.55 and names_all:
            nm = rng.choice(names_all)
            if nm not in [k for k, _ in kw]:
                kw.append([nm, atoms.new(rng)])
            else:
                pos = pos + [atoms.new(rng)] * 2
        elif r < 0.7:
            kw.append(["target", atoms.new(rng)])
        elif r < 0.85:
            pos = [{"p": rng.randrange(3)}] + pos
        else:
            kw.append([rng.choice(["q", "a", "b"]), atoms.new(rng)])
            kw = [k for i, k in enumerate(kw) if k[0] not in [x[0] for x in kw[:i]]]
            if pos:
                pos.insert(rng.randrange(len(pos) + 1), {"p": rng.randrange(3)})
    return pos, kw


def split_calls(rng, pos, kw, mode, atoms):
    """split the arguments over 1-4 calls (.s first, then curry calls)"""
    k = rng.choice([1, 1, 2, 2, 3, 4])
    cuts = sorted(rng.randint(0, len(pos)) for _ in range(k - 1))
    chunks = [pos[a:b] for a, b in zip([0] + cuts, cuts + [len(pos)])]
    kws = [[] for _ in range(k)]
    for item in kw:
        kws[rng.randrange(k)].append(item)
    calls = [[c, w] for c, w in zip(chunks, kws)]
    if mode == "dup" and kw:
        item = rng.choice(kw)
        j = rng.randrange(len(calls) + 1)
        if j == len(calls):
            calls.append([[], [[item[0], atoms.new(rng)]]])
        elif item[0] not in [x[0] for x in calls[j][1]]:
            calls[j][1].append([item[0], atoms.new(rng)])
    return calls


def all_shapes(n):
    """all binary trees with n leaves numbered 0..n-1 left to right (nested lists, leaf = int)"""
    def go(lo, hi):
        if hi - lo == 1:
            yield lo
            return
        for m in range(lo + 1, hi):
            for l in go(lo, m):
                for r in go(m, hi):
                    yield [l, r]
    return list(go(0, n))


def rnd_shape(rng, lo, hi):
    if hi - lo == 1:
        return lo
    r = rng.random()
    if r < 0.2:
        m = lo + 1
    elif r < 0.4:
        m = hi - 1
    else:
        m = rng.randint(lo + 1, hi - 1)
    return [rnd_shape(rng, lo, m), rnd_shape(rng, m, hi)]


def mk_element(rng, classes, kind, atoms, mode="valid", how="s"):
    sp = rnd_class(rng, kind)
    classes.append(sp)
    s = spec_init_sig(sp)
    amode = mode if mode in ("valid", "incomplete", "bad") else "valid"
    pos, kw = rnd_args(rng, s, kind != "P", atoms, amode)
    return {"c": len(classes) - 1, "how": how, "calls": split_calls(rng, pos, kw, mode, atoms)}


def mk_quirk_element(rng, classes, atoms):
    """decorator whose constructor has **kwargs and a defaulted positional-only formal that a keyword names:
    a real call binds (the keyword lands in **kwargs), CPython<=3.12 inspect refuses it"""
    ko = [["k", rng.random() < 0.5]] if rng.random() < 0.5 else []
    s = {"po": [["target", False], ["q", True]], "pk": [["r", True]] if rng.random() < 0.5 else [], "va": None,
         "ko": ko, "vk": "extra"}
    classes.append({"kind": "D", "layers": [{"service": False, "init": s}]})
    kw = [["q", atoms.new(rng)]] + [[p[0], atoms.new(rng)] for p in ko if not p[1]]
    pos = [atoms.new(rng)] if rng.random() < 0.3 else []       # with one positional q is filled: no quirk, accepted
    return {"c": len(classes) - 1, "how": "s", "calls": split_calls(rng, pos, kw, "valid", atoms)}


def _twin(calls):
    def tw(v):
        return {"a": "f", "n": v} if type(v) is int else v
    return [[[tw(v) for v in a], [[k, tw(v)] for k, v in kw]] for a, kw in calls]


def gen_chain(rng, n, shape=None, tail_form=None, quality=None):
    atoms = Atoms()
    classes = []
    quality = quality or rng.choice(["valid"] * 12 + ["incomplete"] * 2 + ["bad"] * 4 + ["dup"] * 2 + ["illkinded"] * 2 + ["quirk"])
    bad_at = rng.randrange(n + 1)
    elems = []
    for i in range(n):
        kind = "C" if (i == 0 and rng.random() < 0.6) else "D"
        how = "s"
        mode = "valid"
        if quality in ("incomplete", "bad", "dup") and i == bad_at:
            mode = quality
        if quality == "illkinded" and i > 0 and rng.random() < 0.35:
            r = rng.random()
            if r < 0.4:
                kind = "C"
            elif r < 0.7:
                kind, how = "P", "s"
            else:
                how = rng.random() < 0.5
        if quality == "quirk" and i == min(bad_at, n - 1):
            elems.append(mk_quirk_element(rng, classes, atoms))
            continue
        elems.append(mk_element(rng, classes, kind, atoms, mode, how))
    tail_form = tail_form or rng.choice(["inst", "tmpl", "curried"])
    if tail_form == "inst":
        tail = {"inst": rng.randrange(3)}
    else:
        mode = quality if (quality in ("incomplete", "bad", "dup") and bad_at == n) else "valid"
        t = mk_element(rng, classes, "P", atoms, mode, "s")
        if tail_form == "tmpl":
            t["calls"] = [[sum((c[0] for c in t["calls"]), []), sum((c[1] for c in t["calls"]), [])]] \
                if mode != "dup" else t["calls"]
        elif len(t["calls"]) == 1:
            t["calls"].append([[], []])
        if quality == "illkinded" and rng.random() < 0.3:
            t["how"] = False
        tail = {"tmpl": t}
    if shape is None:
        shape = rnd_shape(rng, 0, n + 1)
    if n >= 2 and rng.random() < 0.3:
        # the same class twice in one chain, the second time with arguments that are equal to but not the same as the
        # first's (3 / 3.0): each template must keep what it was given
        cand = [i for i, e in enumerate(elems) if e["how"] == "s" and classes[e["c"]]["kind"] == "D" and "unbound" not in e]
        if len(cand) >= 2:
            i, j = rng.sample(cand, 2)
            elems[j] = {"c": elems[i]["c"], "how": "s", "calls": _twin(elems[i]["calls"])}
    case = {"t": "chain", "classes": classes, "elems": elems, "tail": tail, "shape": shape, "quality": quality}
    if n >= 2 and rng.random() < 0.35:
        case["alias"] = rng.randrange(n)
    if rng.random() < 0.3:
        case["warm_bases"] = True
    return case


def gen_bind(rng):
    atoms = Atoms()
    kind = rng.choice("CDP")
    sp = rnd_class(rng, kind)
    s = spec_init_sig(sp)
    mode = rng.choice(["valid", "valid", "incomplete", "bad", "bad"])
    pos, kw = rnd_args(rng, s, kind != "P", atoms, mode)
    if kind != "P" and rng.random() < 0.8:
        pos = [{"p": rng.randrange(3)}] + pos
    if mode == "bad" and s["po"] and rng.random() < 0.5:
        nm = rng.choice(s["po"])[0]
        if nm not in [k for k, _ in kw]:
            kw.append([nm, atoms.new(rng)])
    kw = [k for i, k in enumerate(kw) if k[0] not in [x[0] for x in kw[:i]]]
    return {"t": "bind", "classes": [sp], "pos": pos, "kw": kw}


def gen_sig(rng):
    return {"t": "sig", "classes": [rnd_class(rng, rng.choice("CDP"))]}


def shipped_template(name, calls, unbound_rules=None):
    sp = {"shipped": name}
    el = {"c": 0, "how": "s", "calls": calls}
    if unbound_rules is not None:
        el["unbound"] = unbound_rules
    return {"t": "chain", "classes": [sp], "elems": [el], "tail": {"inst": 0}, "shape": 0, "quality": "shipped"}


def corpus(tier):
    import random
    rng = random.Random(404)
    # the known defect first: LinearController.s(foo=0) is accepted
    yield shipped_template("LinearController", [[[], [["foo", 0]]]])
    yield shipped_template("Standardiser", [[[], [["foo", 0]]]])
    yield shipped_template("Standardiser", [[[], [["minimum", 1]]], [[], [["maximum", 2]]], [[], [["minimum", 3]]]])
    yield shipped_template("Logger", [[[1, 2, 3, 4], []]])
    yield shipped_template("Logger", [[[1, 2, 3], []], [[], [["name", 4]]]])
    yield shipped_template("Buffer", [[[1, 2], []]])
    yield shipped_template("FactoryPool", [[[], [["factory", 1]]], [[], [["interval", 2]]]])
    yield shipped_template("DemandSwitch", [[[], [["target", 1]]]])
    yield shipped_template("RelativeSupplyController", [[[{"p": 0}], []]])
    yield shipped_template("Stepwise", [[[], [["interval", 5]]]], unbound_rules=2)
    yield shipped_template("Stepwise", [[[], [["base", 5]]]], unbound_rules=0)
    for name in SHIPPED:
        yield {"t": "sig", "classes": [{"shipped": name}]}
        yield shipped_template(name, [[[], []]], unbound_rules=(1 if name == "Stepwise" else None))
    for _ in range(4):
        yield gen_chain(rng, 2, quality="quirk")
    # every parenthesisation, three tail forms
    top = 6 if tier == "thorough" else 5
    for n in range(1, top + 1):
        for shape in all_shapes(n + 1):
            for tf in ("inst", "tmpl", "curried"):
                yield gen_chain(rng, n, shape=shape, tail_form=tf, quality="valid")
    if tier != "thorough":
        for k, shape in enumerate(all_shapes(7)):
            yield gen_chain(rng, 6, shape=shape, tail_form=("inst", "tmpl", "curried")[k % 3], quality="valid")


_TIER = ["quick"]


def setup(chk):
    _TIER[0] = chk.tier


def gen_cases(rng, n):
    count = 0
    for c in corpus(_TIER[0]):
        count += 1
        yield c
    while count < n:
        count += 1
        r = rng.random()
        if r < 0.55:
            yield gen_chain(rng, rng.choice([1, 2, 2, 3, 3, 4, 5, 6, 7, 8, 10, 12]))
        elif r < 0.9:
            yield gen_bind(rng)
        else:
            yield gen_sig(rng)


# --------------------------------------------------------------------------------------------
# implementation runner
# --------------------------------------------------------------------------------------------
def _exc(e):
    if isinstance(e, TypeError):
        return "TypeError"
    if isinstance(e, IndexError):
        return "IndexError"
    return "other:" + type(e).__name__


def make_template(world, el):
    """-> (flags per call, template or None)"""
    from cobald.interfaces import Partial
    cls = world.classes[el["c"]]
    flags = []
    tmpl = None
    for j, (a, k) in enumerate(el["calls"]):
        args = [world.val(v) for v in a]
        kwargs = {n: world.val(v) for n, v in k}
        try:
            if j == 0:
                if "unbound" in el:
                    from cobald.controller.stepwise import stepwise
                    unbound = stepwise(_base_rule)
                    for r in range(el["unbound"]):
                        unbound.add(_base_rule, supply=r + 1)
                    tmpl = unbound.s(*args, **kwargs)
                elif el["how"] == "s":
                    tmpl = cls.s(*args, **kwargs)
                else:
                    tmpl = Partial(cls, *args, __leaf__=bool(el["how"]), **kwargs)
            else:
                tmpl = tmpl(*args, **kwargs)
            flags.append(True)
        except Exception as e:     # noqa
            flags.append(False if isinstance(e, TypeError) else _exc(e))
            return flags, None
    return flags, tmpl


def _base_rule(pool, interval):
    return None


def eval_shape(shape, objs, side=None):
    """Evaluate a nesting of ``>>``.  With `side` (a non-final element template), every unfinished
    intermediate chain is *also* continued by `side` before its real continuation and that second
    chain is thrown away: a chain value is a value, so being continued twice must not change what
    either continuation produces (the model's ``rshift`` is a pure function)."""
    if isinstance(shape, int):
        return objs[shape]
    left = eval_shape(shape[0], objs, side)
    right = eval_shape(shape[1], objs, side)
    if side is not None:
        for half in (left, right):
            if type(half).__name__ == "PartialBind":
                try:
                    operator.rshift(half, side)
                except Exception:     # noqa
                    pass
    return operator.rshift(left, right)


def run_impl(case):
    world = World(case["classes"])
    if case["t"] == "sig":
        cls = world.classes[0]
        return {"sig": sig_of_callable(cls, False), "layers": live_layers(cls), "kind": live_kind(cls)}
    if case["t"] == "bind":
        cls = world.classes[0]
        out = {"layers": live_layers(cls), "kind": live_kind(cls)}
        try:
            obj = cls(*[world.val(v) for v in case["pos"]], **{n: world.val(v) for n, v in case["kw"]})
        except Exception as e:     # noqa
            out["raised"] = _exc(e)
            return out
        seen = world.bindings[id(obj)]
        out["binding"] = [[n, _bound(world, v)] for n, v in seen.items()]
        return out
    # chain
    out = {"layers": [live_layers(c) for c in world.classes], "kinds": [live_kind(c) for c in world.classes]}
    specs = list(case["elems"]) + ([case["tail"]["tmpl"]] if "tmpl" in case["tail"] else [])
    if case.get("warm_bases"):
        # the base classes of every element's class have been used as templates before (same process, earlier
        # pipelines): what is learnt about a base class says nothing about its subclasses
        for layer_list in world.layer_classes.values():
            for base in layer_list[:-1]:
                try:
                    base.s()
                except Exception:     # noqa
                    pass
        del world.log[:]
    flags, tmpls = [], []
    for el in specs:
        f, t = make_template(world, el)
        flags.append(f)
        tmpls.append(t)
    out["accepted"] = flags
    if any(t is None for t in tmpls):
        out["result"] = None
        return out
    objs = list(tmpls) if "tmpl" in case["tail"] else tmpls + [world.pools[case["tail"]["inst"]]]
    del world.log[:]
    try:
        side = None
        if case.get("alias") is not None and case["elems"]:
            cand = tmpls[case["alias"] % len(case["elems"])]
            if type(cand).__name__ == "Partial" and not cand.leaf:
                side = cand
        res = eval_shape(case["shape"], objs, side)
        out["result"] = {"obj": world.view(res)}
    except Exception as e:     # noqa
        out["result"] = {"err": _exc(e)}
    out["log"] = [world.view(o) for (o, _c, _a, _k) in world.log]
    return out


def _bound(world, v):
    if v is _DEFAULT:
        return "default"
    if isinstance(v, tuple):
        return {"star": [world.unval(x) for x in v]}
    if isinstance(v, dict):
        return {"kwd": [[n, world.unval(x)] for n, x in sorted(v.items())]}
    return {"v": world.unval(v)}


# --------------------------------------------------------------------------------------------
# oracle: the property, on the implementation's behaviour (independent of the Coq model)
# --------------------------------------------------------------------------------------------
def _weird(x):
    if isinstance(x, dict):
        return "weird" in x or any(_weird(v) for v in x.values())
    if isinstance(x, list):
        return any(_weird(v) for v in x)
    return False


def can_bind_by_calling(world, cls, pos, kw):
    """is there an extension of (pos, kw) by further positionals / keywords with which cls(...) binds?
    decided by really calling the constructor (TypeError = does not bind)"""
    init = init_function(cls)
    s = sig_of_callable(init, True) if init else {"po": [], "pk": [], "va": None, "ko": [], "vk": None}
    cand = [n for n in sig_named(s) if n not in kw]
    npos = len(s["po"]) + len(s["pk"])
    saved = list(world.log)
    try:
        for extra in range(0, npos + 2):
            for r in range(len(cand), -1, -1):
                for sub in itertools.combinations(cand, r):
                    k2 = dict(kw)
                    k2.update({n: 0 for n in sub})
                    try:
                        cls(*(list(pos) + [0] * extra), **k2)
                        return True
                    except TypeError:
                        pass
        return False
    finally:
        world.log[:] = saved


def can_bind_by_signature(cls, pos, kw):
    """same question for shipped classes (their constructors validate values, so they are not called):
    inspect.Signature.bind on the __init__ that would run"""
    sig = inspect.signature(init_function(cls))
    s = sig_of_callable(init_function(cls), True)
    cand = [n for n in sig_named(s) if n not in kw]
    npos = len(s["po"]) + len(s["pk"])
    for extra in range(0, npos + 2):
        for r in range(len(cand), -1, -1):
            for sub in itertools.combinations(cand, r):
                k2 = dict(kw)
                k2.update({n: 0 for n in sub})
                try:
                    sig.bind(None, *(list(pos) + [0] * extra), **k2)
                    return True
                except TypeError:
                    pass
    return False


def quirk_class(cls, npos_given, kw):
    """keyword naming a positional-only formal that is not filled positionally, with **kwargs present"""
    init = init_function(cls)
    if init is None:
        return False
    s = sig_of_callable(init, True)
    return bool(s["vk"]) and any(p[0] in kw for p in s["po"][npos_given:])


def well_kinded(case, world):
    """the property's notion of a chain: e2..en non-leaf templates of pool classes made by .s, tail a pool"""
    for i, el in enumerate(case["elems"]):
        if el["how"] != "s" and "unbound" not in el:
            return False
        if i > 0 and live_kind(world.classes[el["c"]]) != "D":
            return False
        if i == 0 and live_kind(world.classes[el["c"]]) == "P":
            return False
    if "tmpl" in case["tail"]:
        t = case["tail"]["tmpl"]
        if t["how"] != "s" or live_kind(world.classes[t["c"]]) != "P":
            return False
    return True


def oracle(case, obs):
    if "harness_error" in obs:
        return [(None, "harness error: " + obs["harness_error"])]
    if case["t"] != "chain":
        if obs.get("raised", "TypeError") != "TypeError":
            return [(None, "constructor raised: " + obs["raised"])]
        return []
    v = []
    world = World(case["classes"])
    specs = list(case["elems"]) + ([case["tail"]["tmpl"]] if "tmpl" in case["tail"] else [])
    # ---- eager check: rejection iff no extension can bind
    totals = []
    for el, flags in zip(specs, obs["accepted"]):
        cls = world.classes[el["c"]]
        judged = el["how"] == "s" or "unbound" in el
        shipped = "shipped" in case["classes"][el["c"]]
        with_target = live_kind(cls) != "P"
        pos, kw, dup = [], {}, False
        for (a, k), flag in zip(el["calls"], flags):
            if flag not in (True, False):
                v.append((None, "unexpected exception: template call raised %s" % flag))
                break
            pos = pos + [world.val(x) for x in a]
            for n, x in k:
                if n in kw:
                    dup = True
                kw[n] = world.val(x)
            if not judged:
                continue
            full_pos = list(pos)
            if "unbound" in el:
                full_pos = [0] * (1 + el["unbound"]) + full_pos
            passes_target = "target" in kw or bool(full_pos and isinstance(full_pos[0], world.Pool))
            tgt = [world.pools[0]] if with_target else []
            if dup or passes_target:
                bindable = False
            elif shipped:
                bindable = can_bind_by_signature(cls, tgt + full_pos, kw)
            else:
                bindable = can_bind_by_calling(world, cls, tgt + full_pos, kw)
            if flag and not bindable:
                if shadowed_by_new(cls):
                    v.append((FINDING, "eager check vacuous: %s accepted arguments that can never bind "
                              "(class wrapped by the service decorator)" % ("shipped " + case["classes"][el["c"]]["shipped"]
                                                                          if shipped else "synthesised class")))
                elif "unbound" in el:
                    # masked by the service defect on the unchanged tree: UnboundStepwise.s passes __leaf__=True for
                    # a controller, so the check leaves out the target slot (stepwise.py:193)
                    v.append((FINDING_LEAF, "eager check misses the target slot: UnboundStepwise.s accepted arguments that "
                              "can never bind to Stepwise(target, base, *rules, ...)"))
                else:
                    v.append((None, "eager check too weak: accepted arguments that can never bind: pos=%d kw=%s"
                              % (len(full_pos), sorted(kw))))
            if not flag and bindable:
                if quirk_class(cls, len(tgt) + len(full_pos), kw):
                    pass        # stdlib inspect quirk, outside the stated domain (notes/C04.md)
                else:
                    v.append((None, "eager check too strong: rejected arguments that can bind: pos=%d kw=%s"
                              % (len(full_pos), sorted(kw))))
            if not flag:
                break
        totals.append((pos, kw))
    # ---- the chain
    res = obs.get("result")
    if res is None or case["quality"] == "shipped":
        return v
    if "err" in res and res["err"].startswith("other:"):
        v.append((None, "unexpected exception: chain raised %s" % res["err"]))
        return v
    if not well_kinded(case, world):
        return v
    if _weird(res) or _weird(obs["log"]):
        v.append((None, "foreign value: an object that was never supplied shows up in the pipeline"))
        return v
    # hand-nested construction with concatenated arguments
    del world.log[:]
    n = len(case["elems"])
    try:
        if "tmpl" in case["tail"]:
            pos, kw = totals[-1]
            cur = world.classes[case["tail"]["tmpl"]["c"]](*pos, **kw)
        else:
            cur = world.pools[case["tail"]["inst"]]
        for i in reversed(range(n)):
            pos, kw = totals[i]
            cur = world.classes[case["elems"][i]["c"]](cur, *pos, **kw)
        want = {"obj": world.view(cur)}
    except TypeError:
        want = {"err": "TypeError"}
    want_log = [world.view(o) for (o, _c, _a, _k) in world.log]
    if res != want:
        v.append((None, "nesting: the chain evaluates to %s, hand-nested constructors give %s"
                  % (_short(res), _short(want))))
    if obs["log"] != want_log:
        v.append((None, "construction log: chain %s, hand-nested %s" % (_short(obs["log"]), _short(want_log))))
    # exactly once, last to first, each with the previously built object as first positional
    if "obj" in res:
        log = obs["log"]
        off = 1 if "tmpl" in case["tail"] else 0
        if len(log) != n + off:
            v.append((None, "exactly-once: %d constructor calls for %d elements" % (len(log), n + off)))
        else:
            for j in range(n):
                entry = log[off + j]
                el = case["elems"][n - 1 - j]
                if entry["b"] != el["c"]:
                    v.append((None, "order: call %d constructs class %d, expected %d" % (off + j, entry["b"], el["c"])))
                    break
                first = entry["pos"][0] if entry["pos"] else None
                prev = (log[off + j - 1]["i"] if off + j > 0 else None)
                if prev is None:
                    ok = first == {"p": case["tail"]["inst"]}
                else:
                    ok = isinstance(first, dict) and first.get("i") == prev
                if not ok:
                    v.append((None, "target: call %d did not receive the previously built object first" % (off + j)))
                    break
            if res["obj"].get("i") != len(log) - 1:
                v.append((None, "head: the chain does not return the head element"))
    return v


def _short(x):
    s = repr(x)
    return s if len(s) < 300 else s[:300] + "..."


def nontrivial(case, obs):
    if case["t"] != "chain" or "accepted" not in obs:
        return False
    if any(f and f[-1] is False for f in obs["accepted"]):
        return True
    return len(case["elems"]) >= 2 and isinstance(obs.get("result"), dict) and "obj" in obs["result"]


# --------------------------------------------------------------------------------------------
# Coq printing
# --------------------------------------------------------------------------------------------
class Names:
    def __init__(self):
        self.tab = {"target": 0, "args": 1, "kwargs": 2}

    def __call__(self, name):
        if name not in self.tab:
            self.tab[name] = len(self.tab)
        return cN(self.tab[name])


def c_val(v):
    if isinstance(v, dict):
        if "p" in v:
            return "(VPool %s)" % cN(v["p"])
        if "a" in v:
            return "(VAtom %s)" % cN(100000 + 2 * int(v["n"]) + (v["a"] == "l"))
        return "(VAtom %s)" % cN(999999)
    if isinstance(v, str):
        return "(VAtom %s)" % cN(2 * int(v[1:]) + 1)
    return "(VAtom %s)" % cN(2 * int(v))


def c_kw(kw, nm):
    return clist("(%s, %s)" % (nm(n), c_val(x)) for n, x in kw)


def c_pents(ps, nm):
    return clist("(%s, %s)" % (nm(p[0]), cbool(p[1])) for p in ps)


def c_sig(s, nm):
    def opt(x):
        return "None" if x is None else "(Some %s)" % nm(x)
    return "(mkSig %s %s %s %s %s)" % (c_pents(s["po"], nm), c_pents(s["pk"], nm), opt(s["va"]),
                                       c_pents(s["ko"], nm), opt(s["vk"]))


def c_cls(idx, kind, layers, nm):
    ls = clist("(mkLayer %s %s)" % (cbool(l["service"]), "None" if l["init"] is None else "(Some %s)" % c_sig(l["init"], nm))
               for l in layers)
    return "(mkCls %s %s %s)" % (cN(idx), {"C": "KController", "D": "KDecorator", "P": "KPool"}[kind], ls)


def c_view(x, nm):
    if x == "partial":
        return "OPartial"
    if x == "bind":
        return "OPartialBind"
    if isinstance(x, dict) and "b" in x:
        kw = []
        for n, val in x["kw"].items():
            kw.append((n, val if not (isinstance(val, dict) and "b" in val) else {"weird": "object as keyword"}))
        return "(OBuilt %s %s %s)" % (cN(x["b"]), clist(c_view(y, nm) for y in x["pos"]), c_kw(kw, nm))
    return "(OVal %s)" % c_val(x)


def c_shape(s):
    if isinstance(s, int):
        return "(Leaf %d%%nat)" % s
    return "(Node %s %s)" % (c_shape(s[0]), c_shape(s[1]))


def c_espec(el, cls_terms, nm):
    calls = [list(c) for c in el["calls"]]
    if "unbound" in el:
        how = "(Direct true)"
        pre = [900 + i for i in range(1 + el["unbound"])]
        calls[0] = [pre + list(calls[0][0]), calls[0][1]]
    elif el["how"] == "s":
        how = "ViaS"
    else:
        how = "(Direct %s)" % cbool(el["how"])
    return "(mkE %s %s %s)" % (cls_terms[el["c"]], how,
                               clist("(%s, %s)" % (clist(c_val(v) for v in a), c_kw(k, nm)) for a, k in calls))


def coq_case(case, obs):
    nm = Names()
    if "harness_error" in obs:
        return "(CSig (mkCls 0%N KPool nil) (mkSig [(0%N, true)] nil None nil None))"     # never equal: reported
    if case["t"] == "sig":
        return "(CSig %s %s)" % (c_cls(0, obs["kind"], obs["layers"], nm), c_sig(obs["sig"], nm))
    if case["t"] == "bind":
        init = None
        for l in obs["layers"]:
            if l["init"] is not None:
                init = l["init"]
                break
        if init is None:
            init = {"po": [], "pk": [], "va": None, "ko": [], "vk": None}
        if "binding" in obs:
            items = []
            for n, b in obs["binding"]:
                if b == "default":
                    t = "BDefault"
                elif "star" in b:
                    t = "(BStar %s)" % clist(c_val(x) for x in b["star"])
                elif "kwd" in b:
                    t = "(BKwd %s)" % c_kw(b["kwd"], nm)
                else:
                    t = "(BVal %s)" % c_val(b["v"])
                items.append("(%s, %s)" % (nm(n), t))
            seen = "(Some %s)" % clist(items)
        else:
            seen = "None" if obs.get("raised") == "TypeError" else "(Some [(0%N, BDefault); (0%N, BDefault)])"
        return "(CBind %s %s %s %s)" % (c_sig(init, nm), clist(c_val(v) for v in case["pos"]), c_kw(case["kw"], nm), seen)
    cls_terms = [c_cls(i, k, l, nm) for i, (k, l) in enumerate(zip(obs["kinds"], obs["layers"]))]
    elems = clist(c_espec(el, cls_terms, nm) for el in case["elems"])
    if "tmpl" in case["tail"]:
        tail = "(TTmplS %s)" % c_espec(case["tail"]["tmpl"], cls_terms, nm)
    else:
        tail = "(TInstS %s)" % cN(case["tail"]["inst"])
    acc = clist(clist(cbool(f is True) for f in fl) for fl in obs["accepted"])
    if obs["result"] is None:
        res = "None"
    else:
        r = obs["result"]
        if "obj" in r:
            rt = "(RObj %s)" % c_view(r["obj"], nm)
        elif r["err"] == "TypeError":
            rt = "(RErr ETypeError)"
        elif r["err"] == "IndexError":
            rt = "(RErr EIndexError)"
        else:
            rt = "(RObj (OVal (VAtom 999998%N)))"
        res = "(Some (%s, %s))" % (rt, clist(c_view(x, nm) for x in obs["log"]))
    return "(CChain %s %s %s %s %s)" % (elems, tail, c_shape(case["shape"]), acc, res)


def distribution(results):
    d = {"kinds": {}, "chain_len": {}, "quality": {}, "tail": {}, "rejected_calls": 0, "accepted_calls": 0,
         "built": 0, "final_typeerror": 0, "service_layers": 0, "bind_ok": 0, "bind_typeerror": 0}
    for (c, o, _v) in results:
        d["kinds"][c["t"]] = d["kinds"].get(c["t"], 0) + 1
        if c["t"] == "bind":
            d["bind_ok" if "binding" in o else "bind_typeerror"] += 1
        if c["t"] != "chain" or "accepted" not in o:
            continue
        n = str(len(c["elems"]))
        d["chain_len"][n] = d["chain_len"].get(n, 0) + 1
        d["quality"][c["quality"]] = d["quality"].get(c["quality"], 0) + 1
        tf = "inst" if "inst" in c["tail"] else ("curried" if len(c["tail"]["tmpl"]["calls"]) > 1 else "tmpl")
        d["tail"][tf] = d["tail"].get(tf, 0) + 1
        for fl in o["accepted"]:
            d["accepted_calls"] += sum(1 for f in fl if f is True)
            d["rejected_calls"] += sum(1 for f in fl if f is False)
        d["service_layers"] += sum(1 for ls in o["layers"] for l in ls if l["service"])
        r = o.get("result")
        if isinstance(r, dict):
            d["built" if "obj" in r else "final_typeerror"] += 1
    return d


def shrink(case, still_fails):
    if case["t"] != "chain":
        return case
    cur = case
    # shorter chains (left-nested shape over what remains), then fewer curry calls per element
    changed = True
    while changed and len(cur["elems"]) > 1:
        changed = False
        for i in range(len(cur["elems"])):
            elems = cur["elems"][:i] + cur["elems"][i + 1:]
            shape = 0
            for j in range(1, len(elems) + 1):
                shape = [shape, j]
            cand = dict(cur, elems=elems, shape=shape)
            try:
                if still_fails(cand):
                    cur, changed = cand, True
                    break
            except Exception:     # noqa
                pass
    changed = True
    while changed:
        changed = False
        for i, el in enumerate(cur["elems"]):
            for j in range(len(el["calls"]) - 1, 0, -1):
                merged = [list(c) for c in el["calls"]]
                merged[j - 1] = [merged[j - 1][0] + merged[j][0], merged[j - 1][1] + merged[j][1]]
                del merged[j]
                if len({k[0] for k in merged[j - 1][1]}) != len(merged[j - 1][1]):
                    continue
                cand = dict(cur, elems=[dict(e, calls=merged) if k == i else e for k, e in enumerate(cur["elems"])])
                try:
                    if still_fails(cand):
                        cur, changed = cand, True
                        break
                except Exception:     # noqa
                    pass
            if changed:
                break
    return cur
