"""
C13 — the daemon process: `python -m cobald.daemon <config>` is run in a subprocess on generated
configurations with instrumented pipeline classes (harness/c13_plug); the event file + exit status are
(a) judged by a python oracle restating the property and (b) translated to RT events and replayed through
the Coq daemon model (model/Daemon.v, corr/C13Corr.v).  The structure fact "the loading payload keeps the
configuration alive" is extracted from main.py / config.py on every run into coq/gen/Gen_daemon.v
(translator tie for that fact).
"""
import ast
import json
import os
import shutil
import signal
import subprocess
import sys
import time
from concurrent.futures import ThreadPoolExecutor

from . import common
from .common import clist, cbool

ID = "C13"
COQ_TARGETS = ["props/C13.vo"]
PLUG = os.path.join(common.VERIF, "harness", "c13_plug")
WORK = os.path.join(common.BUILD, "C13")
GEN = os.path.join(common.COQDIR, "gen", "Gen_daemon.v")
CORR_PRELUDE = "From Cobald Require Import kit.Corr model.RT model.Daemon corr.C13Corr."
FLS = ["trio", "asyncio", "threading"]
FL = {"asyncio": "Aio", "trio": "Trio", "threading": "Thr"}
N_QUICK, N_THOROUGH = 56, 600

TRUSTED_BASE = [
    "Coq 8.16.1 kernel + vm_compute",
    "model/Daemon.v + model/RT.v are hand-written; tied to the code by process-level trace correspondence",
    "harness/c13_plug: instrumented pipeline classes and a sitecustomize wrapper that only LOGS calls of ServiceRunner.accept / main.run / main._load_services in the daemon process (no behaviour change, no source hook)",
    "structure extraction (harness/c13.py:extract_structure, python ast) for the fact loader_holds_config",
    "entry points come from the fake verifplug-0.0.dist-info on PYTHONPATH plus the static cobald dist-info in /venv",
]
ASSUMPTIONS = [
    "CPython frees an unreachable acyclic object immediately (reference counting); the weakly held, not yet started service units follow the reachability rule of model/Daemon.v",
    "SIGINT is delivered to the main thread of the daemon process",
    "exit status and 'error on the runtime log' are observed from outside; schedules and signal times are sampled",
]
RULE = ("configurations = YAML (!Tag mapping form / __type__ mapping, optional logging section) or python modules "
        "using >>, pipeline length 1-6, instrumented controller/decorator/pool services of all three flavours; faults = "
        "invalid YAML, unknown tag, unknown section, missing pipeline, constructor TypeError, unknown extension, missing "
        "file, python config raising, a service failing (raise / non-None return) at a chosen time; SIGINT at a random "
        "time after all services started. non-trivial = >= 2 services or a fault")


# ------------------------------------------------------------------------------------------
# structure facts extracted from the source (translator tie for `loader_holds_config`)
# ------------------------------------------------------------------------------------------
def extract_structure():
    src = os.path.join(common.REPO, "src", "cobald", "daemon", "core")
    facts = {}
    with open(os.path.join(src, "main.py")) as fh:
        main = ast.parse(fh.read())
    with open(os.path.join(src, "config.py")) as fh:
        cfg = ast.parse(fh.read())
    with open(os.path.join(common.REPO, "src", "cobald", "daemon", "config", "mapping.py")) as fh:
        mp = ast.parse(fh.read())

    def fn(tree, name, kinds=(ast.FunctionDef, ast.AsyncFunctionDef)):
        for n in tree.body:
            if isinstance(n, kinds) and n.name == name:
                return n
        raise ValueError("function %s not found" % name)

    # 1. _load_services: an await (sleep) strictly inside `with load(path)`
    ls = fn(main, "_load_services")
    holds = False
    for st in ast.walk(ls):
        if isinstance(st, (ast.With, ast.AsyncWith)):
            is_load = any(isinstance(i.context_expr, ast.Call) and getattr(i.context_expr.func, "id", None) == "load"
                          for i in st.items)
            has_await = any(isinstance(x, ast.Await) for b in st.body for x in ast.walk(b))
            if is_load and has_await:
                holds = True
    facts["load_services_awaits_inside_load_context"] = holds
    # 2. run(): adopt(_load_services, ...) before accept()
    rn = fn(main, "run")
    order = []
    for st in ast.walk(rn):
        if isinstance(st, ast.Call) and isinstance(st.func, ast.Attribute) and getattr(st.func.value, "id", None) == "runtime":
            order.append((st.lineno, st.func.attr, [getattr(a, "id", None) for a in st.args]))
    order.sort()
    names = [o[1] for o in order]
    facts["adopt_before_accept"] = ("adopt" in names and "accept" in names and names.index("adopt") < names.index("accept")
                                     and any(o[1] == "adopt" and "_load_services" in o[2] for o in order))
    # 3. config.load: yields a name that every branch binds to the loader's result
    ld = fn(cfg, "load")
    yielded = [n.value.id for n in ast.walk(ld) if isinstance(n, ast.Yield) and isinstance(n.value, ast.Name)]
    assigned = {}
    for n in ast.walk(ld):
        if isinstance(n, ast.Assign) and isinstance(n.value, ast.Call):
            for t in n.targets:
                if isinstance(t, ast.Name):
                    assigned.setdefault(t.id, []).append(getattr(n.value.func, "id", getattr(n.value.func, "attr", None)))
    facts["load_yields_bound_result"] = bool(yielded) and all(
        y in assigned and all(str(c).startswith("load_") for c in assigned[y]) for y in yielded)
    # 4. load_configuration keeps every non-None plugin output in the returned mapping
    lc = fn(mp, "load_configuration")
    stores = [n for n in ast.walk(lc) if isinstance(n, ast.Assign) and any(isinstance(t, ast.Subscript) for t in n.targets)]
    rets = [n for n in ast.walk(lc) if isinstance(n, ast.Return) and isinstance(n.value, ast.Name)]
    facts["plugin_output_kept"] = bool(stores) and bool(rets) and any(
        isinstance(t, ast.Subscript) and getattr(t.value, "id", None) == rets[-1].value.id for s in stores for t in s.targets)
    facts["loader_holds_config"] = all(facts.values())
    return facts


def regen(chk=None):
    facts = extract_structure()
    os.makedirs(os.path.dirname(GEN), exist_ok=True)
    text = "(* GENERATED on every run by harness/c13.py from src/cobald/daemon/core/{main,config}.py and config/mapping.py *)\n"
    for k, v in facts.items():
        text += "Definition %s : bool := %s.\n" % (k, cbool(v))
    old = None
    if os.path.exists(GEN):
        with open(GEN) as fh:
            old = fh.read()
    if old != text:
        with open(GEN, "w") as fh:
            fh.write(text)
    if chk is not None:
        chk.coverage["structure_facts"] = facts
    return facts


# ------------------------------------------------------------------------------------------
# configuration generation
# ------------------------------------------------------------------------------------------
def gen_case(rng, idx):
    n = rng.choice([1, 2, 2, 3, 3, 4, 5, 6])
    kind = rng.choice(["yaml", "yaml", "yaml", "yml", "py"])
    elems = []
    for i in range(n):
        last = i == n - 1
        fl = rng.choice(FLS + [None])
        role = "Pool" if last else rng.choice(["Ctrl", "Deco", "Deco"]) if i > 0 else rng.choice(["Ctrl", "Deco"])
        if fl is None:
            cls = "PlainPool" if last else "PlainDeco"
        else:
            cls = role + fl.capitalize()
        el = {"cls": cls, "ident": i + 1, "flavour": fl, "form": rng.choice(["tag", "tag", "type"])}
        if fl is not None and rng.random() < 0.25:
            el["idle"] = True           # waits on an awaitable nothing else references
        elif fl is not None and rng.random() < 0.3:
            el["churn"] = True          # allocates cyclic garbage: the garbage collector runs while the daemon is up
        if fl == "asyncio" and rng.random() < 0.3:
            el["stubborn"] = True       # absorbs the first cancellation (flushes state), gives in to the second
        if fl is not None and rng.random() < 0.15:
            # a constructor that outlasts several polls of the accept loop (asyncio services are started by
            # the loop that is busy constructing, trio / thread services by another thread: SLOW_FINDING)
            el["slow"] = rng.choice([0.15, 0.3])
        elems.append(el)
    fault = rng.choice([None, None, None, None, "bad_yaml", "unknown_tag", "unknown_section", "missing_pipeline",
                        "ctor_typeerror", "unknown_ext", "missing_file", "py_raises", "service_fail", "service_fail"])
    if kind == "py" and fault in ("bad_yaml", "unknown_tag", "unknown_section", "missing_pipeline"):
        fault = "py_raises"
    if kind != "py" and fault == "py_raises":
        fault = "bad_yaml"
    case = {"idx": idx, "kind": kind, "elems": elems, "fault": fault, "logging": rng.random() < 0.3,
            "sigint_after": rng.choice([0.0, 0.02, 0.1, 0.3])}
    if kind == "py":
        case["pyname"] = rng.choice(["config.py", "cobald.py", "site_config.py", "trio.py", "logging.py", "verifplug.py"])
    if fault == "service_fail":
        svc = [e for e in elems if e["flavour"]]
        if not svc:
            elems[-1].update({"cls": "PoolTrio", "flavour": "trio"})
            svc = [elems[-1]]
        e = rng.choice(svc)
        e["fail_after"] = rng.choice([0.0, 0.05, 0.2])
        e["fail_kind"] = rng.choice(["raise", "return", "raise", "return", "systemerror", "oserror", "timeout", "connection",
                                     "tuple", "emptytuple", "falsy"])
        e.pop("idle", None)
    return case


def corpus():
    yield {"idx": 9000, "kind": "yaml", "fault": None, "logging": False, "sigint_after": 0.1,
           "elems": [{"cls": "CtrlTrio", "ident": 1, "flavour": "trio", "form": "tag"},
                     {"cls": "DecoAsyncio", "ident": 2, "flavour": "asyncio", "form": "type"},
                     {"cls": "DecoThreading", "ident": 3, "flavour": "threading", "form": "tag"},
                     {"cls": "PoolTrio", "ident": 4, "flavour": "trio", "form": "tag"}]}
    yield {"idx": 9002, "kind": "yaml", "fault": None, "logging": False, "sigint_after": 0.5,
           "elems": [{"cls": "CtrlAsyncio", "ident": 1, "flavour": "asyncio", "form": "tag", "idle": True},
                     {"cls": "DecoAsyncio", "ident": 2, "flavour": "asyncio", "form": "tag", "churn": True},
                     {"cls": "DecoTrio", "ident": 3, "flavour": "trio", "form": "type", "idle": True},
                     {"cls": "PoolThreading", "ident": 4, "flavour": "threading", "form": "tag", "churn": True}]}
    yield {"idx": 9003, "kind": "yaml", "fault": None, "logging": False, "sigint_after": 0.1,
           "elems": [{"cls": "CtrlAsyncio", "ident": 1, "flavour": "asyncio", "form": "tag", "slow": 0.3},
                     {"cls": "DecoAsyncio", "ident": 2, "flavour": "asyncio", "form": "type", "slow": 0.15},
                     {"cls": "PoolTrio", "ident": 3, "flavour": "trio", "form": "tag"}]}
    yield {"idx": 9004, "kind": "yaml", "fault": None, "logging": False, "sigint_after": 0.1,
           "elems": [{"cls": "CtrlTrio", "ident": 1, "flavour": "trio", "form": "tag", "slow": 0.3},
                     {"cls": "PoolThreading", "ident": 2, "flavour": "threading", "form": "tag", "slow": 0.3}]}
    yield {"idx": 9005, "kind": "py", "fault": None, "logging": False, "sigint_after": 0.0, "pyname": "cobald.py",
           "elems": [{"cls": "CtrlTrio", "ident": 1, "flavour": "trio", "form": "tag"},
                     {"cls": "PoolAsyncio", "ident": 2, "flavour": "asyncio", "form": "tag"}]}
    yield {"idx": 9001, "kind": "py", "fault": None, "logging": False, "sigint_after": 0.0,
           "elems": [{"cls": "CtrlAsyncio", "ident": 1, "flavour": "asyncio", "form": "tag"},
                     {"cls": "PoolThreading", "ident": 2, "flavour": "threading", "form": "tag"}]}
    for k, fault in enumerate(["bad_yaml", "unknown_tag", "unknown_section", "missing_pipeline", "ctor_typeerror",
                               "unknown_ext", "missing_file"]):
        yield {"idx": 9010 + k, "kind": "yaml", "fault": fault, "logging": False, "sigint_after": 0.0,
               "elems": [{"cls": "CtrlTrio", "ident": 1, "flavour": "trio", "form": "tag"},
                         {"cls": "PoolTrio", "ident": 2, "flavour": "trio", "form": "tag"}]}
    for k, (fl, fk) in enumerate([("trio", "raise"), ("asyncio", "return"), ("threading", "raise"), ("asyncio", "timeout"),
                                  ("threading", "connection"), ("asyncio", "tuple"), ("threading", "emptytuple"), ("trio", "oserror")]):
        yield {"idx": 9020 + k, "kind": "yaml", "fault": "service_fail", "logging": False, "sigint_after": 0.0,
               "elems": [{"cls": "Ctrl" + fl.capitalize(), "ident": 1, "flavour": fl, "form": "tag", "fail_after": 0.1, "fail_kind": fk},
                         {"cls": "PoolTrio", "ident": 2, "flavour": "trio", "form": "type"}]}


def gen_cases(rng, n):
    out = list(corpus())
    k = 0
    while len(out) < n:
        out.append(gen_case(rng, k))
        k += 1
    return out


def write_config(case, d):
    elems = case["elems"]
    fault = case["fault"]
    if case["kind"] == "py":
        # the configuration lives outside the working directory and may be named like any module (its name is
        # nobody's business: `cobald.py`, `trio.py`, `logging.py` are natural names for a site's configuration)
        os.makedirs(os.path.join(d, "etc"), exist_ok=True)
        path = os.path.join(d, "etc", "config.cfg" if fault == "unknown_ext" else case.get("pyname", "config.py"))
        lines = ["import verifplug"]
        if fault == "py_raises":
            lines.append("raise RuntimeError('broken python configuration')")
        chain = []
        for e in elems:
            kw = "ident=%d" % e["ident"]
            for flag in ("idle", "churn", "stubborn"):
                if e.get(flag):
                    kw += ", %s=True" % flag
            if e.get("slow"):
                kw += ", slow=%r" % e["slow"]
            if "fail_after" in e:
                kw += ", fail_after=%r, fail_kind=%r" % (e["fail_after"], e["fail_kind"])
            if fault == "ctor_typeerror" and e is elems[0]:
                kw += ", bogus=1"
            chain.append("verifplug.%s%s(%s)" % (e["cls"], "" if len(elems) == 1 else ".s", kw))
        lines.append("pipeline = " + " >> ".join(chain))
        text = "\n".join(lines) + "\n"
    else:
        ext = ".yaml" if case["kind"] == "yaml" else ".yml"
        if fault == "unknown_ext":
            ext = ".cfg"
        path = os.path.join(d, "config" + ext)
        lines = []
        if case["logging"]:
            lines += ["logging:", "  version: 1"]
        if fault == "unknown_section":
            lines += ["surprise:", "  a: 1"]
        if fault != "missing_pipeline":
            lines.append("pipeline:")
            for e in elems:
                args = {"ident": e["ident"]}
                for flag in ("idle", "churn", "stubborn"):
                    if e.get(flag):
                        args[flag] = True
                if e.get("slow"):
                    args["slow"] = e["slow"]
                if "fail_after" in e:
                    args["fail_after"] = e["fail_after"]
                    args["fail_kind"] = e["fail_kind"]
                if fault == "ctor_typeerror" and e is elems[0]:
                    args["bogus"] = 1
                cls = e["cls"]
                if fault == "unknown_tag" and e is elems[-1]:
                    cls = "NoSuchPool"
                if e["form"] == "tag":
                    lines.append("  - !%s" % cls)
                else:
                    lines.append("  - __type__: verifplug.%s" % cls)
                for k, v in args.items():
                    lines.append("    %s: %s" % (k, json.dumps(v)))
        else:
            lines.append("other: 1" if False else "# no pipeline section")
        if fault == "bad_yaml":
            lines.append("  - [unbalanced")
        text = "\n".join(lines) + "\n"
    if fault == "missing_file":
        return path + ".absent"
    with open(path, "w") as fh:
        fh.write(text)
    return path


# ------------------------------------------------------------------------------------------
# running the daemon
# ------------------------------------------------------------------------------------------
def read_events(path):
    out = []
    if os.path.exists(path):
        with open(path) as fh:
            for line in fh:
                line = line.strip()
                if line:
                    try:
                        out.append(json.loads(line))
                    except ValueError:
                        pass
    return out


def _interrupt_main_thread(p):
    """SIGINT for the daemon's MAIN thread (its thread id equals the process id).  A process-directed signal may be
    handed to any thread; CPython then only sets a flag and a main thread sleeping in an idle asyncio loop is not
    woken (see harness/rt_scenario.py:send_sigint) - the daemon would look hung although nothing of cobald is."""
    try:
        import ctypes
        import platform
        if platform.machine() == "x86_64" and sys.platform.startswith("linux"):
            libc = ctypes.CDLL(None, use_errno=True)
            if libc.syscall(234, p.pid, p.pid, int(signal.SIGINT)) == 0:      # SYS_tgkill
                return
    except Exception:     # noqa
        pass
    p.send_signal(signal.SIGINT)


SCALE = [1.0]       # set by main() from the machine's load, see common.load_scale


def run_impl(case):
    d = os.path.join(WORK, "run_%d_%d" % (os.getpid(), case["idx"]))
    shutil.rmtree(d, ignore_errors=True)
    os.makedirs(d)
    cfg = write_config(case, d)
    evp = os.path.join(d, "events.jsonl")
    env = common.impl_env({"VERIF_C13_EVENTS": evp})
    env["PYTHONPATH"] = PLUG + os.pathsep + env["PYTHONPATH"]
    p = subprocess.Popen([common.PY, "-m", "cobald.daemon", cfg, "--log-level", "WARNING"],
                         stdout=subprocess.PIPE, stderr=subprocess.PIPE, env=env, cwd=d)
    services = [e["ident"] for e in case["elems"] if e["flavour"]]
    expect_up = case["fault"] is None
    t0 = time.monotonic()
    sig_t = None
    timed_out = False
    ready = False
    while True:
        if p.poll() is not None:
            break
        now = time.monotonic()
        if expect_up and not ready:
            evs = read_events(evp)
            started = {e["ev"][1] for e in evs if e["ev"][0] == "Start"}
            if set(services) <= started and any(e["ev"][0] == "LoaderStart" for e in evs):
                ready = True
                time.sleep((case["sigint_after"] + 0.15) * SCALE[0])      # a quiet period: several polling cycles
                sig_t = time.monotonic()
                with open(evp, "a") as fh:
                    fh.write(json.dumps({"t": sig_t, "tid": 0, "ev": ["Sigint"]}) + "\n")
                _interrupt_main_thread(p)
                continue
        if now - t0 > 8.0 * SCALE[0]:
            timed_out = True
            p.kill()
            break
        time.sleep(0.02)
    try:
        out, err = p.communicate(timeout=5)
    except subprocess.TimeoutExpired:
        p.kill()
        out, err = p.communicate()
    evs = read_events(evp)
    err = err.decode("utf-8", "replace")
    res = {"exit": p.returncode, "timed_out": timed_out, "ready": ready, "events": evs,
           "half_built": "object has no attribute 'ident'" in err or "object has no attribute 'idle'" in err,
           "stderr_tail": err[-600:], "error_logged": ("Traceback" in err or "runner terminated" in err or "Error" in err)}
    shutil.rmtree(d, ignore_errors=True)
    return res


# ------------------------------------------------------------------------------------------
# oracle: the property on the raw observation
# ------------------------------------------------------------------------------------------
SLOW_FINDING = "C13-service-started-before-constructed"


def slow_finding(case, res):
    """the listed finding: a trio / thread service with a slow constructor was started half-built"""
    return bool(res.get("half_built")) and any(e.get("slow") and e["flavour"] in ("trio", "threading") for e in case["elems"])


def oracle(case, res):
    v = []
    slow_other = [e["ident"] for e in case["elems"] if e.get("slow") and e["flavour"] in ("trio", "threading")]
    if case["fault"] is None and slow_finding(case, res):
        return [(SLOW_FINDING, "half-built: trio / thread service %s was started by the accept loop while its constructor "
                 "was still running; its run failed on the missing attributes and the daemon exited with status %s"
                 % (slow_other, res["exit"]))]
    evs = [e["ev"] for e in res["events"]]
    services = {e["ident"]: e for e in case["elems"] if e["flavour"]}
    if case["fault"] is None:
        if res["timed_out"] and not res["ready"]:
            started = {e[1] for e in evs if e[0] == "Start"}
            v.append((None, "idle: daemon stayed up but services %s never started" % sorted(set(services) - started)))
            return v
        for e in evs:
            if e[0] == "Constructed" and e[4] == 0:
                v.append((None, "outside-loop: object %s constructed without a running asyncio loop" % e[1]))
        cons = [e[1] for e in evs if e[0] == "Constructed"]
        if sorted(cons) != sorted(e["ident"] for e in case["elems"]):
            v.append((None, "construction: constructed %s, configured %s" % (cons, [e["ident"] for e in case["elems"]])))
        for ident, spec in services.items():
            st = [e for e in evs if e[0] == "Start" and e[1] == ident]
            if len(st) != 1:
                v.append((None, "start-count: service %d started %d times" % (ident, len(st))))
            elif st[0][2] != spec["flavour"]:
                v.append((None, "flavour: service %d ran as %s" % (ident, st[0][2])))
        isig = [i for i, e in enumerate(evs) if e[0] == "Sigint"]
        if isig:
            for i, e in enumerate(evs[:isig[0]]):
                if e[0] == "Finalized":
                    v.append((None, "collected: object %d was garbage collected while the daemon was running" % e[1]))
                if e[0] in ("Cancelled", "Finish") and e[1] in services:
                    v.append((None, "stopped-early: service %d ended (%s) before the daemon was stopped" % (e[1], e[0])))
            for ident, spec in services.items():
                if spec["flavour"] != "threading":
                    if not [e for e in evs[isig[0]:] if e[0] == "Cancelled" and e[1] == ident]:
                        v.append((None, "not-cancelled: coroutine service %d not cancelled on SIGINT" % ident))
            # targets linked as configured
            for a, b in zip(case["elems"], case["elems"][1:]):
                if not [e for e in evs if e[0] == "Target" and e[1] == a["ident"] and e[2] == b["ident"]]:
                    v.append((None, "linkage: element %d is not linked to element %d" % (a["ident"], b["ident"])))
        if res["exit"] != 0:
            v.append((None, "exit-status: graceful stop by SIGINT gave exit status %s" % res["exit"]))
        if res["timed_out"]:
            v.append((None, "hang: daemon did not exit after SIGINT"))
    else:
        if res["timed_out"]:
            v.append((None, "idle: daemon stayed up although the configuration / a service failed (%s)" % case["fault"]))
        elif res["exit"] == 0:
            v.append((None, "exit-status: fault %s but exit status 0" % case["fault"]))
        elif not res["error_logged"]:
            v.append((None, "no-error: fault %s but nothing on the runtime log" % case["fault"]))
    return v


# ------------------------------------------------------------------------------------------
# translation to RT events
# ------------------------------------------------------------------------------------------
def sid(ident):
    return 2 * ident + 1


def to_events(case, res):
    evs = sorted(res["events"], key=lambda e: e["t"])     # absolute monotonic times of one machine
    # The loader's cancellation is logged by a wrapper *around* main._load_services, i.e. after the `with
    # load(path)` block has been left and the configuration released: objects finalised between a termination
    # trigger and that log record were released by the cancelled loader, so the record is moved before them.
    kinds = [r["ev"] for r in evs]
    lc = next((i for i, e in enumerate(kinds) if e[0] == "LoaderCancelled"), None)
    trig = next((i for i, e in enumerate(kinds) if e[0] == "Sigint" or (e[0] == "Finish" and e[2] != "ret_none")
                 or (e[0] == "LoaderFinish" and e[1] == "raise")), None)
    if lc is not None and trig is not None:
        fin = next((i for i, e in enumerate(kinds) if i > trig and e[0] == "Finalized"), None)
        if fin is not None and fin < lc:
            evs.insert(fin, evs.pop(lc))
    out = []
    started = set()
    constructing = set()
    fail_ids = []
    accept_ended = False
    for rec in evs:
        e, tid = rec["ev"], rec["tid"]
        k = e[0]
        if k == "AdoptCall":
            out += ["AdoptCall Outside 0 0 Aio", "AdoptEnd 0 true"]
        elif k == "AcceptCall":
            out += ["AcceptCall 0"]
        elif k == "LoaderStart":
            out += ["Start 0 Aio %d %d %d true" % (tid, e[1], e[2])]
        elif k == "Constructing":
            # the constructor of a service is a synchronous section of the loading payload; its unit is
            # registered (in __new__) before the constructor body starts
            el = [x for x in case["elems"] if x["ident"] == e[1] and x["flavour"]]
            if el:
                out += ["Enter 0", "NewService (InPayload 0) %d %s" % (sid(e[1]), FL[el[0]["flavour"]])]
                constructing.add(e[1])
        elif k == "Constructed":
            if e[3]:
                if e[1] in constructing:
                    constructing.discard(e[1])
                    out += ["Exit 0"]
                else:
                    out += ["NewService (InPayload 0) %d %s" % (sid(e[1]), FL[e[3]])]
        elif k == "Start":
            fl = e[2]
            loop, other = (e[3], e[4]) if fl == "asyncio" else (e[4], e[3]) if fl == "trio" else (e[3] or e[4], 0)
            if not any(x.startswith("RunningSet") for x in out):
                out += ["RunningSet 0"]            # the service sweep runs inside _accept_services after running.set()
            out += ["Start %d %s %d %d %d true" % (sid(e[1]), FL[fl], tid, loop, other)]
            started.add(e[1])
        elif k == "Step":
            if not accept_ended or True:
                out += ["Step %d %d" % (sid(e[1]), tid)]
        elif k in ("Cancelled", "CleanupDone"):
            out += ["%s %d" % (k, sid(e[1]))]
        elif k == "Finish":
            o = {"raise": "(ORaiseExc 0)", "ret_val": "(ORetVal 0)", "ret_none": "ORetNone"}[e[2]]
            out += ["Finish %d %s" % (sid(e[1]), o)]
            if e[2] != "ret_none":
                fail_ids.append(("CExc" if e[2] == "raise" else "COrphan", sid(e[1])))
        elif k == "LoaderCancelled":
            out += ["Cancelled 0", "CleanupDone 0"]
        elif k == "LoaderFinish":
            if e[1] == "raise":
                out += ["Finish 0 (ORaiseExc 1)"]
                fail_ids.append(("CExc", 0))
            else:
                out += ["Finish 0 %s" % ("ORetNone" if e[1] == "ret_none" else "(ORetVal 1)")]
        elif k == "Finalized":
            if e[1] not in started and any(el["ident"] == e[1] and el["flavour"] for el in case["elems"]) and not accept_ended:
                out += ["DropService %d" % sid(e[1])]
        elif k == "Sigint":
            out += ["Quiesce", "Sigint"]
        elif k == "AcceptEnd":
            accept_ended = True
            if e[1] == "returned":
                out += ["AcceptEnd 0 AReturned"]
            elif e[2] == "RuntimeError" and "background task failed" in e[3]:
                leaves = e[5] if len(e) > 5 else None
                causes = ["(%s %d)" % c for c in fail_ids[:1]] or ["COther"]
                out += ["AcceptEnd 0 (ARuntime %s)" % clist(causes)]
            else:
                out += ["AcceptEnd 0 AOther"]
    return out


def coq_case(case, res, holds):
    evs = to_events(case, res)
    return "(C13Corr.mkCase %s %s %s)" % (cbool(holds), clist("(%s)" % x for x in evs), cbool(res["exit"] == 0))


def nontrivial(case, res):
    return case["fault"] is not None or len([e for e in case["elems"] if e["flavour"]]) >= 2


def diagnose(term):
    d = os.path.join(common.BUILD, "diag", ID)
    os.makedirs(d, exist_ok=True)
    path = os.path.join(d, "diag_%d.v" % os.getpid())
    with open(path, "w") as fh:
        fh.write("From Coq Require Import List.\nImport ListNotations.\n" + CORR_PRELUDE + "\n")
        fh.write("Eval vm_compute in (C13Corr.diagnose %s).\n" % term)
    p = subprocess.run(["timeout", "120", "coqc", "-R", common.COQDIR, "Cobald", "-w", "none", path],
                       stdout=subprocess.PIPE, stderr=subprocess.STDOUT, text=True, cwd=d)
    return " ".join(p.stdout.split())[:500]


def run_cases(cases, workers=10):
    with ThreadPoolExecutor(max_workers=workers) as ex:
        return list(ex.map(run_impl, cases))


def main(tier=None, seed=None, replay=None):
    chk = common.Check(ID, tier, seed)
    os.makedirs(WORK, exist_ok=True)
    if replay:
        with open(replay) as fh:
            rp = json.load(fh)
        case = rp["case"]
        res = run_impl(case)
        viol = oracle(case, res)
        print(json.dumps({"case": case, "exit": res["exit"], "events": [e["ev"] for e in res["events"] if e["ev"][0] != "Step"],
                          "oracle": viol, "stderr": res["stderr_tail"]}, indent=1))
        return 1 if viol else 0

    tie_T = "ok"
    try:
        facts = regen(chk)
        holds = facts["loader_holds_config"]
    except Exception as e:  # fail-closed extractor
        tie_T = "broken: %s" % e
        facts, holds = {}, True
        chk.note("structure extraction failed: %s" % e)
        if not os.path.exists(GEN):
            with open(GEN, "w") as fh:
                fh.write("Definition loader_holds_config : bool := false.\n")
    ok_build, log = chk.build_props(COQ_TARGETS)
    broken = []
    if not ok_build:
        tail = "\n".join(log.splitlines()[-20:])
        chk.note("coq build failed:\n" + tail)
        broken.append({"kind": "proof", "detail": tail})
    okc, logc = common.coq_make(["corr/C13Corr.vo"])
    if not okc:
        broken.append({"kind": "correspondence", "detail": logc[-600:]})

    n = N_THOROUGH if chk.tier == "thorough" else N_QUICK
    SCALE[0] = common.load_scale()
    chk.coverage["time_scale"] = round(SCALE[0], 2)
    cases = gen_cases(chk.rng("cases"), n)
    results = run_cases(cases)

    def judge(cases, results):
        viols = [(i, oracle(c, r)) for i, (c, r) in enumerate(zip(cases, results))]
        return [(i, v) for (i, v) in viols if v]

    viols = judge(cases, results)
    reported = set()
    known_cases = {i for i, (c, r) in enumerate(zip(cases, results)) if slow_finding(c, r)}
    if known_cases:
        chk.known_finding(SLOW_FINDING, "half-built service started")
    for (i, v) in viols:
        if v[0][0] == SLOW_FINDING and chk.known_finding(SLOW_FINDING, v[0][1]):
            known_cases.add(i)
            continue
        # timing robustness: only a reproduced complaint counts
        r2 = run_impl(cases[i])
        v2 = oracle(cases[i], r2)
        kinds = {m.split(":")[0] for (_f, m) in v} & {m.split(":")[0] for (_f, m) in v2}
        if not kinds:
            chk.note("case %d: oracle complaint not reproduced (%s)" % (i, v[0][1][:100]))
            continue
        k = sorted(kinds)[0]
        if k in reported:
            continue
        reported.add(k)
        chk.violation({"what": [m for (_f, m) in v2 if m.startswith(k)][0], "all": [m for (_f, m) in v2], "case": cases[i],
                       "exit": r2["exit"], "events": [e["ev"] for e in r2["events"] if e["ev"][0] != "Step"][:200],
                       "stderr": r2["stderr_tail"]})
    mism = []
    if okc:
        terms = [coq_case(c, r, True) for c, r in zip(cases, results)]
        try:
            bad = common.coq_eval_cases(ID, CORR_PRELUDE, "C13Corr.check", "C13Corr.case", terms, shard=8)
        except common.CoqEvalError as e:
            bad = []
            broken.append({"kind": "correspondence", "detail": str(e)[-800:]})
        for i in bad:
            if i in [x for (x, _v) in viols] or i in known_cases:
                continue
            r2 = run_impl(cases[i])
            t2 = coq_case(cases[i], r2, True)
            if common.coq_eval_cases(ID, CORR_PRELUDE, "C13Corr.check", "C13Corr.case", [t2], tag="corr_rerun"):
                mism.append({"case": cases[i], "model": diagnose(t2), "exit": r2["exit"],
                             "events": [e["ev"] for e in r2["events"] if e["ev"][0] != "Step"][:120]})
            else:
                chk.note("case %d: model disagreement not reproduced" % i)
    if mism:
        broken.append({"kind": "correspondence", "detail": "%d daemon traces rejected by the model" % len(mism)})
    if tie_T == "ok" and not holds:
        broken.append({"kind": "translator", "detail": "structure fact loader_holds_config is false: %s" % facts})

    if broken and not chk.violations:
        chk.note("broken: %s" % json.dumps(broken)[:1500])
        chk.note("a proof obligation / the correspondence broke; searching for a failing configuration")
        more = gen_cases(chk.rng("search"), max(2 * n, 100))
        # prefer the shapes in which an unreferenced configuration shows: many services, no fault
        more.sort(key=lambda c: (c["fault"] is not None, -len(c["elems"])))
        res2 = run_cases(more)
        found = False
        for (i, v) in judge(more, res2):
            if v[0][0] == SLOW_FINDING and chk.known_finding(SLOW_FINDING, v[0][1]):
                continue
            r3 = run_impl(more[i])
            v3 = oracle(more[i], r3)
            if {m.split(":")[0] for (_f, m) in v} & {m.split(":")[0] for (_f, m) in v3}:
                chk.violation({"what": v3[0][1], "all": [m for (_f, m) in v3], "case": more[i], "exit": r3["exit"],
                               "events": [e["ev"] for e in r3["events"] if e["ev"][0] != "Step"][:200], "stderr": r3["stderr_tail"]})
                found = True
                break
        if not found:
            chk.violation({"what": "property no longer shown to hold; no failing configuration found",
                           "broken": broken, "disagreeing": mism[:3]}, no_input=True)

    distinct = {}
    dist = {}
    for c, r in zip(cases, results):
        dist[str(c["fault"])] = dist.get(str(c["fault"]), 0) + 1
        if nontrivial(c, r):
            distinct[common.canon_hash({k: v for k, v in c.items() if k != "idx"})] = 1
    chk.coverage.update({
        "evaluations": len(cases), "distinct_nontrivial": len(distinct), "rule": RULE,
        "traces_validated_against_impl": len(cases) - len(mism),
        "samples": [{"case": cases[0], "exit": results[0]["exit"],
                     "events": [e["ev"] for e in results[0]["events"] if e["ev"][0] != "Step"][:40]}],
        "faults": dist, "oracle_violations": len(chk.violations), "model_disagreements": len(mism),
        "tie": ("structure extraction (loader_holds_config) + process-level trace correspondence" if tie_T == "ok"
                else "correspondence-only (extraction lost: %s)" % tie_T),
    })
    chk.write_evidence(TRUSTED_BASE, ASSUMPTIONS)
    return chk.exit_code()
