#!/usr/bin/env python3
"""
py2coq — fail-closed translator from the small python fragment used by cobald's numeric kernels to
Gallina terms over kit/PyShallow.v (shallow embedding).  No semantic decision is taken here beyond a
fixed, syntax-directed mapping:

  expression  e        ->  term of type `res num` (or `res bool` for tests)
     name x                 Ok x                     (function parameter or local)
     int literal n          Ok (PInt n)
     a + b, a - b, a * b, a // b     rbin nadd|nsub|nmul|nfloordiv [a] [b]
     -a, abs(a)             rneg [a], rabs [a]
     a < b (<= > >= == !=)  rlt|rle|rgt|rge|req|rne [a] [b]        (single comparison only)
     not/and/or             rnot/rand/ror
     self.attr...           the Gallina read expression given by the class's attribute map
     f(args), self.m(args)  bind [arg1] (fun a1 => ... (gen_f a1 ...))   for translated functions only
  statements (a function body)
     return e               value of the function
     if/elif/else           rif [test] [then-block ++ rest] [else-block ++ rest]
     x = e                  bind [e] (fun x => [rest])
     self.attr = e          bind [e] (fun v => let st := <write map> st v in [rest])
     self.attr op= e        read-modify-write of the same path
Anything else (loops, try, calls of unknown functions, chained comparisons, keyword arguments, float
literals, ...) raises TranslationError: the translator tie is then reported lost, never guessed.
"""
import ast


class TranslationError(Exception):
    pass


BINOPS = {ast.Add: "nadd", ast.Sub: "nsub", ast.Mult: "nmul", ast.FloorDiv: "nfloordiv"}
CMPOPS = {ast.Lt: "rlt", ast.LtE: "rle", ast.Gt: "rgt", ast.GtE: "rge", ast.Eq: "req", ast.NotEq: "rne"}


def attr_path(node):
    parts = []
    while isinstance(node, ast.Attribute):
        parts.append(node.attr)
        node = node.value
    if isinstance(node, ast.Name):
        parts.append(node.id)
        return ".".join(reversed(parts))
    raise TranslationError("unsupported attribute base %s" % ast.dump(node)[:80])


class Unit:
    """one translation unit: module-level functions and the methods of one class"""

    def __init__(self, reads, writes, funcs, state_type="std", prefix="gen_"):
        self.reads = reads          # "self.target.supply" -> Gallina expression over `st`
        self.writes = writes        # "self._demand" -> Gallina function name  (st -> num -> state)
        self.funcs = funcs          # python callable name ("_clamp", "self._clamp_demand") -> (coq name, needs_state)
        self.state_type = state_type
        self.prefix = prefix
        self.counter = 0

    def fresh(self, base="v"):
        self.counter += 1
        return "%s%d" % (base, self.counter)

    # ------------------------------------------------------------------ expressions
    def expr(self, e, env):
        if isinstance(e, ast.Name):
            if e.id in env:
                return "(Ok %s)" % env[e.id]
            raise TranslationError("unknown name %r" % e.id)
        if isinstance(e, ast.Constant):
            if isinstance(e.value, bool) or not isinstance(e.value, int):
                raise TranslationError("unsupported literal %r" % (e.value,))
            return "(Ok (PInt (%d)%%Z))" % e.value
        if isinstance(e, ast.Attribute):
            path = attr_path(e)
            if path in self.reads:
                return "(Ok %s)" % self.reads[path]
            raise TranslationError("unmapped attribute read %r" % path)
        if isinstance(e, ast.BinOp):
            if type(e.op) not in BINOPS:
                raise TranslationError("unsupported operator %s" % type(e.op).__name__)
            return "(rbin %s %s %s)" % (BINOPS[type(e.op)], self.expr(e.left, env), self.expr(e.right, env))
        if isinstance(e, ast.UnaryOp):
            if isinstance(e.op, ast.USub):
                return "(rneg %s)" % self.expr(e.operand, env)
            raise TranslationError("unsupported unary operator")
        if isinstance(e, ast.Call):
            if e.keywords:
                raise TranslationError("keyword arguments are not supported")
            name = attr_path(e.func) if isinstance(e.func, ast.Attribute) else (e.func.id if isinstance(e.func, ast.Name) else None)
            if name == "abs" and len(e.args) == 1:
                return "(rabs %s)" % self.expr(e.args[0], env)
            if name in self.funcs:
                coq, needs_state = self.funcs[name]
                names = [self.fresh("a") for _ in e.args]
                call = "(%s%s %s)" % (coq, " st" if needs_state else "", " ".join(names)) if names or needs_state else coq
                for a, n in reversed(list(zip(e.args, names))):
                    call = "(bind %s (fun %s => %s))" % (self.expr(a, env), n, call)
                return call
            raise TranslationError("call of an untranslated function %r" % name)
        raise TranslationError("unsupported expression %s" % type(e).__name__)

    def test(self, e, env):
        if isinstance(e, ast.Compare):
            if len(e.ops) != 1:
                raise TranslationError("chained comparison")
            if type(e.ops[0]) not in CMPOPS:
                raise TranslationError("unsupported comparison %s" % type(e.ops[0]).__name__)
            return "(%s %s %s)" % (CMPOPS[type(e.ops[0])], self.expr(e.left, env), self.expr(e.comparators[0], env))
        if isinstance(e, ast.UnaryOp) and isinstance(e.op, ast.Not):
            return "(rnot %s)" % self.test(e.operand, env)
        if isinstance(e, ast.BoolOp):
            op = "rand" if isinstance(e.op, ast.And) else "ror"
            t = self.test(e.values[-1], env)
            for v in reversed(e.values[:-1]):
                t = "(%s %s %s)" % (op, self.test(v, env), t)
            return t
        raise TranslationError("unsupported test %s" % type(e).__name__)

    # ------------------------------------------------------------------ statements
    def block(self, stmts, env, kind):
        """kind: 'value' (returns res num), 'setter' (returns res state), 'getter' (returns res (num*state))"""
        if not stmts:
            if kind == "setter":
                return "(Ok st)"
            raise TranslationError("function may end without returning a value")
        s, rest = stmts[0], stmts[1:]
        if isinstance(s, ast.Expr) and isinstance(s.value, ast.Constant) and isinstance(s.value.value, str):
            return self.block(rest, env, kind)          # docstring
        if isinstance(s, ast.Return):
            if kind == "setter":
                if s.value is not None:
                    raise TranslationError("setter returns a value")
                return "(Ok st)"
            if s.value is None:
                raise TranslationError("bare return in a value function")
            if kind == "getter":
                v = self.fresh("r")
                return "(bind %s (fun %s => Ok (%s, st)))" % (self.expr(s.value, env), v, v)
            return self.expr(s.value, env)
        if isinstance(s, ast.If):
            return "(rif %s\n      %s\n      %s)" % (self.test(s.test, env), self.block(list(s.body) + rest, env, kind),
                                                       self.block(list(s.orelse) + rest, env, kind))
        if isinstance(s, ast.Assign):
            if len(s.targets) != 1:
                raise TranslationError("multiple assignment targets")
            t = s.targets[0]
            if isinstance(t, ast.Name):
                v = self.fresh("x_" + t.id + "_")
                env2 = dict(env)
                env2[t.id] = v
                return "(bind %s (fun %s =>\n    %s))" % (self.expr(s.value, env), v, self.block(rest, env2, kind))
            if isinstance(t, ast.Attribute):
                path = attr_path(t)
                if path not in self.writes:
                    raise TranslationError("unmapped attribute write %r" % path)
                v = self.fresh("w")
                return "(bind %s (fun %s => let st := %s st %s in\n    %s))" % (
                    self.expr(s.value, env), v, self.writes[path], v, self.block(rest, env, kind))
            raise TranslationError("unsupported assignment target")
        if isinstance(s, ast.AugAssign):
            if not isinstance(s.target, ast.Attribute) or type(s.op) not in BINOPS:
                raise TranslationError("unsupported augmented assignment")
            path = attr_path(s.target)
            if path not in self.writes or path not in self.reads:
                raise TranslationError("unmapped attribute %r" % path)
            v = self.fresh("w")
            val = "(rbin %s (Ok %s) %s)" % (BINOPS[type(s.op)], self.reads[path], self.expr(s.value, env))
            return "(bind %s (fun %s => let st := %s st %s in\n    %s))" % (val, v, self.writes[path], v, self.block(rest, env, kind))
        if isinstance(s, ast.Pass):
            return self.block(rest, env, kind)
        raise TranslationError("unsupported statement %s" % type(s).__name__)

    def function(self, fn, coq_name, kind, uses_state):
        args = [a.arg for a in fn.args.args]
        if fn.args.vararg or fn.args.kwarg or fn.args.kwonlyargs:
            raise TranslationError("%s: unsupported parameter kinds" % fn.name)
        if uses_state:
            if not args or args[0] != "self":
                raise TranslationError("%s: expected a method" % fn.name)
            args = args[1:]
        env = {a: a for a in args}
        params = ("(st : %s) " % self.state_type if uses_state else "") + " ".join("(%s : num)" % a for a in args)
        rtype = {"value": "res num", "setter": "res %s" % self.state_type, "getter": "res (num * %s)" % self.state_type}[kind]
        body = self.block(list(fn.body), env, kind)
        return "Definition %s %s : %s :=\n  %s.\n" % (coq_name, params, rtype, body)


def find_function(tree, name, cls=None, decorator=None):
    """module-level function `name`, or method `name` of class `cls` (with `decorator` in its
    decorator list if given, e.g. 'demand.setter' / 'property')"""
    body = tree.body
    if cls is not None:
        for n in tree.body:
            if isinstance(n, ast.ClassDef) and n.name == cls:
                body = n.body
                break
        else:
            raise TranslationError("class %s not found" % cls)
    for n in body:
        if isinstance(n, (ast.FunctionDef, ast.AsyncFunctionDef)) and n.name == name:
            decos = [attr_path(d) if isinstance(d, ast.Attribute) else getattr(d, "id", None) for d in n.decorator_list]
            if decorator is None and not decos:
                return n
            if decorator is not None and decorator in decos:
                return n
    raise TranslationError("function %s%s not found" % (name, " (@%s)" % decorator if decorator else ""))


class QUnit(Unit):
    """Dialect for kernels whose numbers are modelled as exact rationals Q (no int/float typing, no
    partial operation): expressions are plain Q terms, tests are bool terms, statements thread the state
    `st` through `let`.  Supported: + - * and unary -, the six comparisons, attribute reads/writes through
    the class's maps, if/elif/else, return, local assignment, augmented assignment."""
    QBIN = {ast.Add: "Qplus", ast.Sub: "Qminus", ast.Mult: "Qmult"}

    def expr(self, e, env):
        if isinstance(e, ast.Name):
            if e.id in env:
                return env[e.id]
            raise TranslationError("unknown name %r" % e.id)
        if isinstance(e, ast.Constant):
            if isinstance(e.value, bool) or not isinstance(e.value, int):
                raise TranslationError("unsupported literal %r" % (e.value,))
            return "(inject_Z (%d)%%Z)" % e.value
        if isinstance(e, ast.Attribute):
            path = attr_path(e)
            if path in self.reads:
                return self.reads[path]
            raise TranslationError("unmapped attribute read %r" % path)
        if isinstance(e, ast.BinOp):
            if type(e.op) not in self.QBIN:
                raise TranslationError("unsupported operator %s" % type(e.op).__name__)
            return "(%s %s %s)" % (self.QBIN[type(e.op)], self.expr(e.left, env), self.expr(e.right, env))
        if isinstance(e, ast.UnaryOp) and isinstance(e.op, ast.USub):
            return "(Qopp %s)" % self.expr(e.operand, env)
        raise TranslationError("unsupported expression %s" % type(e).__name__)

    def test(self, e, env):
        if isinstance(e, ast.Compare):
            if len(e.ops) != 1:
                raise TranslationError("chained comparison")
            a, b = self.expr(e.left, env), self.expr(e.comparators[0], env)
            op = type(e.ops[0])
            if op is ast.Lt:
                return "(Qltb %s %s)" % (a, b)
            if op is ast.Gt:
                return "(Qltb %s %s)" % (b, a)
            if op is ast.LtE:
                return "(Qle_bool %s %s)" % (a, b)
            if op is ast.GtE:
                return "(Qle_bool %s %s)" % (b, a)
            if op is ast.Eq:
                return "(Qeqb %s %s)" % (a, b)
            if op is ast.NotEq:
                return "(negb (Qeqb %s %s))" % (a, b)
            raise TranslationError("unsupported comparison")
        if isinstance(e, ast.UnaryOp) and isinstance(e.op, ast.Not):
            return "(negb %s)" % self.test(e.operand, env)
        if isinstance(e, ast.BoolOp):
            op = "andb" if isinstance(e.op, ast.And) else "orb"
            t = self.test(e.values[-1], env)
            for v in reversed(e.values[:-1]):
                t = "(%s %s %s)" % (op, self.test(v, env), t)
            return t
        raise TranslationError("unsupported test %s" % type(e).__name__)

    def block(self, stmts, env, kind):
        if not stmts:
            if kind == "setter":
                return "st"
            raise TranslationError("function may end without returning a value")
        s, rest = stmts[0], stmts[1:]
        if isinstance(s, ast.Expr) and isinstance(s.value, ast.Constant) and isinstance(s.value.value, str):
            return self.block(rest, env, kind)
        if isinstance(s, ast.Return):
            if kind == "setter":
                if s.value is not None:
                    raise TranslationError("procedure returns a value")
                return "st"
            if s.value is None:
                raise TranslationError("bare return in a value function")
            return self.expr(s.value, env)
        if isinstance(s, ast.If):
            return "(if %s\n   then %s\n   else %s)" % (self.test(s.test, env), self.block(list(s.body) + rest, env, kind),
                                                        self.block(list(s.orelse) + rest, env, kind))
        if isinstance(s, ast.Assign):
            if len(s.targets) != 1:
                raise TranslationError("multiple assignment targets")
            t = s.targets[0]
            if isinstance(t, ast.Name):
                v = self.fresh("x_" + t.id + "_")
                env2 = dict(env)
                env2[t.id] = v
                return "(let %s := %s in\n   %s)" % (v, self.expr(s.value, env), self.block(rest, env2, kind))
            if isinstance(t, ast.Attribute):
                path = attr_path(t)
                if path not in self.writes:
                    raise TranslationError("unmapped attribute write %r" % path)
                return "(let st := %s st %s in\n   %s)" % (self.writes[path], self.expr(s.value, env), self.block(rest, env, kind))
            raise TranslationError("unsupported assignment target")
        if isinstance(s, ast.AugAssign):
            if not isinstance(s.target, ast.Attribute) or type(s.op) not in self.QBIN:
                raise TranslationError("unsupported augmented assignment")
            path = attr_path(s.target)
            if path not in self.writes or path not in self.reads:
                raise TranslationError("unmapped attribute %r" % path)
            val = "(%s %s %s)" % (self.QBIN[type(s.op)], self.reads[path], self.expr(s.value, env))
            return "(let st := %s st %s in\n   %s)" % (self.writes[path], val, self.block(rest, env, kind))
        if isinstance(s, ast.Pass):
            return self.block(rest, env, kind)
        raise TranslationError("unsupported statement %s" % type(s).__name__)

    def function(self, fn, coq_name, kind, uses_state, extra_params=""):
        args = [a.arg for a in fn.args.args]
        if fn.args.vararg or fn.args.kwarg or fn.args.kwonlyargs:
            raise TranslationError("%s: unsupported parameter kinds" % fn.name)
        if uses_state:
            if not args or args[0] != "self":
                raise TranslationError("%s: expected a method" % fn.name)
            args = args[1:]
        env = {a: a for a in args}
        params = extra_params + (" (st : %s) " % self.state_type if uses_state else "") + " ".join("(%s : Q)" % a for a in args)
        rtype = {"value": "Q", "setter": self.state_type}[kind]
        return "Definition %s %s : %s :=\n  %s.\n" % (coq_name, params, rtype, self.block(list(fn.body), env, kind))


class QListUnit(QUnit):
    """Q dialect extended with the list idioms of the composite pools:
         sum(E for x in self.children)        qsum (map (fun x => [E]) CHILDREN)
         len(self.children)                   qlen CHILDREN
         getattr(x, self._weight)             weight w x                 (x an iteration variable)
         x.supply / x.utilisation / ...       record projections of the iteration variable
         a / b                                only under `try: ... except ZeroDivisionError: ...`:
                                              if Qeqb [b] 0 then [handler] else [a] / [b]
         A if T else B, float literals 0.0 / 1.0
         for x in self.children: <x.demand = V  |  try: x.demand = V1 except ZeroDivisionError: x.demand = V2>
                                              the new children list  map (fun x => set_cdemand x V) CHILDREN
       CHILDREN is the Gallina expression for self.children given by the unit."""

    def __init__(self, children, child_fields, weight_attr, **kw):
        super().__init__(**kw)
        self.children = children            # e.g. "cs"
        self.child_fields = child_fields    # python attribute -> projection name
        self.weight_attr = weight_attr      # python attribute holding the weight selector, e.g. "self._weight"
        self.itervars = set()

    def is_children(self, e):
        return isinstance(e, ast.Attribute) and attr_path(e) == "self.children"

    def expr(self, e, env):
        if isinstance(e, ast.Constant) and isinstance(e.value, float) and e.value in (0.0, 1.0):
            return "(inject_Z (%d)%%Z)" % int(e.value)
        if isinstance(e, ast.IfExp):
            return "(if %s then %s else %s)" % (self.test(e.test, env), self.expr(e.body, env), self.expr(e.orelse, env))
        if isinstance(e, ast.Attribute) and isinstance(e.value, ast.Name) and e.value.id in self.itervars:
            if e.attr in self.child_fields:
                return "(%s %s)" % (self.child_fields[e.attr], env[e.value.id])
            raise TranslationError("unmapped child attribute %r" % e.attr)
        if isinstance(e, ast.Call) and isinstance(e.func, ast.Name):
            if e.func.id == "len" and len(e.args) == 1 and self.is_children(e.args[0]):
                return "(qlen %s)" % self.children
            if e.func.id == "getattr" and len(e.args) == 2 and isinstance(e.args[0], ast.Name) \
                    and e.args[0].id in self.itervars and isinstance(e.args[1], ast.Attribute) \
                    and attr_path(e.args[1]) == self.weight_attr:
                return "(weight w %s)" % env[e.args[0].id]
            if e.func.id == "sum" and len(e.args) == 1 and isinstance(e.args[0], ast.GeneratorExp):
                g = e.args[0]
                if len(g.generators) != 1 or g.generators[0].ifs or not isinstance(g.generators[0].target, ast.Name) \
                        or not self.is_children(g.generators[0].iter):
                    raise TranslationError("unsupported generator expression")
                x = g.generators[0].target.id
                v = self.fresh("it_" + x + "_")
                env2 = dict(env)
                env2[x] = v
                self.itervars.add(x)
                body = self.expr(g.elt, env2)
                return "(qsum (map (fun %s => %s) %s))" % (v, body, self.children)
        if isinstance(e, ast.Call) and isinstance(e.func, ast.Attribute) and not e.args and not e.keywords:
            name = attr_path(e.func)
            if name in self.funcs:
                return self.funcs[name][0]
        if isinstance(e, ast.BinOp) and isinstance(e.op, ast.Div):
            raise TranslationError("division outside try/except ZeroDivisionError")
        return super().expr(e, env)

    def guarded_div(self, e, handler_term, env):
        """[e] where e = A / B, under an except ZeroDivisionError whose value is handler_term"""
        if not (isinstance(e, ast.BinOp) and isinstance(e.op, ast.Div)):
            raise TranslationError("try/except ZeroDivisionError around something that is not a division")
        a, b = self.expr_div_free(e.left, env), self.expr_div_free(e.right, env)
        return "(if Qeqb %s (inject_Z 0) then %s else Qdiv %s %s)" % (b, handler_term, a, b)

    def expr_div_free(self, e, env):
        return self.expr(e, env)

    def unguarded_div(self, e, env):
        """A / B where B is known to be non-zero at this point (inside the loop over a non-empty list)"""
        if isinstance(e, ast.BinOp) and isinstance(e.op, ast.Div):
            return "(Qdiv %s %s)" % (self.expr(e.left, env), self.expr(e.right, env))
        return self.expr(e, env)

    @staticmethod
    def zero_div_handler(t):
        return (isinstance(t, ast.Try) and len(t.handlers) == 1 and not t.orelse and not t.finalbody
                and isinstance(t.handlers[0].type, ast.Name) and t.handlers[0].type.id == "ZeroDivisionError"
                and t.handlers[0].name is None and len(t.body) == 1 and len(t.handlers[0].body) == 1)

    def block(self, stmts, env, kind):
        if stmts:
            s, rest = stmts[0], stmts[1:]
            if self.zero_div_handler(s) and isinstance(s.body[0], ast.Return) and isinstance(s.handlers[0].body[0], ast.Return):
                if kind != "value" or rest:
                    raise TranslationError("unsupported try/except position")
                return self.guarded_div(s.body[0].value, self.expr(s.handlers[0].body[0].value, env), env)
            if isinstance(s, ast.For):
                if s.orelse or not isinstance(s.target, ast.Name) or not self.is_children(s.iter) or len(s.body) != 1:
                    raise TranslationError("unsupported for loop")
                x = s.target.id
                v = self.fresh("it_" + x + "_")
                env2 = dict(env)
                env2[x] = v
                self.itervars.add(x)

                def child_write(a):
                    return (isinstance(a, ast.Assign) and len(a.targets) == 1 and isinstance(a.targets[0], ast.Attribute)
                            and isinstance(a.targets[0].value, ast.Name) and a.targets[0].value.id == x
                            and a.targets[0].attr == "demand")
                b = s.body[0]
                if child_write(b):
                    val = self.unguarded_div(b.value, env2)
                elif self.zero_div_handler(b) and child_write(b.body[0]) and child_write(b.handlers[0].body[0]):
                    val = self.guarded_div(b.body[0].value, self.unguarded_div(b.handlers[0].body[0].value, env2), env2)
                else:
                    raise TranslationError("unsupported loop body")
                return "(let st := W_children st (map (fun %s => set_cdemand %s %s) %s) in\n   %s)" % (
                    v, v, val, self.children, self.block(rest, env, kind))
        return super().block(stmts, env, kind)
