"""Translation units: which python functions are translated, and how attribute paths of `self` map to
the records of the hand models (the only hand-written part of the translator tie)."""
import ast
import os

from .translate import Unit, QUnit, QListUnit, find_function, TranslationError


def gen_standardiser(repo):
    path = os.path.join(repo, "src", "cobald", "decorator", "standardiser.py")
    with open(path) as fh:
        src = fh.read()
    tree = ast.parse(src)
    u = Unit(
        reads={
            "self._demand": "(s_demand st)",
            "self.target.demand": "(p_demand (s_tgt st))",
            "self.target.supply": "(p_supply (s_tgt st))",
            "self.minimum": "(minimum (s_par st))",
            "self.maximum": "(maximum (s_par st))",
            "self.granularity": "(granularity (s_par st))",
            "self.backlog": "(backlog (s_par st))",
            "self.surplus": "(surplus (s_par st))",
        },
        writes={"self._demand": "W_demand", "self.target.demand": "W_tdemand"},
        funcs={"_clamp": ("gen__clamp", False), "_floor": ("gen__floor", False),
               "self._clamp_demand": ("gen_clamp_demand", True)},
    )
    out = ["(* GENERATED on every run by py2coq from src/cobald/decorator/standardiser.py -- do not edit *)",
           "From Coq Require Import ZArith QArith Bool.",
           "From Cobald Require Import kit.QKit kit.PyNum kit.PyShallow model.Standardiser.",
           "",
           "Definition W_demand (st : std) (v : num) : std := mkStd (s_par st) v (s_tgt st).",
           "Definition W_tdemand (st : std) (v : num) : std := mkStd (s_par st) (s_demand st) (set_tdemand (s_tgt st) v).",
           ""]
    out.append(u.function(find_function(tree, "_clamp"), "gen__clamp", "value", False))
    out.append(u.function(find_function(tree, "_floor"), "gen__floor", "value", False))
    out.append(u.function(find_function(tree, "_clamp_demand", cls="Standardiser"), "gen_clamp_demand", "value", True))
    out.append(u.function(find_function(tree, "demand", cls="Standardiser", decorator="demand.setter"), "gen_demand_set", "setter", True))
    out.append(u.function(find_function(tree, "demand", cls="Standardiser", decorator="property"), "gen_demand_get", "getter", True))
    return "\n".join(out)


def gen_controllers(repo):
    """LinearController.regulate and RelativeSupplyController.regulate (state = the target pool)"""
    out = ["(* GENERATED on every run by py2coq from src/cobald/controller/{linear,relative_supply}.py -- do not edit *)",
           "From Coq Require Import ZArith QArith Bool.",
           "From Cobald Require Import kit.QKit model.Controllers.",
           "Open Scope Q_scope.", ""]
    for fname, cls, rec, coq, fields in (
            ("linear.py", "LinearController", "linear", "gen_linear_regulate",
             {"self.low_utilisation": "(l_low c)", "self.high_allocation": "(l_high c)", "self.rate": "(l_rate c)",
              "self.interval": "(l_interval c)"}),
            ("relative_supply.py", "RelativeSupplyController", "relative", "gen_relative_regulate",
             {"self.low_utilisation": "(r_low c)", "self.high_allocation": "(r_high c)", "self.low_scale": "(r_low_scale c)",
              "self.high_scale": "(r_high_scale c)", "self.interval": "(r_interval c)"})):
        with open(os.path.join(repo, "src", "cobald", "controller", fname)) as fh:
            tree = ast.parse(fh.read())
        reads = {"self.target.supply": "(p_supply st)", "self.target.demand": "(p_demand st)",
                 "self.target.utilisation": "(p_util st)", "self.target.allocation": "(p_alloc st)"}
        reads.update(fields)
        u = QUnit(reads=reads, writes={"self.target.demand": "set_demand"}, funcs={}, state_type="pool")
        out.append(u.function(find_function(tree, "regulate", cls=cls), coq, "setter", True, extra_params="(c : %s)" % rec))
    return "\n".join(out)


def gen_guard(repo):
    """the body of guard.exclusive.<locals>.make_exclusive.<locals>.exclusive_call as a `list gstmt`"""
    with open(os.path.join(repo, "src", "cobald", "daemon", "runners", "guard.py")) as fh:
        tree = ast.parse(fh.read())
    target = None
    for n in ast.walk(tree):
        if isinstance(n, ast.FunctionDef) and n.name == "exclusive_call":
            target = n
    if target is None:
        raise TranslationError("exclusive_call not found")

    def is_call_on(e, obj, meth):
        return (isinstance(e, ast.Call) and isinstance(e.func, ast.Attribute) and e.func.attr == meth
                and isinstance(e.func.value, ast.Name) and e.func.value.id == obj)

    def is_body_call(e):
        return isinstance(e, ast.Call) and isinstance(e.func, ast.Name) and e.func.id == "fnc"

    def block(stmts):
        return "[" + "; ".join(stmt(x) for x in stmts) + "]"

    def stmt(x):
        if isinstance(x, ast.If) and isinstance(x.test, ast.UnaryOp) and isinstance(x.test.op, ast.Not):
            inner = ast.If(test=x.test.operand, body=x.orelse, orelse=x.body)
            return stmt(inner)
        if isinstance(x, ast.If):
            if is_call_on(x.test, "fnc_guard", "acquire"):
                kw = {k.arg: getattr(k.value, "value", None) for k in x.test.keywords}
                if x.test.args or kw != {"blocking": False}:
                    raise TranslationError("acquire must be non-blocking")
                return "GIfAcquire %s %s" % (block(x.body), block(x.orelse))
            if is_call_on(x.test, "fnc_guard", "locked"):
                return "GIfLocked %s %s" % (block(x.body), block(x.orelse))
            raise TranslationError("unsupported test in exclusive_call")
        if isinstance(x, ast.Try):
            if x.handlers or x.orelse:
                raise TranslationError("except/else clauses are not supported")
            return "GTryFinally %s %s" % (block(x.body), block(x.finalbody))
        if isinstance(x, ast.Return):
            if x.value is None:
                return "GReturnNone"
            if is_body_call(x.value):
                return "GReturnCall"
            raise TranslationError("unsupported return value")
        if isinstance(x, ast.Expr):
            if is_call_on(x.value, "fnc_guard", "release"):
                return "GRelease"
            if is_body_call(x.value):
                return "GCall"
            if isinstance(x.value, ast.Constant) and isinstance(x.value.value, str):
                return None
            raise TranslationError("unsupported expression statement")
        if isinstance(x, ast.Raise):
            if isinstance(x.exc, ast.Call) and getattr(x.exc.func, "id", None) == "RuntimeError":
                return "GRaiseRuntime"
            raise TranslationError("unsupported raise")
        raise TranslationError("unsupported statement %s in exclusive_call" % type(x).__name__)

    body = [s_ for s_ in target.body if not (isinstance(s_, ast.Expr) and isinstance(s_.value, ast.Constant))]
    return ("(* GENERATED on every run by py2coq from src/cobald/daemon/runners/guard.py -- do not edit *)\n"
            "From Coq Require Import List.\nImport ListNotations.\nFrom Cobald Require Import kit.GuardIR.\n\n"
            "Definition exclusive_call_ir : list gstmt :=\n  %s.\n" % block(body))


def gen_composite(repo):
    """WeightedComposite and UniformComposite: demand getter/setter, supply, utilisation, allocation,
    _total_weight, _undefined_fitness"""
    out = ["(* GENERATED on every run by py2coq from src/cobald/composite/{weighted,uniform}.py -- do not edit *)",
           "From Coq Require Import ZArith QArith List Bool.",
           "From Cobald Require Import kit.QKit model.Composite.",
           "Open Scope Q_scope.", "",
           "Definition W_demand (st : comp) (v : Q) : comp := mkComp (ckind st) v (cchildren st).",
           "Definition W_children (st : comp) (cs : list child) : comp := mkComp (ckind st) (cdemand st) cs.", ""]
    fields = {"supply": "c_supply", "utilisation": "c_util", "allocation": "c_alloc", "demand": "c_demand"}
    for fname, cls, pre, extra in (("weighted.py", "WeightedComposite", "gen_w_", "(w : wattr)"),
                                   ("uniform.py", "UniformComposite", "gen_u_", "")):
        with open(os.path.join(repo, "src", "cobald", "composite", fname)) as fh:
            tree = ast.parse(fh.read())
        wa = " w" if extra else ""
        u = QListUnit(children="(cchildren st)", child_fields=fields, weight_attr="self._weight",
                      reads={"self._demand": "(cdemand st)", "self.supply": "(%ssupply%s st)" % (pre, wa),
                             "self._total_weight": "(%stotal_weight%s st)" % (pre, wa)},
                      writes={"self._demand": "W_demand"},
                      funcs={"self._undefined_fitness": ("(%sundefined_fitness%s st)" % (pre, wa), True)},
                      state_type="comp")
        order = [("supply", "property", "value")]
        if extra:
            order += [("_total_weight", "property", "value"), ("_undefined_fitness", None, "value")]
        order += [("utilisation", "property", "value"), ("allocation", "property", "value"),
                  ("demand", "property", "value"), ("demand", "demand.setter", "setter")]
        for name, deco, kind in order:
            fn = find_function(tree, name, cls=cls, decorator=deco)
            coq = pre + name.lstrip("_") + ("_set" if kind == "setter" else "_get" if name == "demand" else "")
            out.append(u.function(fn, coq, kind, True, extra_params=extra))
    return "\n".join(out)


def gen_registry(repo):
    """MetaRunner.register_payload / _manage_runners / _launch_runners / _unqueue_payloads / _aclose_runners as
    `list rstmt` (kit/RegistryIR.v).  Pure transcription of syntax; every statement that is not one of the
    recognised forms raises TranslationError (logging calls and docstrings are dropped)."""
    with open(os.path.join(repo, "src", "cobald", "daemon", "runners", "meta_runner.py")) as fh:
        tree = ast.parse(fh.read())

    def src(e):
        return ast.unparse(e).replace(" ", "")

    def is_log(x):
        return (isinstance(x, ast.Expr) and isinstance(x.value, ast.Call)
                and src(x.value.func).startswith("self._logger."))

    def is_doc(x):
        return isinstance(x, ast.Expr) and isinstance(x.value, ast.Constant) and isinstance(x.value.value, str)

    def block(stmts, ctx):
        items = [stmt(x, ctx) for x in stmts if not is_log(x) and not is_doc(x)]
        return "[" + "; ".join(i for i in items if i) + "]"

    def stmt(x, ctx):
        t = src(x)
        if isinstance(x, ast.With):
            if len(x.items) != 1 or src(x.items[0].context_expr) != "self._register_lock" or x.items[0].optional_vars:
                raise TranslationError("unsupported with: %s" % t[:60])
            return "SWithLock %s" % block(x.body, ctx)
        if isinstance(x, ast.Try) and ctx == "register":
            if (len(x.body) != 1 or src(x.body[0]) != "runner=self._runners[flavour]" or len(x.handlers) != 1
                    or x.finalbody or src(x.handlers[0].type) != "KeyError" or x.handlers[0].name):
                raise TranslationError("unsupported try in register_payload")
            return "STryLookup %s %s" % (block(x.orelse, ctx), block(x.handlers[0].body, ctx))
        if isinstance(x, ast.If) and src(x.test) == "self.running.is_set()":
            return "SIfRunning %s %s" % (block(x.body, ctx), block(x.orelse, ctx))
        if isinstance(x, ast.If) and src(x.test) == "notself.running.is_set()":
            return "SIfRunning %s %s" % (block(x.orelse, ctx), block(x.body, ctx))
        if isinstance(x, ast.Raise):
            if x.exc is None:
                return "SReraise"
            if isinstance(x.exc, ast.Call) and src(x.exc.func) == "RuntimeError" and ctx == "register":
                return "SRaiseUnknown"
            raise TranslationError("unsupported raise: %s" % t[:60])
        if isinstance(x, ast.Return):
            if x.value is None:
                return "SReturn"
            if src(x.value) == "runner_tasks" and ctx == "launch":
                return "SReturnTasks"
            raise TranslationError("unsupported return: %s" % t[:60])
        if t == "self._runner_queues.setdefault(flavour,[]).extend(payloads)":
            return "SQueueExtend"
        if isinstance(x, ast.For) and ctx == "register":
            body = [b for b in x.body if not is_log(b)]
            if (src(x.target) == "payload" and src(x.iter) == "payloads" and not x.orelse and len(body) == 1
                    and src(body[0]) == "runner.register_payload(payload)"):
                return "SForPayloadsHand"
            raise TranslationError("unsupported loop in register_payload")
        if t == "runner_tasks=awaitself._launch_runners()":
            return "SAwaitLaunch"
        if t == "self.running.set()":
            return "SSetRunning"
        if t == "self.running.clear()":
            return "SClearRunning"
        if t in ("self._runners.clear()", "self._runners={}", "self._runners=dict()"):
            return "SClearTable"
        if t == "awaitasyncio.gather(*runner_tasks,self._unqueue_payloads())":
            return "SGatherFlush"
        if t == "awaitasyncio.shield(self._aclose_runners(runner_tasks))":
            return "SShieldAclose"
        if t == "awaitself._close_runners(runner_tasks)":
            # the shielded close, repeated until it is through (a further cancellation of the caller does not abort it)
            helper = find_function(tree, "_close_runners", cls="MetaRunner")
            body = [b for b in helper.body if not is_doc(b)]
            ok = (len(body) == 2 and src(body[0]) == "closing=asyncio.ensure_future(self._aclose_runners(runner_tasks))"
                  and isinstance(body[1], ast.While) and src(body[1].test) == "notclosing.done()" and not body[1].orelse
                  and len(body[1].body) == 1 and isinstance(body[1].body[0], ast.Try))
            if ok:
                tr = body[1].body[0]
                ok = (len(tr.body) == 1 and src(tr.body[0]) == "awaitasyncio.shield(closing)" and len(tr.handlers) == 1
                      and src(tr.handlers[0].type) == "asyncio.CancelledError" and not tr.handlers[0].name
                      and [src(b) for b in tr.handlers[0].body] == ["continue"] and not tr.orelse and not tr.finalbody)
            if not ok:
                raise TranslationError("unsupported body of _close_runners")
            return "SShieldAclose"
        if t == "awaitasyncio.gather(*runner_tasks,return_exceptions=True)":
            return "SAwaitTasks"
        if isinstance(x, ast.Try) and ctx == "manage":
            hs = {src(h.type): h for h in x.handlers if h.type is not None and not h.name}
            if len(hs) != len(x.handlers) or set(hs) != {"KeyboardInterrupt", "BaseException"} or x.orelse:
                raise TranslationError("unsupported handlers in _manage_runners")
            if [src(h.type) for h in x.handlers] != ["KeyboardInterrupt", "BaseException"]:
                raise TranslationError("handler order in _manage_runners")
            return "STryRun %s %s %s %s" % (block(x.body, ctx), block(hs["KeyboardInterrupt"].body, ctx),
                                            block(hs["BaseException"].body, ctx), block(x.finalbody, ctx))
        if isinstance(x, ast.Assert) and src(x.test) == "self.running.is_set()":
            return "SAssertRunning"
        if t == "runner_queues,self._runner_queues=(self._runner_queues,{})":
            return "SSwapQueues"
        if isinstance(x, ast.For) and ctx == "unqueue":
            if (src(x.target) == "(flavour,queue)" and src(x.iter) == "runner_queues.items()" and len(x.body) == 1
                    and src(x.body[0]) == "self.register_payload(*queue,flavour=flavour)"):
                return "SReregisterAll"
            raise TranslationError("unsupported loop in _unqueue_payloads")
        if isinstance(x, ast.For) and ctx == "aclose":
            if (src(x.target) == "runner" and src(x.iter) == "self._runners.values()" and len(x.body) == 1
                    and src(x.body[0]) == "awaitrunner.aclose()"):
                return "SAcloseAll"
            raise TranslationError("unsupported loop in _aclose_runners")
        if ctx == "launch":
            # the creation loop: runners (or self._runners) filled while the tasks are created
            if t in ("asyncio_loop=asyncio.get_event_loop()", "runner_tasks=[]"):
                return None
            if t == "runners={}":
                return None
            if isinstance(x, ast.For) and src(x.iter) == "self.runner_types":
                body = [src(b) for b in x.body]
                if body == ["runner=runners[runner_type.flavour]=runner_type(asyncio_loop)",
                            "runner_tasks.append(asyncio_loop.create_task(runner.run()))"]:
                    return "SLaunchLocal"
                if body == ["runner=self._runners[runner_type.flavour]=runner_type(asyncio_loop)",
                            "runner_tasks.append(asyncio_loop.create_task(runner.run()))"]:
                    return "SLaunchLocal; SPublishEach"
                raise TranslationError("unsupported creation loop in _launch_runners")
            if isinstance(x, ast.For) and src(x.iter) in ("runners.values()", "self._runners.values()"):
                if [src(b) for b in x.body] == ["awaitrunner.ready()"]:
                    return "SAwaitReady"
                raise TranslationError("unsupported loop in _launch_runners")
            if t == "self._runners=runners":
                return "SPublishLocal"
        raise TranslationError("unsupported statement in %s: %s" % (ctx, t[:80]))

    progs = []
    for name, ctx in (("register_payload", "register"), ("_manage_runners", "manage"), ("_launch_runners", "launch"),
                      ("_unqueue_payloads", "unqueue"), ("_aclose_runners", "aclose")):
        fn = find_function(tree, name, cls="MetaRunner")
        progs.append("Definition ir_%s : list rstmt :=\n  %s." % (ctx, block(fn.body, ctx)))
    # the registry must not be touched anywhere else in the class (stop() and run_payload only read it)
    allowed = {"register_payload", "_manage_runners", "_launch_runners", "_unqueue_payloads", "_aclose_runners", "_close_runners",
               "__init__"}
    for n in ast.walk(tree):
        if isinstance(n, (ast.FunctionDef, ast.AsyncFunctionDef)) and n.name not in allowed:
            for m in ast.walk(n):
                if isinstance(m, (ast.Assign, ast.AugAssign, ast.Delete)):
                    tgt = " ".join(src(t_) for t_ in (m.targets if hasattr(m, "targets") else [m.target]))
                    if "self._runners" in tgt or "self._runner_queues" in tgt:
                        raise TranslationError("%s writes the registry" % n.name)
                if isinstance(m, ast.Call) and src(m.func) in ("self._runners.clear", "self._runners.pop", "self._runners.update",
                                                               "self._runner_queues.clear", "self._runner_queues.pop"):
                    raise TranslationError("%s writes the registry" % n.name)
    return ("(* GENERATED on every run by py2coq from src/cobald/daemon/runners/meta_runner.py -- do not edit *)\n"
            "From Coq Require Import List.\nImport ListNotations.\nFrom Cobald Require Import kit.RegistryIR.\n\n"
            + "\n\n".join(progs)
            + "\n\nDefinition registry_irs : irs := mkIrs ir_register ir_manage ir_launch ir_unqueue ir_aclose.\n")


UNITS = {"Gen_registry.v": gen_registry, "Gen_standardiser.v": gen_standardiser, "Gen_controllers.v": gen_controllers, "Gen_guard.v": gen_guard,
         "Gen_composite.v": gen_composite}


def regen(repo, gendir, names=None):
    """write the generated files (only when their text changed); returns {file: 'ok' | 'error text'}"""
    res = {}
    os.makedirs(gendir, exist_ok=True)
    for fn, f in UNITS.items():
        if names and fn not in names:
            continue
        p = os.path.join(gendir, fn)
        try:
            text = f(repo)
            res[fn] = "ok"
        except (TranslationError, OSError, SyntaxError) as e:
            text = "(* translation failed: %s *)\nDefinition translation_failed : bool := true.\n" % str(e).replace("*)", "* )")
            res[fn] = "translation failed: %s" % e
        old = open(p).read() if os.path.exists(p) else None
        if old != text:
            with open(p, "w") as fh:
                fh.write(text)
    return res
