"""Translation units: which python functions are translated, and how attribute paths of `self` map to
the records of the hand models (the only hand-written part of the translator tie)."""
import ast
import os

from .translate import Unit, QUnit, QListUnit, find_function, TranslationError


def gen_standardiser(repo):
    path = os.path.join(repo, "src", "cobald", "decorator", "standardiser.py")
    with open(path) as fh:
        src = fh.read()
    tree = ast.parse(src)
    u = Unit(
        reads={
            "self._demand": "(s_demand st)",
            "self.target.demand": "(p_demand (s_tgt st))",
            "self.target.supply": "(p_supply (s_tgt st))",
            "self.minimum": "(minimum (s_par st))",
            "self.maximum": "(maximum (s_par st))",
            "self.granularity": "(granularity (s_par st))",
            "self.backlog": "(backlog (s_par st))",
            "self.surplus": "(surplus (s_par st))",
        },
        writes={"self._demand": "W_demand", "self.target.demand": "W_tdemand"},
        funcs={"_clamp": ("gen__clamp", False), "_floor": ("gen__floor", False),
               "self._clamp_demand": ("gen_clamp_demand", True)},
    )
    out = ["(* GENERATED on every run by py2coq from src/cobald/decorator/standardiser.py -- do not edit *)",
           "From Coq Require Import ZArith QArith Bool.",
           "From Cobald Require Import kit.QKit kit.PyNum kit.PyShallow model.Standardiser.",
           "",
           "Definition W_demand (st : std) (v : num) : std := mkStd (s_par st) v (s_tgt st).",
           "Definition W_tdemand (st : std) (v : num) : std := mkStd (s_par st) (s_demand st) (set_tdemand (s_tgt st) v).",
           ""]
    out.append(u.function(find_function(tree, "_clamp"), "gen__clamp", "value", False))
    out.append(u.function(find_function(tree, "_floor"), "gen__floor", "value", False))
    out.append(u.function(find_function(tree, "_clamp_demand", cls="Standardiser"), "gen_clamp_demand", "value", True))
    out.append(u.function(find_function(tree, "demand", cls="Standardiser", decorator="demand.setter"), "gen_demand_set", "setter", True))
    out.append(u.function(find_function(tree, "demand", cls="Standardiser", decorator="property"), "gen_demand_get", "getter", True))
    return "\n".join(out)


def gen_controllers(repo):
    """LinearController.regulate and RelativeSupplyController.regulate (state = the target pool)"""
    out = ["(* GENERATED on every run by py2coq from src/cobald/controller/{linear,relative_supply}.py -- do not edit *)",
           "From Coq Require Import ZArith QArith Bool List.",
           "From Cobald Require Import kit.QKit model.Controllers kit.SelectIR.",
           "Import ListNotations.",
           "Open Scope Q_scope.", ""]
    for fname, cls, rec, coq, fields in (
            ("linear.py", "LinearController", "linear", "gen_linear_regulate",
             {"self.low_utilisation": "(l_low c)", "self.high_allocation": "(l_high c)", "self.rate": "(l_rate c)",
              "self.interval": "(l_interval c)"}),
            ("relative_supply.py", "RelativeSupplyController", "relative", "gen_relative_regulate",
             {"self.low_utilisation": "(r_low c)", "self.high_allocation": "(r_high c)", "self.low_scale": "(r_low_scale c)",
              "self.high_scale": "(r_high_scale c)", "self.interval": "(r_interval c)"})):
        with open(os.path.join(repo, "src", "cobald", "controller", fname)) as fh:
            tree = ast.parse(fh.read())
        reads = {"self.target.supply": "(p_supply st)", "self.target.demand": "(p_demand st)",
                 "self.target.utilisation": "(p_util st)", "self.target.allocation": "(p_alloc st)"}
        reads.update(fields)
        u = QUnit(reads=reads, writes={"self.target.demand": "set_demand"}, funcs={}, state_type="pool")
        out.append(u.function(find_function(tree, "regulate", cls=cls), coq, "setter", True, extra_params="(c : %s)" % rec))
    out.append(gen_selectors(repo))
    return "\n".join(out)


def gen_selectors(repo):
    """the selection conditions of RangeSelector.get_rule and DemandSwitch.regulate as `schain` (kit/SelectIR.v); the loops
    around them are matched exactly"""
    REL = {ast.Lt: "RLt", ast.LtE: "RLe", ast.Gt: "RGt", ast.GtE: "RGe"}

    def src(e):
        return ast.unparse(e).replace(" ", "")

    def fail(what, node=None):
        raise TranslationError("selectors: %s%s" % (what, " (line %d)" % node.lineno if node is not None and hasattr(node, "lineno") else ""))

    def body_of(fn):
        b = list(fn.body)
        if b and isinstance(b[0], ast.Expr) and isinstance(b[0].value, ast.Constant) and isinstance(b[0].value.value, str):
            b = b[1:]
        return b

    def chain(e, names):
        if not isinstance(e, ast.Compare):
            fail("expected a comparison, got %s" % src(e), e)
        vals = []
        for x in [e.left] + list(e.comparators):
            t = src(x)
            if t not in names:
                fail("unsupported operand %s" % t, x)
            vals.append(names[t])
        rels = []
        for o in e.ops:
            if type(o) not in REL:
                fail("unsupported comparison operator", e)
            rels.append(REL[type(o)])
        return "(%s, [%s])" % (vals[0], "; ".join("(%s, %s)" % (r, v) for r, v in zip(rels, vals[1:])))

    out = []
    # ---- stepwise.py: RangeSelector.get_rule
    with open(os.path.join(repo, "src", "cobald", "controller", "stepwise.py")) as fh:
        tree = ast.parse(fh.read())
    fn = find_function(tree, "get_rule", cls="RangeSelector")
    if [a.arg for a in fn.args.args] != ["self", "supply"] or fn.args.vararg or fn.args.kwarg or fn.args.kwonlyargs or fn.args.defaults:
        fail("get_rule(self, supply)", fn)
    b = body_of(fn)
    ok = (len(b) == 1 and isinstance(b[0], ast.For) and not b[0].orelse and src(b[0].iter) == "self._lookup.items()"
          and isinstance(b[0].target, ast.Tuple) and len(b[0].target.elts) == 2 and isinstance(b[0].target.elts[0], ast.Tuple)
          and len(b[0].target.elts[0].elts) == 2 and all(isinstance(x, ast.Name) for x in b[0].target.elts[0].elts)
          and isinstance(b[0].target.elts[1], ast.Name) and len(b[0].body) == 1)
    if not ok:
        fail("get_rule: for (low, high), rule in self._lookup.items(): <one statement>", fn)
    lo, hi = (x.id for x in b[0].target.elts[0].elts)
    rule = b[0].target.elts[1].id
    i = b[0].body[0]
    if not (isinstance(i, ast.If) and not i.orelse and len(i.body) == 1 and isinstance(i.body[0], ast.Return) and src(i.body[0].value) == rule):
        fail("get_rule: if <chain>: return rule", i)
    out.append("Definition gen_get_rule_chain : schain := %s." % chain(i.test, {lo: "SBound1", hi: "SBound2", "supply": "SInput"}))
    # the lookup is a dict filled in ascending order of the thresholds: (low, high) -> rule
    fn = find_function(tree, "run", cls="Stepwise")
    b = body_of(fn)
    want = ["target,interval=(self.target,self.interval)", None]
    ok = (len(b) == 2 and src(b[0]) in ("target,interval=(self.target,self.interval)", "target,interval=self.target,self.interval")
          and isinstance(b[1], ast.While) and src(b[1].test) == "True" and not b[1].orelse and len(b[1].body) == 4)
    if not ok:
        fail("Stepwise.run: locals, then `while True:` with four statements", fn)
    w = b[1].body
    ok = (src(w[0]) == "current_rule=self._selector.get_rule(target.supply)" and src(w[1]) == "demand=current_rule(target,interval)"
          and isinstance(w[2], ast.If) and not w[2].orelse and src(w[2].test) == "demandisnotNone" and len(w[2].body) == 1
          and src(w[2].body[0]) == "self.target.demand=demand" and src(w[3]) == "awaittrio.sleep(interval)")
    if not ok:
        fail("Stepwise.run: select by target.supply, call the rule, write unless None, sleep", fn)
    # ---- switch.py: DemandSwitch.regulate
    with open(os.path.join(repo, "src", "cobald", "controller", "switch.py")) as fh:
        tree = ast.parse(fh.read())
    fn = find_function(tree, "regulate", cls="DemandSwitch")
    if [a.arg for a in fn.args.args] != ["self", "interval"] or fn.args.vararg or fn.args.kwarg or fn.args.kwonlyargs or fn.args.defaults:
        fail("regulate(self, interval)", fn)
    b = body_of(fn)
    ok = (len(b) == 3 and src(b[0]) == "chosen=self._default" and isinstance(b[1], ast.For) and not b[1].orelse
          and src(b[1].iter) == "self._slaves" and isinstance(b[1].target, ast.Tuple) and len(b[1].target.elts) == 2
          and all(isinstance(x, ast.Name) for x in b[1].target.elts) and len(b[1].body) == 1 and src(b[2]) == "chosen.regulate(interval)")
    if not ok:
        fail("regulate: chosen = self._default; for demand, slave in self._slaves: ...; chosen.regulate(interval)", fn)
    th, sl = (x.id for x in b[1].target.elts)
    i = b[1].body[0]
    if not (isinstance(i, ast.If) and not i.orelse and len(i.body) == 1 and src(i.body[0]) == "chosen=%s" % sl):
        fail("regulate: if <chain>: chosen = slave", i)
    out.append("Definition gen_choose_chain : schain := %s." % chain(i.test, {th: "SBound1", "self.target.demand": "SInput"}))
    fn = find_function(tree, "run", cls="DemandSwitch")
    b = body_of(fn)
    ok = (len(b) == 1 and isinstance(b[0], ast.While) and src(b[0].test) == "True" and not b[0].orelse
          and [src(x) for x in b[0].body] == ["self.regulate(self.interval)", "awaittrio.sleep(self.interval)"])
    if not ok:
        fail("DemandSwitch.run: while True: self.regulate(self.interval); await trio.sleep(self.interval)", fn)
    return "\n".join(out) + "\n"


def gen_guard(repo):
    """the body of guard.exclusive.<locals>.make_exclusive.<locals>.exclusive_call as a `list gstmt`"""
    with open(os.path.join(repo, "src", "cobald", "daemon", "runners", "guard.py")) as fh:
        tree = ast.parse(fh.read())
    target = None
    for n in ast.walk(tree):
        if isinstance(n, ast.FunctionDef) and n.name == "exclusive_call":
            target = n
    if target is None:
        raise TranslationError("exclusive_call not found")

    def is_call_on(e, obj, meth):
        return (isinstance(e, ast.Call) and isinstance(e.func, ast.Attribute) and e.func.attr == meth
                and isinstance(e.func.value, ast.Name) and e.func.value.id == obj)

    def is_body_call(e):
        return isinstance(e, ast.Call) and isinstance(e.func, ast.Name) and e.func.id == "fnc"

    def block(stmts):
        return "[" + "; ".join(stmt(x) for x in stmts) + "]"

    def stmt(x):
        if isinstance(x, ast.If) and isinstance(x.test, ast.UnaryOp) and isinstance(x.test.op, ast.Not):
            inner = ast.If(test=x.test.operand, body=x.orelse, orelse=x.body)
            return stmt(inner)
        if isinstance(x, ast.If):
            if is_call_on(x.test, "fnc_guard", "acquire"):
                kw = {k.arg: getattr(k.value, "value", None) for k in x.test.keywords}
                if x.test.args or kw != {"blocking": False}:
                    raise TranslationError("acquire must be non-blocking")
                return "GIfAcquire %s %s" % (block(x.body), block(x.orelse))
            if is_call_on(x.test, "fnc_guard", "locked"):
                return "GIfLocked %s %s" % (block(x.body), block(x.orelse))
            raise TranslationError("unsupported test in exclusive_call")
        if isinstance(x, ast.Try):
            if x.handlers or x.orelse:
                raise TranslationError("except/else clauses are not supported")
            return "GTryFinally %s %s" % (block(x.body), block(x.finalbody))
        if isinstance(x, ast.Return):
            if x.value is None:
                return "GReturnNone"
            if is_body_call(x.value):
                return "GReturnCall"
            raise TranslationError("unsupported return value")
        if isinstance(x, ast.Expr):
            if is_call_on(x.value, "fnc_guard", "release"):
                return "GRelease"
            if is_body_call(x.value):
                return "GCall"
            if isinstance(x.value, ast.Constant) and isinstance(x.value.value, str):
                return None
            raise TranslationError("unsupported expression statement")
        if isinstance(x, ast.Raise):
            if isinstance(x.exc, ast.Call) and getattr(x.exc.func, "id", None) == "RuntimeError":
                return "GRaiseRuntime"
            raise TranslationError("unsupported raise")
        raise TranslationError("unsupported statement %s in exclusive_call" % type(x).__name__)

    body = [s_ for s_ in target.body if not (isinstance(s_, ast.Expr) and isinstance(s_.value, ast.Constant))]
    return ("(* GENERATED on every run by py2coq from src/cobald/daemon/runners/guard.py -- do not edit *)\n"
            "From Coq Require Import List.\nImport ListNotations.\nFrom Cobald Require Import kit.GuardIR.\n\n"
            "Definition exclusive_call_ir : list gstmt :=\n  %s.\n" % block(body))


def gen_composite(repo):
    """WeightedComposite and UniformComposite: demand getter/setter, supply, utilisation, allocation,
    _total_weight, _undefined_fitness"""
    out = ["(* GENERATED on every run by py2coq from src/cobald/composite/{weighted,uniform}.py -- do not edit *)",
           "From Coq Require Import ZArith QArith List Bool.",
           "From Cobald Require Import kit.QKit model.Composite.",
           "Open Scope Q_scope.", "",
           "Definition W_demand (st : comp) (v : Q) : comp := mkComp (ckind st) v (cchildren st).",
           "Definition W_children (st : comp) (cs : list child) : comp := mkComp (ckind st) (cdemand st) cs.", ""]
    fields = {"supply": "c_supply", "utilisation": "c_util", "allocation": "c_alloc", "demand": "c_demand"}
    for fname, cls, pre, extra in (("weighted.py", "WeightedComposite", "gen_w_", "(w : wattr)"),
                                   ("uniform.py", "UniformComposite", "gen_u_", "")):
        with open(os.path.join(repo, "src", "cobald", "composite", fname)) as fh:
            tree = ast.parse(fh.read())
        wa = " w" if extra else ""
        u = QListUnit(children="(cchildren st)", child_fields=fields, weight_attr="self._weight",
                      reads={"self._demand": "(cdemand st)", "self.supply": "(%ssupply%s st)" % (pre, wa),
                             "self._total_weight": "(%stotal_weight%s st)" % (pre, wa)},
                      writes={"self._demand": "W_demand"},
                      funcs={"self._undefined_fitness": ("(%sundefined_fitness%s st)" % (pre, wa), True)},
                      state_type="comp")
        order = [("supply", "property", "value")]
        if extra:
            order += [("_total_weight", "property", "value"), ("_undefined_fitness", None, "value")]
        order += [("utilisation", "property", "value"), ("allocation", "property", "value"),
                  ("demand", "property", "value"), ("demand", "demand.setter", "setter")]
        for name, deco, kind in order:
            fn = find_function(tree, name, cls=cls, decorator=deco)
            coq = pre + name.lstrip("_") + ("_set" if kind == "setter" else "_get" if name == "demand" else "")
            out.append(u.function(fn, coq, kind, True, extra_params=extra))
    return "\n".join(out)


def gen_registry(repo):
    """MetaRunner.register_payload / _manage_runners / _launch_runners / _unqueue_payloads / _aclose_runners as
    `list rstmt` (kit/RegistryIR.v).  Pure transcription of syntax; every statement that is not one of the
    recognised forms raises TranslationError (logging calls and docstrings are dropped)."""
    with open(os.path.join(repo, "src", "cobald", "daemon", "runners", "meta_runner.py")) as fh:
        tree = ast.parse(fh.read())

    def src(e):
        return ast.unparse(e).replace(" ", "")

    def is_log(x):
        return (isinstance(x, ast.Expr) and isinstance(x.value, ast.Call)
                and src(x.value.func).startswith("self._logger."))

    def is_doc(x):
        return isinstance(x, ast.Expr) and isinstance(x.value, ast.Constant) and isinstance(x.value.value, str)

    def block(stmts, ctx):
        items = [stmt(x, ctx) for x in stmts if not is_log(x) and not is_doc(x)]
        return "[" + "; ".join(i for i in items if i) + "]"

    def stmt(x, ctx):
        t = src(x)
        if isinstance(x, ast.With):
            if len(x.items) != 1 or src(x.items[0].context_expr) != "self._register_lock" or x.items[0].optional_vars:
                raise TranslationError("unsupported with: %s" % t[:60])
            return "SWithLock %s" % block(x.body, ctx)
        if isinstance(x, ast.Try) and ctx == "register":
            if (len(x.body) != 1 or src(x.body[0]) != "runner=self._runners[flavour]" or len(x.handlers) != 1
                    or x.finalbody or src(x.handlers[0].type) != "KeyError" or x.handlers[0].name):
                raise TranslationError("unsupported try in register_payload")
            return "STryLookup %s %s" % (block(x.orelse, ctx), block(x.handlers[0].body, ctx))
        if isinstance(x, ast.If) and src(x.test) == "self.running.is_set()":
            return "SIfRunning %s %s" % (block(x.body, ctx), block(x.orelse, ctx))
        if isinstance(x, ast.If) and src(x.test) == "notself.running.is_set()":
            return "SIfRunning %s %s" % (block(x.orelse, ctx), block(x.body, ctx))
        if isinstance(x, ast.Raise):
            if x.exc is None:
                return "SReraise"
            if isinstance(x.exc, ast.Call) and src(x.exc.func) == "RuntimeError" and ctx == "register":
                return "SRaiseUnknown"
            raise TranslationError("unsupported raise: %s" % t[:60])
        if isinstance(x, ast.Return):
            if x.value is None:
                return "SReturn"
            if src(x.value) == "runner_tasks" and ctx == "launch":
                return "SReturnTasks"
            raise TranslationError("unsupported return: %s" % t[:60])
        if t == "self._runner_queues.setdefault(flavour,[]).extend(payloads)":
            return "SQueueExtend"
        if isinstance(x, ast.For) and ctx == "register":
            body = [b for b in x.body if not is_log(b)]
            if (src(x.target) == "payload" and src(x.iter) == "payloads" and not x.orelse and len(body) == 1
                    and src(body[0]) == "runner.register_payload(payload)"):
                return "SForPayloadsHand"
            raise TranslationError("unsupported loop in register_payload")
        if t == "runner_tasks=awaitself._launch_runners()":
            return "SAwaitLaunch"
        if t == "self.running.set()":
            return "SSetRunning"
        if t == "self.running.clear()":
            return "SClearRunning"
        if t in ("self._runners.clear()", "self._runners={}", "self._runners=dict()"):
            return "SClearTable"
        if t == "awaitasyncio.gather(*runner_tasks,self._unqueue_payloads())":
            return "SGatherFlush"
        if t == "awaitasyncio.shield(self._aclose_runners(runner_tasks))":
            return "SShieldAclose"
        if t == "awaitself._close_runners(runner_tasks)":
            # the shielded close, repeated until it is through (a further cancellation of the caller does not abort it)
            helper = find_function(tree, "_close_runners", cls="MetaRunner")
            body = [b for b in helper.body if not is_doc(b)]
            ok = (len(body) == 2 and src(body[0]) == "closing=asyncio.ensure_future(self._aclose_runners(runner_tasks))"
                  and isinstance(body[1], ast.While) and src(body[1].test) == "notclosing.done()" and not body[1].orelse
                  and len(body[1].body) == 1 and isinstance(body[1].body[0], ast.Try))
            if ok:
                tr = body[1].body[0]
                ok = (len(tr.body) == 1 and src(tr.body[0]) == "awaitasyncio.shield(closing)" and len(tr.handlers) == 1
                      and src(tr.handlers[0].type) == "asyncio.CancelledError" and not tr.handlers[0].name
                      and [src(b) for b in tr.handlers[0].body] == ["continue"] and not tr.orelse and not tr.finalbody)
            if not ok:
                raise TranslationError("unsupported body of _close_runners")
            return "SShieldAclose"
        if t == "awaitasyncio.gather(*runner_tasks,return_exceptions=True)":
            return "SAwaitTasks"
        if isinstance(x, ast.Try) and ctx == "manage":
            hs = {src(h.type): h for h in x.handlers if h.type is not None and not h.name}
            if len(hs) != len(x.handlers) or set(hs) != {"KeyboardInterrupt", "BaseException"} or x.orelse:
                raise TranslationError("unsupported handlers in _manage_runners")
            if [src(h.type) for h in x.handlers] != ["KeyboardInterrupt", "BaseException"]:
                raise TranslationError("handler order in _manage_runners")
            return "STryRun %s %s %s %s" % (block(x.body, ctx), block(hs["KeyboardInterrupt"].body, ctx),
                                            block(hs["BaseException"].body, ctx), block(x.finalbody, ctx))
        if isinstance(x, ast.Assert) and src(x.test) == "self.running.is_set()":
            return "SAssertRunning"
        if t == "runner_queues,self._runner_queues=(self._runner_queues,{})":
            return "SSwapQueues"
        if isinstance(x, ast.For) and ctx == "unqueue":
            if (src(x.target) == "(flavour,queue)" and src(x.iter) == "runner_queues.items()" and len(x.body) == 1
                    and src(x.body[0]) == "self.register_payload(*queue,flavour=flavour)"):
                return "SReregisterAll"
            raise TranslationError("unsupported loop in _unqueue_payloads")
        if isinstance(x, ast.For) and ctx == "aclose":
            if (src(x.target) == "runner" and src(x.iter) == "self._runners.values()" and len(x.body) == 1
                    and src(x.body[0]) == "awaitrunner.aclose()"):
                return "SAcloseAll"
            raise TranslationError("unsupported loop in _aclose_runners")
        if ctx == "launch":
            # the creation loop: runners (or self._runners) filled while the tasks are created
            if t in ("asyncio_loop=asyncio.get_event_loop()", "runner_tasks=[]"):
                return None
            if t == "runners={}":
                return None
            if isinstance(x, ast.For) and src(x.iter) == "self.runner_types":
                body = [src(b) for b in x.body]
                if body == ["runner=runners[runner_type.flavour]=runner_type(asyncio_loop)",
                            "runner_tasks.append(asyncio_loop.create_task(runner.run()))"]:
                    return "SLaunchLocal"
                if body == ["runner=self._runners[runner_type.flavour]=runner_type(asyncio_loop)",
                            "runner_tasks.append(asyncio_loop.create_task(runner.run()))"]:
                    return "SLaunchLocal; SPublishEach"
                raise TranslationError("unsupported creation loop in _launch_runners")
            if isinstance(x, ast.For) and src(x.iter) in ("runners.values()", "self._runners.values()"):
                if [src(b) for b in x.body] == ["awaitrunner.ready()"]:
                    return "SAwaitReady"
                raise TranslationError("unsupported loop in _launch_runners")
            if t == "self._runners=runners":
                return "SPublishLocal"
        raise TranslationError("unsupported statement in %s: %s" % (ctx, t[:80]))

    progs = []
    for name, ctx in (("register_payload", "register"), ("_manage_runners", "manage"), ("_launch_runners", "launch"),
                      ("_unqueue_payloads", "unqueue"), ("_aclose_runners", "aclose")):
        fn = find_function(tree, name, cls="MetaRunner")
        progs.append("Definition ir_%s : list rstmt :=\n  %s." % (ctx, block(fn.body, ctx)))
    # the registry must not be touched anywhere else in the class (stop() and run_payload only read it)
    allowed = {"register_payload", "_manage_runners", "_launch_runners", "_unqueue_payloads", "_aclose_runners", "_close_runners",
               "__init__"}
    for n in ast.walk(tree):
        if isinstance(n, (ast.FunctionDef, ast.AsyncFunctionDef)) and n.name not in allowed:
            for m in ast.walk(n):
                if isinstance(m, (ast.Assign, ast.AugAssign, ast.Delete)):
                    tgt = " ".join(src(t_) for t_ in (m.targets if hasattr(m, "targets") else [m.target]))
                    if "self._runners" in tgt or "self._runner_queues" in tgt:
                        raise TranslationError("%s writes the registry" % n.name)
                if isinstance(m, ast.Call) and src(m.func) in ("self._runners.clear", "self._runners.pop", "self._runners.update",
                                                               "self._runner_queues.clear", "self._runner_queues.pop"):
                    raise TranslationError("%s writes the registry" % n.name)
    return ("(* GENERATED on every run by py2coq from src/cobald/daemon/runners/meta_runner.py -- do not edit *)\n"
            "From Coq Require Import List.\nImport ListNotations.\nFrom Cobald Require Import kit.RegistryIR.\n\n"
            + "\n\n".join(progs)
            + "\n\nDefinition registry_irs : irs := mkIrs ir_register ir_manage ir_launch ir_unqueue ir_aclose.\n")


def gen_factory(repo):
    """FactoryPool.run / _shrink / _grow / _reap_children / _release_child: the statement skeleton is matched exactly
    (docstrings, comments and logging aside) and its expressions are transcribed into kit/FactoryIR.v's `fexpr` / `fcond`.
    Anything that is not the expected statement at the expected place raises TranslationError."""
    with open(os.path.join(repo, "src", "cobald", "composite", "factory.py")) as fh:
        tree = ast.parse(fh.read())
    cls = "FactoryPool"
    ATTR = {"supply": "ASupply", "utilisation": "AUtil", "allocation": "AAlloc", "demand": "ADemand"}
    CMP = {ast.Lt: "CLt", ast.LtE: "CLe", ast.Gt: "CGt", ast.GtE: "CGe"}

    def fail(what, node=None):
        raise TranslationError("factory.py: %s%s" % (what, " (line %d)" % node.lineno if node is not None and hasattr(node, "lineno") else ""))

    def src(e):
        return ast.unparse(e).replace(" ", "")

    def body_of(fn):
        b = list(fn.body)
        if b and isinstance(b[0], ast.Expr) and isinstance(b[0].value, ast.Constant) and isinstance(b[0].value.value, str):
            b = b[1:]
        return b

    def params(fn, want):
        a = fn.args
        got = [x.arg for x in a.posonlyargs + a.args + a.kwonlyargs]
        if got != want or a.vararg or a.kwarg or a.defaults or [d for d in a.kw_defaults if d is not None]:
            fail("%s: unexpected parameters %s" % (fn.name, got), fn)

    def coll(e, scope):
        t = src(e)
        if t == "hit_list" and "hit_list" in scope:
            return "CHit"
        if t == "self.children":
            return "CChildren"
        if t == "self._hatchery":
            return "CHatchery"
        fail("unsupported collection %s" % t, e)

    def fx(e, scope):
        """scope: name -> fexpr text for the locals that may be read here; 'child' names the child variable"""
        if isinstance(e, ast.Name):
            if e.id in scope and scope[e.id] is not None:
                return scope[e.id]
            fail("unsupported name %s" % e.id, e)
        if isinstance(e, ast.Constant) and type(e.value) is int:
            return "(FConst %d)" % e.value if e.value >= 0 else "(FConst (%d))" % e.value
        if isinstance(e, ast.BinOp) and isinstance(e.op, (ast.Sub, ast.Mult)):
            return "(%s %s %s)" % ("FSub" if isinstance(e.op, ast.Sub) else "FMul", fx(e.left, scope), fx(e.right, scope))
        if isinstance(e, ast.Attribute) and isinstance(e.value, ast.Name) and e.value.id == scope.get("child") and e.attr in ATTR:
            return "(FChild %s)" % ATTR[e.attr]
        if (isinstance(e, ast.Call) and isinstance(e.func, ast.Name) and e.func.id == "sum" and len(e.args) == 1 and not e.keywords
                and isinstance(e.args[0], ast.GeneratorExp) and len(e.args[0].generators) == 1):
            g = e.args[0].generators[0]
            elt = e.args[0].elt
            if (g.ifs or g.is_async or not isinstance(g.target, ast.Name) or not isinstance(elt, ast.Attribute)
                    or not isinstance(elt.value, ast.Name) or elt.value.id != g.target.id or elt.attr not in ATTR):
                fail("unsupported sum %s" % src(e), e)
            return "(FSum %s %s)" % (ATTR[elt.attr], coll(g.iter, scope))
        fail("unsupported expression %s" % src(e), e)

    def fc(e, scope):
        if isinstance(e, ast.Compare) and len(e.ops) == 1 and type(e.ops[0]) in CMP:
            return "(FCmp %s %s %s)" % (CMP[type(e.ops[0])], fx(e.left, scope), fx(e.comparators[0], scope))
        fail("unsupported condition %s" % src(e), e)

    def expect(cond, what, node=None):
        if not cond:
            fail("expected " + what, node)

    def is_selfcall(x, meth):
        return (isinstance(x, ast.Expr) and isinstance(x.value, ast.Call) and src(x.value.func) == "self." + meth)

    def acc_update(x, acc, scope):
        """`acc -= e` / `acc = e` -> the new value of the accumulator"""
        if isinstance(x, ast.AugAssign) and isinstance(x.target, ast.Name) and x.target.id == acc and isinstance(x.op, ast.Sub):
            return "(FSub FAcc %s)" % fx(x.value, scope)
        if isinstance(x, ast.Assign) and len(x.targets) == 1 and src(x.targets[0]) == acc:
            return fx(x.value, scope)
        fail("expected an update of %s" % acc, x)

    P = {}
    # ---- run
    fn = find_function(tree, "run", cls=cls)
    params(fn, ["self"])
    b = body_of(fn)
    expect(len(b) == 1 and isinstance(b[0], ast.While) and src(b[0].test) == "True" and not b[0].orelse, "run: `while True:`", fn)
    w = b[0].body
    expect(len(w) == 3 and isinstance(w[0], ast.Expr) and src(w[0].value) == "awaittrio.sleep(self.interval)",
           "run: `await trio.sleep(self.interval)` first", fn)
    scope = {}
    x = w[1]
    expect(isinstance(x, ast.Assign) and len(x.targets) == 1 and isinstance(x.targets[0], ast.Tuple) and isinstance(x.value, ast.Tuple)
           and len(x.targets[0].elts) == len(x.value.elts) == 2, "run: `a, b = self.supply, self.demand`", x)
    for t, v in zip(x.targets[0].elts, x.value.elts):
        expect(isinstance(t, ast.Name) and src(v) in ("self.supply", "self.demand"), "run: locals bound to self.supply / self.demand", x)
        scope[t.id] = "FSelfSupply" if src(v) == "self.supply" else "FSelfDemand"
    x = w[2]
    expect(isinstance(x, ast.If) and len(x.body) == 1 and len(x.orelse) == 1, "run: if/else with one call each", x)
    P["run_cond"] = fc(x.test, scope)
    targets = []
    for br, meth in ((x.body[0], "_shrink"), (x.orelse[0], "_grow")):
        expect(is_selfcall(br, meth) and not br.value.args and [k.arg for k in br.value.keywords] == ["target"],
               "run: self.%s(target=...)" % meth, br)
        targets.append(fx(br.value.keywords[0].value, scope))
    expect(targets[0] == targets[1], "run: the same target for _shrink and _grow", x)
    P["run_target"] = targets[0]
    # ---- _shrink
    fn = find_function(tree, "_shrink", cls=cls)
    params(fn, ["self", "target"])
    b = body_of(fn)
    expect(len(b) == 4, "_shrink: four statements", fn)
    x = b[0]
    ok = (isinstance(x, ast.Assign) and src(x.targets[0]) == "hit_list" and isinstance(x.value, ast.Call) and src(x.value.func) == "sorted"
          and len(x.value.args) == 1 and src(x.value.args[0]) == "self._hatchery" and [k.arg for k in x.value.keywords] == ["key"]
          and isinstance(x.value.keywords[0].value, ast.Lambda))
    expect(ok, "_shrink: hit_list = sorted(self._hatchery, key=lambda child: ...)", x)
    lam = x.value.keywords[0].value
    expect(len(lam.args.args) == 1 and not lam.args.defaults and not lam.args.vararg and not lam.args.kwarg, "_shrink: one-argument key", lam)
    P["sort_key"] = fx(lam.body, {"child": lam.args.args[0].arg})
    x = b[1]
    expect(isinstance(x, ast.Assign) and len(x.targets) == 1 and src(x.targets[0]) == "excess_demand", "_shrink: excess_demand = ...", x)
    P["excess_init"] = fx(x.value, {"target": "FTarget", "hit_list": None})
    x = b[2]
    expect(isinstance(x, ast.For) and src(x.iter) == "hit_list" and isinstance(x.target, ast.Name) and not x.orelse and len(x.body) == 2,
           "_shrink: for child in hit_list: <two statements>", x)
    scope = {"target": "FTarget", "excess_demand": "FAcc", "child": x.target.id, "hit_list": None}
    i1, i2 = x.body
    expect(isinstance(i1, ast.If) and not i1.orelse and len(i1.body) == 1 and isinstance(i1.body[0], ast.Break), "_shrink: if ...: break", i1)
    P["break_if"] = fc(i1.test, scope)
    expect(isinstance(i2, ast.If) and not i2.orelse and len(i2.body) == 2 and is_selfcall(i2.body[1], "_release_child")
           and [src(a) for a in i2.body[1].value.args] == [x.target.id] and not i2.body[1].value.keywords,
           "_shrink: if ...: excess_demand -= ...; self._release_child(child)", i2)
    P["release_if"] = fc(i2.test, scope)
    P["excess_step"] = acc_update(i2.body[0], "excess_demand", scope)
    expect(is_selfcall(b[3], "_reap_children") and not b[3].value.args and not b[3].value.keywords, "_shrink: self._reap_children() last", b[3])
    # ---- _grow
    fn = find_function(tree, "_grow", cls=cls)
    params(fn, ["self", "target"])
    b = body_of(fn)
    expect(len(b) == 3, "_grow: three statements", fn)
    x = b[0]
    expect(isinstance(x, ast.Assign) and len(x.targets) == 1 and src(x.targets[0]) == "missing_demand", "_grow: missing_demand = ...", x)
    P["missing_init"] = fx(x.value, {"target": "FTarget"})
    x = b[1]
    expect(isinstance(x, ast.While) and not x.orelse and len(x.body) == 4, "_grow: while ...: <four statements>", x)
    P["grow_while"] = fc(x.test, {"target": "FTarget", "missing_demand": "FAcc"})
    s1, s2, s3, s4 = x.body
    expect(isinstance(s1, ast.Assign) and len(s1.targets) == 1 and isinstance(s1.targets[0], ast.Name) and src(s1.value) == "self.factory()",
           "_grow: new_child = self.factory()", s1)
    nc = s1.targets[0].id
    expect(isinstance(s2, ast.Expr) and src(s2.value) == "self._hatchery.add(%s)" % nc, "_grow: self._hatchery.add(new_child)", s2)
    scope = {"target": "FTarget", "missing_demand": "FAcc", "child": nc}
    expect(isinstance(s3, ast.Assert), "_grow: assert on the new child", s3)
    P["assert"] = fc(s3.test, scope)
    P["missing_step"] = acc_update(s4, "missing_demand", scope)
    expect(is_selfcall(b[2], "_reap_children") and not b[2].value.args and not b[2].value.keywords, "_grow: self._reap_children() last", b[2])
    # ---- _reap_children
    fn = find_function(tree, "_reap_children", cls=cls)
    params(fn, ["self"])
    b = body_of(fn)
    expect(len(b) == 1 and isinstance(b[0], ast.For) and src(b[0].iter) == "list(self._hatchery)" and isinstance(b[0].target, ast.Name)
           and not b[0].orelse and len(b[0].body) == 1, "_reap_children: for child in list(self._hatchery): if ...", fn)
    ch = b[0].target.id
    i1 = b[0].body[0]
    expect(isinstance(i1, ast.If) and not i1.orelse and len(i1.body) == 1 and is_selfcall(i1.body[0], "_release_child")
           and [src(a) for a in i1.body[0].value.args] == [ch] and not i1.body[0].value.keywords,
           "_reap_children: if ...: self._release_child(child)", i1)
    P["reap_if"] = fc(i1.test, {"child": ch})
    # ---- _release_child
    fn = find_function(tree, "_release_child", cls=cls)
    params(fn, ["self", "child"])
    b = body_of(fn)
    expect(len(b) == 3 and isinstance(b[0], ast.Assign) and len(b[0].targets) == 1 and src(b[0].targets[0]) == "child.demand"
           and isinstance(b[1], ast.Expr) and src(b[1].value) == "self._hatchery.discard(child)"
           and isinstance(b[2], ast.Expr) and src(b[2].value) == "self._mortuary.add(child)",
           "_release_child: child.demand = ...; self._hatchery.discard(child); self._mortuary.add(child)", fn)
    P["release_demand"] = fx(b[0].value, {"child": "child"})
    # ---- children (the collection `self.children` the sums range over)
    fn = find_function(tree, "children", cls=cls, decorator="property")
    b = body_of(fn)
    expect(len(b) == 1 and isinstance(b[0], ast.Return) and src(b[0].value) == "[*self._hatchery,*self._mortuary]",
           "children: return [*self._hatchery, *self._mortuary]", fn)
    # ---- readers
    R = {}
    fn = find_function(tree, "supply", cls=cls, decorator="property")
    b = body_of(fn)
    expect(len(b) == 1 and isinstance(b[0], ast.Return), "supply: one return", fn)
    R["supply"] = fx(b[0].value, {})
    for name, key in (("utilisation", "util"), ("allocation", "alloc")):
        fn = find_function(tree, name, cls=cls, decorator="property")
        b = body_of(fn)
        expect(len(b) == 2, "%s: two statements" % name, fn)
        x = b[0]
        ok = (isinstance(x, ast.Assign) and len(x.targets) == 1 and isinstance(x.targets[0], ast.Name) and isinstance(x.value, ast.ListComp)
              and len(x.value.generators) == 1)
        expect(ok, "%s: active = [child for child in self.children if ...]" % name, x)
        g = x.value.generators[0]
        expect(isinstance(g.target, ast.Name) and src(x.value.elt) == g.target.id and src(g.iter) == "self.children" and len(g.ifs) == 1
               and not g.is_async, "%s: [child for child in self.children if <one condition>]" % name, x)
        act = x.targets[0].id
        R[key + "_if"] = fc(g.ifs[0], {"child": g.target.id})
        t = b[1]
        ok = (isinstance(t, ast.Try) and len(t.body) == 1 and isinstance(t.body[0], ast.Return) and len(t.handlers) == 1 and not t.orelse
              and not t.finalbody and isinstance(t.handlers[0].type, ast.Name) and t.handlers[0].type.id == "ZeroDivisionError"
              and len(t.handlers[0].body) == 1 and isinstance(t.handlers[0].body[0], ast.Return))
        expect(ok, "%s: try: return ... except ZeroDivisionError: return ..." % name, t)
        d = t.body[0].value
        ok = (isinstance(d, ast.BinOp) and isinstance(d.op, ast.Div) and src(d.right) == "len(%s)" % act
              and isinstance(d.left, ast.Call) and src(d.left.func) == "sum" and len(d.left.args) == 1 and not d.left.keywords
              and isinstance(d.left.args[0], ast.GeneratorExp) and len(d.left.args[0].generators) == 1)
        expect(ok, "%s: sum(child.<a> for child in active) / len(active)" % name, t)
        g2 = d.left.args[0].generators[0]
        elt = d.left.args[0].elt
        expect(isinstance(g2.target, ast.Name) and not g2.ifs and src(g2.iter) == act and isinstance(elt, ast.Attribute)
               and src(elt.value) == g2.target.id and elt.attr in ATTR, "%s: the summed attribute" % name, t)
        R[key + "_attr"] = ATTR[elt.attr]
        fb = t.handlers[0].body[0].value
        expect(isinstance(fb, ast.Constant) and type(fb.value) in (int, float) and float(fb.value).is_integer(), "%s: integral fallback" % name, t)
        R[key + "_fallback"] = "(%d)" % int(fb.value)
    # ---- demand (a plain stored value) and __init__
    fn = find_function(tree, "demand", cls=cls, decorator="property")
    b = body_of(fn)
    expect(len(b) == 1 and isinstance(b[0], ast.Return) and src(b[0].value) == "self._demand", "demand: return self._demand", fn)
    fn = find_function(tree, "demand", cls=cls, decorator="demand.setter")
    b = body_of(fn)
    expect(len(b) == 1 and isinstance(b[0], ast.Assign) and src(b[0].targets[0]) == "self._demand" and len(fn.args.args) == 2
           and src(b[0].value) == fn.args.args[1].arg, "demand setter: self._demand = value", fn)
    fn = find_function(tree, "__init__", cls=cls)
    b = body_of(fn)
    a = fn.args
    expect(a.vararg is not None and a.vararg.arg == "children" and [x.arg for x in a.args] == ["self"]
           and [x.arg for x in a.kwonlyargs] == ["factory", "interval"] and not a.kwarg, "__init__(self, *children, factory, interval)", fn)
    stm = {src(x.targets[0]): x.value for x in b if isinstance(x, ast.Assign) and len(x.targets) == 1}
    expect(len(stm) == len(b) == 5 and set(stm) == {"self._demand", "self._hatchery", "self._mortuary", "self.factory", "self.interval"},
           "__init__: exactly the five attribute assignments", fn)
    expect(src(stm["self._hatchery"]) == "set(children)" and src(stm["self._mortuary"]) == "weakref.WeakSet()"
           and src(stm["self.factory"]) == "factory" and src(stm["self.interval"]) == "interval", "__init__: hatchery / mortuary / factory / interval", fn)
    d = stm["self._demand"]
    ok = (isinstance(d, ast.Call) and src(d.func) == "sum" and len(d.args) == 1 and not d.keywords and isinstance(d.args[0], ast.GeneratorExp)
          and len(d.args[0].generators) == 1 and not d.args[0].generators[0].ifs and src(d.args[0].generators[0].iter) == "children"
          and isinstance(d.args[0].elt, ast.Attribute) and src(d.args[0].elt.value) == src(d.args[0].generators[0].target)
          and d.args[0].elt.attr in ATTR)
    expect(ok, "__init__: self._demand = sum(child.<a> for child in children)", fn)
    R["init_attr"] = ATTR[d.args[0].elt.attr]
    order = ["run_cond", "run_target", "sort_key", "excess_init", "break_if", "release_if", "excess_step", "missing_init",
             "grow_while", "assert", "missing_step", "reap_if", "release_demand"]
    out = ["(* GENERATED on every run by py2coq from src/cobald/composite/factory.py -- do not edit *)",
           "From Coq Require Import ZArith.",
           "From Cobald Require Import model.Factory kit.FactoryIR.",
           "Open Scope Z_scope.", "",
           "Definition gen_factory_params : fparams := mkParams"]
    out += ["  %s   (* %s *)" % (P[k], k) for k in order]
    out[-1] = out[-1].replace("   (*", ".   (*", 1)
    rorder = ["supply", "util_if", "util_attr", "util_fallback", "alloc_if", "alloc_attr", "alloc_fallback", "init_attr"]
    out += ["", "Definition gen_factory_rparams : rparams := mkRParams"]
    out += ["  %s   (* %s *)" % (R[k], k) for k in rorder]
    out[-1] = out[-1].replace("   (*", ".   (*", 1)
    return "\n".join(out) + "\n"


def gen_decorators(repo):
    """PoolDecorator's five accessors (interfaces/_proxy.py) and Logger.demand getter / setter (decorator/logger.py) as the
    tables of kit/DecoIR.v; every accessor must be the single expected statement (docstrings aside)"""
    PATTR = {"demand": "PDemand", "supply": "PSupply", "utilisation": "PUtil", "allocation": "PAlloc"}

    def src(e):
        return ast.unparse(e).replace(" ", "")

    def fail(what, node=None):
        raise TranslationError("decorators: %s%s" % (what, " (line %d)" % node.lineno if node is not None and hasattr(node, "lineno") else ""))

    def body_of(fn):
        b = list(fn.body)
        if b and isinstance(b[0], ast.Expr) and isinstance(b[0].value, ast.Constant) and isinstance(b[0].value.value, str):
            b = b[1:]
        return b

    def target_attr(e):
        """self.target.<a> -> pattr"""
        if (isinstance(e, ast.Attribute) and e.attr in PATTR and isinstance(e.value, ast.Attribute) and e.value.attr == "target"
                and isinstance(e.value.value, ast.Name) and e.value.value.id == "self"):
            return PATTR[e.attr]
        fail("expected self.target.<attribute>, got %s" % src(e), e)

    def getter(tree, cls, name):
        fn = find_function(tree, name, cls=cls, decorator="property")
        b = body_of(fn)
        if len(b) != 1 or not isinstance(b[0], ast.Return) or [a.arg for a in fn.args.args] != ["self"]:
            fail("%s.%s: a single return" % (cls, name), fn)
        return target_attr(b[0].value)

    with open(os.path.join(repo, "src", "cobald", "interfaces", "_proxy.py")) as fh:
        tree = ast.parse(fh.read())
    reads = [getter(tree, "PoolDecorator", n) for n in ("supply", "demand", "utilisation", "allocation")]
    fn = find_function(tree, "demand", cls="PoolDecorator", decorator="demand.setter")
    b = body_of(fn)
    if (len(b) != 1 or not isinstance(b[0], ast.Assign) or len(b[0].targets) != 1 or len(fn.args.args) != 2
            or src(b[0].value) != fn.args.args[1].arg):
        fail("PoolDecorator.demand setter: self.target.<attribute> = value", fn)
    setter = target_attr(b[0].targets[0])
    fn = find_function(tree, "__init__", cls="PoolDecorator")
    b = body_of(fn)
    if [a.arg for a in fn.args.args] != ["self", "target"] or [src(x) for x in b] != ["self.target=target"]:
        fail("PoolDecorator.__init__(self, target): self.target = target", fn)
    out = ["(* GENERATED on every run by py2coq from src/cobald/interfaces/_proxy.py and src/cobald/decorator/logger.py -- do not edit *)",
           "From Coq Require Import List String.",
           "From Cobald Require Import model.Decorators kit.DecoIR.",
           "Import ListNotations.", "",
           "Definition gen_proxy : proxy_tbl := mkProxy %s %s." % (" ".join(reads), setter), ""]
    # ---- Logger
    with open(os.path.join(repo, "src", "cobald", "decorator", "logger.py")) as fh:
        tree = ast.parse(fh.read())
    out.append("Definition gen_logger_getter : lsrc := LTarget %s." % getter(tree, "Logger", "demand"))
    fn = find_function(tree, "demand", cls="Logger", decorator="demand.setter")
    if len(fn.args.args) != 2 or fn.args.args[0].arg != "self":
        fail("Logger.demand setter(self, value)", fn)
    val = fn.args.args[1].arg
    steps, table = [], None
    for x in body_of(fn):
        if (isinstance(x, ast.Assign) and len(x.targets) == 1 and src(x.value) == val and target_attr(x.targets[0]) == "PDemand"):
            steps.append("LWrite")
            continue
        c = x.value if isinstance(x, ast.Expr) else None
        if (isinstance(c, ast.Call) and src(c.func) == "self._logger.log" and not c.keywords and len(c.args) == 3
                and src(c.args[0]) == "self.level" and src(c.args[1]) == "self.message" and isinstance(c.args[2], ast.Dict)
                and table is None):
            table = []
            for k, v in zip(c.args[2].keys, c.args[2].values):
                if not (isinstance(k, ast.Constant) and isinstance(k.value, str) and k.value.isidentifier()):
                    fail("Logger: field keys must be plain strings", x)
                if src(v) == val:
                    sv = "LValue"
                elif src(v) == "self.target":
                    sv = "LTargetObj"
                else:
                    sv = "(LTarget %s)" % target_attr(v)
                table.append('("%s", %s)' % (k.value, sv))
            steps.append("LLog")
            continue
        fail("Logger.demand setter: unexpected statement %s" % src(x), x)
    if table is None:
        fail("Logger.demand setter: no self._logger.log(self.level, self.message, {...})", fn)
    out.append("Definition gen_logger_fields : ltable := [%s]%%string." % "; ".join(table))
    out.append("Definition gen_logger_steps : list lstep := [%s]." % "; ".join(steps))
    return "\n".join(out) + "\n"


def gen_sections(repo):
    """load_section_plugins (core/config.py): exact statement skeleton; which constraint set seeds the dependencies, which
    is inverted and how (kit/SectionsIR.v)"""
    def src(e):
        return ast.unparse(e).replace(" ", "")

    def fail(what, node=None):
        raise TranslationError("sections: %s%s" % (what, " (line %d)" % node.lineno if node is not None and hasattr(node, "lineno") else ""))

    CSET = {"after": "SAfter", "before": "SBefore"}
    with open(os.path.join(repo, "src", "cobald", "daemon", "core", "config.py")) as fh:
        tree = ast.parse(fh.read())
    fn = find_function(tree, "load_section_plugins")
    b = list(fn.body)
    if b and isinstance(b[0], ast.Expr) and isinstance(b[0].value, ast.Constant):
        b = b[1:]
    if len(b) != 4 or [a.arg for a in fn.args.args] != ["entry_point_group"]:
        fail("load_section_plugins(entry_point_group): four statements", fn)

    def assigned(x, name):
        if isinstance(x, ast.AnnAssign) and x.value is not None and src(x.target) == name:
            return x.value
        if isinstance(x, ast.Assign) and len(x.targets) == 1 and src(x.targets[0]) == name:
            return x.value
        fail("expected an assignment to %s" % name, x)

    v = assigned(b[0], "plugins")
    if src(v) != "{plugin.section:pluginforplugininmap(SectionPlugin.load,get_entrypoints(entry_point_group))}":
        fail("plugins = {plugin.section: plugin for plugin in map(SectionPlugin.load, get_entrypoints(entry_point_group))}", b[0])
    v = assigned(b[1], "dependencies")
    ok = (isinstance(v, ast.DictComp) and len(v.generators) == 1 and not v.generators[0].ifs and src(v.generators[0].iter) == "plugins.values()"
          and isinstance(v.generators[0].target, ast.Name) and src(v.key) == v.generators[0].target.id + ".section"
          and isinstance(v.value, ast.Call) and src(v.value.func) == "set" and len(v.value.args) == 1 and not v.value.keywords
          and isinstance(v.value.args[0], ast.Attribute) and src(v.value.args[0].value) == v.generators[0].target.id
          and v.value.args[0].attr in CSET)
    if not ok:
        fail("dependencies = {plugin.section: set(plugin.<after|before>) for plugin in plugins.values()}", b[1])
    init = CSET[v.value.args[0].attr]
    x = b[2]
    ok = (isinstance(x, ast.For) and not x.orelse and src(x.iter) == "plugins.values()" and isinstance(x.target, ast.Name) and len(x.body) == 1
          and isinstance(x.body[0], ast.For) and not x.body[0].orelse and isinstance(x.body[0].target, ast.Name)
          and isinstance(x.body[0].iter, ast.Attribute) and src(x.body[0].iter.value) == x.target.id and x.body[0].iter.attr in CSET
          and len(x.body[0].body) == 1)
    if not ok:
        fail("for plugin in plugins.values(): for other in plugin.<before|after>: <one statement>", x)
    pl, other = x.target.id, x.body[0].target.id
    invert = CSET[x.body[0].iter.attr]
    c = x.body[0].body[0]
    c = c.value if isinstance(c, ast.Expr) else None
    ok = (isinstance(c, ast.Call) and isinstance(c.func, ast.Attribute) and c.func.attr == "add" and len(c.args) == 1 and not c.keywords
          and isinstance(c.func.value, ast.Call) and src(c.func.value.func) == "dependencies.setdefault" and len(c.func.value.args) == 2
          and not c.func.value.keywords and src(c.func.value.args[1]) == "set()")
    if not ok:
        fail("dependencies.setdefault(<key>, set()).add(<value>)", x)
    key, val = src(c.func.value.args[0]), src(c.args[0])
    if (key, val) == (other, pl + ".section"):
        key_is_other = "true"
    elif (key, val) == (pl + ".section", other):
        key_is_other = "false"
    else:
        fail("setdefault key / added value must be the loop variable and plugin.section", x)
    r = b[3]
    want = "tuple((plugins[plugin_name]forplugin_nameintoposort_flatten(dependencies,sort=False)ifplugin_nameinplugins))"
    if not isinstance(r, ast.Return) or src(r.value) != want:
        fail("return tuple(plugins[plugin_name] for plugin_name in toposort_flatten(dependencies, sort=False) if plugin_name in plugins)", r)
    # ---- load_configuration (config/mapping.py): order of the phases, the two tests of the digest loop
    with open(os.path.join(repo, "src", "cobald", "daemon", "config", "mapping.py")) as fh:
        tree2 = ast.parse(fh.read())
    fn = find_function(tree2, "load_configuration")
    if [a.arg for a in fn.args.args] != ["config_data", "plugins"]:
        fail("load_configuration(config_data, plugins)", fn)
    b = [x for x in fn.body if not (isinstance(x, ast.Expr) and isinstance(x.value, ast.Constant))]
    if not b or not isinstance(b[-1], ast.Return) or src(b[-1].value) != "content":
        fail("load_configuration: return content", fn)
    b = b[:-1]
    phases, missing, store = [], None, None

    def is_raise_conf(x):
        return (isinstance(x, ast.Raise) and isinstance(x.exc, ast.Call) and src(x.exc.func) == "ConfigurationError")

    i = 0
    while i < len(b):
        x = b[i]
        if (isinstance(x, ast.Try) and [src(y) for y in x.body] == ["logging_mapping=config_data.pop('logging')"] and len(x.handlers) == 1
                and src(x.handlers[0].type) == "KeyError" and [type(y) for y in x.handlers[0].body] == [ast.Pass] and not x.finalbody
                and [src(y) for y in x.orelse] == ["configure_logging(logging_mapping)"]):
            phases.append("PLogging")
            i += 1
        elif (src(x) == "unmatched=config_data.keys()-{plugin.sectionforplugininplugins}" and i + 1 < len(b)
              and isinstance(b[i + 1], ast.If) and src(b[i + 1].test) == "unmatched" and not b[i + 1].orelse
              and len(b[i + 1].body) == 1 and is_raise_conf(b[i + 1].body[0])):
            phases.append("PValidate")
            i += 2
        elif (src(x) == "content={}" and i + 1 < len(b) and isinstance(b[i + 1], ast.For) and src(b[i + 1].target) == "plugin"
              and src(b[i + 1].iter) == "plugins" and not b[i + 1].orelse and len(b[i + 1].body) == 1 and isinstance(b[i + 1].body[0], ast.Try)):
            t = b[i + 1].body[0]
            ok = ([src(y) for y in t.body] == ["section_data=config_data[plugin.section]"] and len(t.handlers) == 1
                  and src(t.handlers[0].type) == "KeyError" and not t.finalbody and len(t.handlers[0].body) == 1 and len(t.orelse) == 2
                  and src(t.orelse[0]) == "plugin_content=plugin.digest(section_data)")
            if not ok or missing is not None:
                fail("load_configuration: the digest loop", t)
            h = t.handlers[0].body[0]
            if isinstance(h, ast.If) and src(h.test) == "plugin.required" and not h.orelse and len(h.body) == 1 and is_raise_conf(h.body[0]):
                missing = "MRequired"
            elif is_raise_conf(h):
                missing = "MAlways"
            elif isinstance(h, ast.Pass):
                missing = "MNever"
            else:
                fail("load_configuration: what happens on a missing section", h)
            st = t.orelse[1]
            if isinstance(st, ast.If) and not st.orelse and [src(y) for y in st.body] == ["content[plugin]=plugin_content"]:
                if src(st.test) == "plugin_contentisnotNone":
                    store = "SNotNone"
                elif src(st.test) == "plugin_content":
                    store = "STruthy"
                else:
                    fail("load_configuration: when a digest result is kept", st)
            elif src(st) == "content[plugin]=plugin_content":
                store = "SAlways"
            else:
                fail("load_configuration: when a digest result is kept", st)
            phases.append("PDigest")
            i += 2
        else:
            fail("load_configuration: unexpected statement %s" % src(x)[:60], x)
    if missing is None or phases.count("PDigest") != 1:
        fail("load_configuration: exactly one digest loop", fn)
    return "\n".join([
        "(* GENERATED on every run by py2coq from src/cobald/daemon/core/config.py and config/mapping.py -- do not edit *)",
        "From Coq Require Import List.", "From Cobald Require Import model.Sections kit.SectionsIR.", "Import ListNotations.", "",
        "Definition gen_dparams : dparams := mkDparams %s %s %s." % (init, invert, key_is_other),
        "Definition gen_lparams : lparams := mkLparams [%s] %s %s." % ("; ".join(phases), missing, store), ""])


def gen_services(repo):
    """the six run() loops as `loop` records of kit/LoopIR.v: `prelude; while True: <body with exactly one top-level
    await trio.sleep(e)>`; the sleep must be the first or the last statement of the loop body"""
    def src(e):
        return ast.unparse(e).replace(" ", "")

    def fail(what, node=None):
        raise TranslationError("services: %s%s" % (what, " (line %d)" % node.lineno if node is not None and hasattr(node, "lineno") else ""))

    def aexpr(e, aliases):
        t = aliases.get(src(e), src(e))
        if t == "self.interval":
            return "AInterval"
        if t == "self.window":
            return "AWindow"
        if isinstance(e, ast.Constant) and type(e.value) is int:
            return "(AConst (%d))" % e.value
        fail("unsupported duration %s" % src(e), e)

    SPEC = [("linear", "controller/linear.py", "LinearController", "regulate"),
            ("relative", "controller/relative_supply.py", "RelativeSupplyController", "regulate"),
            ("switch", "controller/switch.py", "DemandSwitch", "regulate"),
            ("stepwise", "controller/stepwise.py", "Stepwise", "stepwise"),
            ("buffer", "decorator/buffer.py", "Buffer", "buffer"),
            ("factory", "composite/factory.py", "FactoryPool", "factory")]
    out = ["(* GENERATED on every run by py2coq from the run() methods of the six shipped services -- do not edit *)",
           "From Coq Require Import ZArith.",
           "From Cobald Require Import kit.LoopIR.", "Open Scope Z_scope.", ""]
    for key, rel, cls, kind in SPEC:
        with open(os.path.join(repo, "src", "cobald", rel)) as fh:
            tree = ast.parse(fh.read())
        fn = find_function(tree, "run", cls=cls)
        if not isinstance(fn, ast.AsyncFunctionDef) or [a.arg for a in fn.args.args] != ["self"]:
            fail("%s.run: async def run(self)" % cls, fn)
        b = [x for x in fn.body if not (isinstance(x, ast.Expr) and isinstance(x.value, ast.Constant))]
        if not b or not isinstance(b[-1], ast.While) or src(b[-1].test) != "True" or b[-1].orelse:
            fail("%s.run: ends in `while True:`" % cls, fn)
        aliases = {}
        for x in b[:-1]:
            if not (isinstance(x, ast.Assign) and len(x.targets) == 1 and isinstance(x.targets[0], ast.Tuple) and isinstance(x.value, ast.Tuple)
                    and len(x.targets[0].elts) == len(x.value.elts)):
                fail("%s.run: prelude must be `a, b = self.x, self.y`" % cls, x)
            for t, v in zip(x.targets[0].elts, x.value.elts):
                if not isinstance(t, ast.Name) or not src(v).startswith("self.") or any(isinstance(n, ast.Call) for n in ast.walk(v)):
                    fail("%s.run: prelude binds plain attributes of self" % cls, x)
                aliases[t.id] = src(v)
        w = list(b[-1].body)
        if sum(isinstance(n, ast.Await) for x in w for n in ast.walk(x)) != 1:
            fail("%s.run: exactly one await per iteration" % cls, fn)

        def is_sleep(x):
            return (isinstance(x, ast.Expr) and isinstance(x.value, ast.Await) and isinstance(x.value.value, ast.Call)
                    and src(x.value.value.func) == "trio.sleep" and len(x.value.value.args) == 1 and not x.value.value.keywords)
        if is_sleep(w[0]) and len(w) > 1:
            first, sleep, rest = "true", w[0], w[1:]
        elif is_sleep(w[-1]) and len(w) > 1:
            first, sleep, rest = "false", w[-1], w[:-1]
        else:
            fail("%s.run: the sleep must be the first or the last statement of the loop body" % cls, fn)
        period = aexpr(sleep.value.value.args[0], aliases)
        if kind == "regulate":
            c = rest[0].value if len(rest) == 1 and isinstance(rest[0], ast.Expr) else None
            if not (isinstance(c, ast.Call) and src(c.func) == "self.regulate" and len(c.args) == 1 and not c.keywords):
                fail("%s.run: body must be self.regulate(<duration>)" % cls, fn)
            body = "(BRegulate %s)" % aexpr(c.args[0], aliases)
        elif kind == "stepwise":
            ok = (len(rest) == 3 and src(rest[0]) == "current_rule=self._selector.get_rule(target.supply)"
                  and src(rest[1]) == "demand=current_rule(target,interval)" and isinstance(rest[2], ast.If) and not rest[2].orelse
                  and src(rest[2].test) == "demandisnotNone" and [src(x) for x in rest[2].body] == ["self.target.demand=demand"]
                  and aliases.get("target") == "self.target" and aliases.get("interval") == "self.interval")
            if not ok:
                fail("Stepwise.run: select by target.supply, call the rule with (target, interval), write unless None", fn)
            body = "BStepwise"
        elif kind == "buffer":
            i = rest[0] if len(rest) == 1 else None
            ok = (isinstance(i, ast.If) and not i.orelse and [src(x) for x in i.body] == ["self.target.demand=self.demand"]
                  and isinstance(i.test, ast.Compare) and len(i.test.ops) == 1 and isinstance(i.test.ops[0], (ast.NotEq, ast.Eq))
                  and {src(i.test.left), src(i.test.comparators[0])} == {"self.demand", "self.target.demand"})
            if not ok:
                fail("Buffer.run: if self.demand != self.target.demand: self.target.demand = self.demand", fn)
            body = "(BBufferFlush %s)" % ("true" if isinstance(i.test.ops[0], ast.NotEq) else "false")
        else:
            ok = (len(rest) == 2 and src(rest[0]) in ("supply,demand=(self.supply,self.demand)", "supply,demand=self.supply,self.demand")
                  and isinstance(rest[1], ast.If) and len(rest[1].body) == 1 and len(rest[1].orelse) == 1)
            if not ok:
                fail("FactoryPool.run: read supply and demand, then one if/else (gen_factory transcribes it)", fn)
            body = "BFactoryAdjust"
        out.append("Definition gen_loop_%s : loop := mkLoop %s %s %s." % (key, first, period, body))
    return "\n".join(out) + "\n"


def gen_monitor(repo):
    """JsonFormatter.format / __init__ (monitor/format_json.py): the order in which the dictionary for json.dumps is assembled
    and the condition under which the time is part of it (kit/JsonIR.v)"""
    def src(e):
        return ast.unparse(e).replace(" ", "")

    def fail(what, node=None):
        raise TranslationError("monitor: %s%s" % (what, " (line %d)" % node.lineno if node is not None and hasattr(node, "lineno") else ""))

    with open(os.path.join(repo, "src", "cobald", "monitor", "format_json.py")) as fh:
        tree = ast.parse(fh.read())
    fn = find_function(tree, "format", cls="JsonFormatter")
    if [a.arg for a in fn.args.args] != ["self", "record"]:
        fail("format(self, record)", fn)
    b = [x for x in fn.body if not (isinstance(x, ast.Expr) and isinstance(x.value, ast.Constant))]
    # the normalisation of record.args comes first, the return of json.dumps(data) last
    if len(b) < 5 or src(b[0]) != "args=record.args" or not isinstance(b[1], ast.If) or src(b[1].test) != "args==({},)" \
            or [src(x) for x in b[1].body] != ["args={}"] or b[1].orelse or not isinstance(b[2], ast.Assert) \
            or src(b[2].test) != "isinstance(args,Mapping)":
        fail("format: args = record.args; if args == ({},): args = {}; assert isinstance(args, Mapping)", fn)
    if not isinstance(b[-1], ast.Return) or src(b[-1].value) != "json.dumps(data)":
        fail("format: return json.dumps(data)", b[-1])
    steps = []
    for x in b[3:-1]:
        t = src(x)
        if t == "data=self._defaults.copy()":
            steps.append("JCopyDefaults")
        elif (isinstance(x, ast.If) and src(x.test) == "self._add_time" and not x.orelse
              and [src(y) for y in x.body] == ["data['time']=self.formatTime(record,self.datefmt)"]):
            steps.append("JSetTime")
        elif t == "data['message']=record.getMessage()ifargselserecord.msg":
            steps.append("JSetMessage")
        elif t == "data.update(args)":
            steps.append("JUpdateArgs")
        else:
            fail("format: unexpected statement %s" % t, x)
    if not steps or steps[0] != "JCopyDefaults" or steps.count("JCopyDefaults") != 1:
        fail("format: data must start as a copy of the defaults", fn)
    fn = find_function(tree, "__init__", cls="JsonFormatter")
    cond = None
    for x in fn.body:
        if isinstance(x, ast.Assign) and len(x.targets) == 1 and src(x.targets[0]) == "self._add_time":
            if cond is not None:
                fail("__init__: self._add_time assigned twice", x)
            cond = x.value
    if cond is None:
        fail("__init__: self._add_time = ...", fn)

    def jc(e):
        if src(e) == "self.datefmt":
            return "JTruthy"
        if src(e) == "self.datefmtisNone":
            return "JIsNone"
        if src(e) == "self.datefmtisnotNone":
            return "(JNot JIsNone)"
        if isinstance(e, ast.BoolOp) and len(e.values) >= 2:
            op = "JOr" if isinstance(e.op, ast.Or) else "JAnd"
            t = jc(e.values[-1])
            for v in reversed(e.values[:-1]):
                t = "(%s %s %s)" % (op, jc(v), t)
            return t
        if isinstance(e, ast.UnaryOp) and isinstance(e.op, ast.Not):
            return "(JNot %s)" % jc(e.operand)
        fail("__init__: unsupported condition %s" % src(e), e)
    # the datefmt seen by the condition is the constructor's argument (Formatter.__init__ stores it unchanged)
    sup = [src(x) for x in fn.body if isinstance(x, ast.Expr) and "super().__init__" in src(x)]
    if sup != ["super().__init__(fmt=None,datefmt=datefmt,style='%')"]:
        fail("__init__: super().__init__(fmt=None, datefmt=datefmt, style='%')", fn)
    return "\n".join([
        "(* GENERATED on every run by py2coq from src/cobald/monitor/format_json.py -- do not edit *)",
        "From Coq Require Import List.", "From Cobald Require Import kit.JsonIR.", "Import ListNotations.", "",
        "Definition gen_json_steps : list jstep := [%s]." % "; ".join(steps),
        "Definition gen_add_time : jcond := %s." % jc(cond), ""])


UNITS = {"Gen_registry.v": gen_registry, "Gen_standardiser.v": gen_standardiser, "Gen_controllers.v": gen_controllers, "Gen_guard.v": gen_guard,
         "Gen_composite.v": gen_composite, "Gen_factory.v": gen_factory, "Gen_decorators.v": gen_decorators, "Gen_sections.v": gen_sections, "Gen_services.v": gen_services, "Gen_monitor.v": gen_monitor}


def regen(repo, gendir, names=None):
    """write the generated files (only when their text changed); returns {file: 'ok' | 'error text'}"""
    res = {}
    os.makedirs(gendir, exist_ok=True)
    for fn, f in UNITS.items():
        if names and fn not in names:
            continue
        p = os.path.join(gendir, fn)
        try:
            text = f(repo)
            res[fn] = "ok"
        except (TranslationError, OSError, SyntaxError) as e:
            text = "(* translation failed: %s *)\nDefinition translation_failed : bool := true.\n" % str(e).replace("*)", "* )")
            res[fn] = "translation failed: %s" % e
        old = open(p).read() if os.path.exists(p) else None
        if old != text:
            with open(p, "w") as fh:
                fh.write(text)
    return res
