#!/bin/sh
# Build the whole Coq development from files on disk (offline). Full .vo build, never -vos.
set -e
cd "$(dirname "$0")"
mkdir -p build evidence replays coq/gen
if [ -x tools/regen_all.sh ]; then tools/regen_all.sh || echo "regen failed (translator tie will be reported per check)"; fi
tools/mkcoqproject.sh
if grep -rnE '\b(Admitted|admit|Axiom|Parameter|Conjecture|bypass_check)\b|Unset +Guard' coq --include='*.v' | grep -v '(\*.*\*)' ; then
  echo "forbidden construct in development" >&2; exit 2
fi
timeout 3000 make -j16 -C coq 2>&1 | tail -40
echo "setup done"
