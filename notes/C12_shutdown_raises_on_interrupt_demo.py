"""C12: shutdown() called by a thread payload while an interrupt ends the runtime: before /repo 'fix: shutdown()
raised CancelledError ...' the call raised concurrent.futures.CancelledError instead of returning.
run: PYTHONPATH=/repo/src python this_file.py   (exit status 0 = shutdown() returned)"""
import os, signal, sys, threading, time
import trio
from cobald.daemon.runners.service import ServiceRunner

r = ServiceRunner(accept_delay=0.05)
out = []


async def slow_cleanup():
    try:
        await trio.sleep_forever()
    finally:
        with trio.CancelScope(shield=True):
            await trio.sleep(0.8)          # keeps the runtime closing for a while


async def sleeper():
    import asyncio
    try:
        await asyncio.sleep(3600)
    except asyncio.CancelledError:
        await asyncio.sleep(0.3)           # an asyncio payload that takes a moment to wind down
        raise


def stopper():
    r.running.wait()
    time.sleep(0.1)
    try:
        r.shutdown()
        out.append("returned")
    except BaseException as e:  # noqa
        out.append("raised %r" % (e,))


def interrupter():
    r.running.wait()
    time.sleep(0.2)
    os.kill(os.getpid(), signal.SIGINT)


r.adopt(slow_cleanup, flavour=trio)
r.adopt(stopper, flavour=threading)
import asyncio  # noqa: E402
r.adopt(sleeper, flavour=asyncio)
threading.Thread(target=interrupter, daemon=True).start()
r.accept()
time.sleep(0.2)
print("shutdown():", out)
sys.exit(0 if out == ["returned"] else 1)
