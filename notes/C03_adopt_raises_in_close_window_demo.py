import threading, time, asyncio, sys
from cobald.daemon.runners.service import ServiceRunner
from cobald.daemon.runners.meta_runner import MetaRunner
orig = MetaRunner._aclose_runners
window = threading.Event()
async def slow(self, tasks):
    await orig(self, tasks)
    window.set()
    time.sleep(0.3)      # the loop thread is preempted right here (a legal schedule, stretched)
MetaRunner._aclose_runners = slow
r = ServiceRunner(accept_delay=0.05)
out = []
def adopter():
    window.wait()
    for fl in (threading, asyncio):
        try:
            res = r.adopt(lambda: None, flavour=fl); out.append((fl.__name__, "ok", res))
        except BaseException as e:
            out.append((fl.__name__, "raised", repr(e)))
threading.Thread(target=adopter, daemon=True).start()
def bad():
    time.sleep(0.1); raise ValueError("boom")
r.adopt(bad, flavour=threading)
try:
    r.accept()
except RuntimeError as e:
    print("accept ended:", e)
time.sleep(0.2)
print(out)
