import time, trio, threading
from cobald.daemon import service

@service(flavour=trio)
class Slow(object):
    def __init__(self):
        time.sleep(0.4)          # e.g. probing a backend
        self.name = "x"
    async def run(self):
        print("run sees", self.name, flush=True)
        await trio.sleep_forever()

keep = Slow()
print("constructed", flush=True)
