import threading, traceback, functools
from cobald.daemon.runners.service import ServiceRunner
class Bad:
    def __repr__(self): raise RuntimeError("this object has no printable form")
def payload(x):
    return 5
r = ServiceRunner(accept_delay=0.05)
r.adopt(payload, Bad(), flavour=threading)
try:
    r.accept()
except RuntimeError as e:
    traceback.print_exception(e.__cause__)
