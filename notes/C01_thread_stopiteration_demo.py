"""C01: a thread payload raising StopIteration (e.g. next() on an exhausted iterator) must end the run by raising."""
import sys, threading, time
from cobald.daemon.runners.service import ServiceRunner
r = ServiceRunner(accept_delay=0.05)
def bad():
    time.sleep(0.2)
    next(iter(()))          # raises StopIteration
r.adopt(bad, flavour=threading)
out = []
def run():
    try:
        r.accept(); out.append("returned")
    except BaseException as e:
        out.append("raised %r <- %r" % (e, e.__cause__))
t = threading.Thread(target=run, daemon=True); t.start(); t.join(4)
print(out or "still running 4 s after the payload failed")
import os; sys.stdout.flush(); os._exit(0 if out and out[0].startswith("raised RuntimeError") else 1)
