(* Properties of the timed service model (C09): model/Services.v *)
From Coq Require Import ZArith QArith Qabs Qround List Bool Arith Lia Lqa Sorted.
From Cobald Require Import kit.QKit model.Controllers model.Services proofs.ControllersProofs.
Import ListNotations.
Open Scope Q_scope.

Lemma inject_nat_S : forall k, inject_Z (Z.of_nat (S k)) == inject_Z (Z.of_nat k) + 1.
Proof. intros k. rewrite Nat2Z.inj_succ. unfold Z.succ. rewrite inject_Z_plus. reflexivity. Qed.

Lemma inject_nat_nonneg : forall k, 0 <= inject_Z (Z.of_nat k).
Proof. intros k. change 0 with (inject_Z 0). rewrite <- Zle_Qle. lia. Qed.

Lemma inject_nat_le : forall a b, (a <= b)%nat -> inject_Z (Z.of_nat a) <= inject_Z (Z.of_nat b).
Proof. intros a b H. rewrite <- Zle_Qle. lia. Qed.

Lemma inject_nat_plus : forall a b, inject_Z (Z.of_nat (a + b)) == inject_Z (Z.of_nat a) + inject_Z (Z.of_nat b).
Proof. intros a b. rewrite Nat2Z.inj_add, inject_Z_plus. reflexivity. Qed.

Section Generic.
  Context {W A E : Type}.
  Variable env_apply : A -> W -> W.
  Variable act : bool -> W -> res (W * option (list E)).
  Variable t0 period : Q.
  Variable before : nat -> bool.
  Hypothesis period_pos : 0 < period.

  Notation wake_time := (wake_time t0 period).
  Notation ready := (ready before).
  Notation wakes := (wakes env_apply act t0 period before).
  Notation timeline := (timeline env_apply act t0 period before).
  Notation nwakes := (nwakes t0 period).

  (* ---- wake times ---- *)
  Lemma wake_time_0 : wake_time 0 == t0.
  Proof. unfold Services.wake_time. cbn. ring. Qed.

  Lemma wake_time_S : forall k, wake_time (S k) == wake_time k + period.
  Proof. intros k. unfold Services.wake_time. rewrite inject_nat_S. ring. Qed.

  Lemma wake_time_plus : forall k m, wake_time (k + m) == wake_time k + inject_Z (Z.of_nat m) * period.
  Proof. intros k m. unfold Services.wake_time. rewrite inject_nat_plus. ring. Qed.

  Lemma wake_time_mono : forall a b, (a <= b)%nat -> wake_time a <= wake_time b.
  Proof.
    intros a b H. unfold Services.wake_time. pose proof (inject_nat_le a b H) as Hi. nra.
  Qed.

  Lemma wake_time_lt : forall a b, (a < b)%nat -> wake_time a < wake_time b.
  Proof.
    intros a b H. assert (S a <= b)%nat as H' by lia. pose proof (wake_time_mono _ _ H') as Hm.
    rewrite wake_time_S in Hm. lra.
  Qed.

  (* the wake-ups simulated up to T are exactly those whose time is <= T *)
  Lemma nwakes_spec : forall T k, (k < nwakes T)%nat <-> wake_time k <= T.
  Proof.
    intros T k. unfold Services.nwakes. destruct (Qltb T t0) eqn:Eb; qcases.
    - split; [lia|]. intros H. pose proof (wake_time_mono 0 k (Nat.le_0_l k)) as Hm. rewrite wake_time_0 in Hm. lra.
    - set (x := (T - t0) / period).
      assert (Hx : x * period == T - t0) by (unfold x; field; lra).
      assert (0 <= x) as Hx0.
      { unfold x. apply Qle_shift_div_l; [exact period_pos|]. lra. }
      assert (0 <= Qfloor x)%Z as Hf0.
      { destruct (Z_le_gt_dec 0 (Qfloor x)) as [L|G]; [exact L|].
        exfalso. pose proof (Qlt_floor x) as Hl. assert (Qfloor x + 1 <= 0)%Z as Hz by lia.
        rewrite Zle_Qle in Hz. change (inject_Z 0) with 0 in Hz. lra. }
      unfold Services.wake_time. split; intros H.
      + assert (Z.of_nat k <= Qfloor x)%Z as Hk by lia. rewrite Zle_Qle in Hk.
        pose proof (Qfloor_le x) as Hfl. nra.
      + assert (inject_Z (Z.of_nat k) <= x) as Hkx.
        { apply Qmult_le_r with (z := period); [exact period_pos|]. lra. }
        assert (Z.of_nat k <= Qfloor x)%Z as Hk.
        { destruct (Z_le_gt_dec (Z.of_nat k) (Qfloor x)) as [L|G]; [exact L|]. exfalso.
          assert (Qfloor x + 1 <= Z.of_nat k)%Z as Hz by lia. rewrite Zle_Qle in Hz.
          pose proof (Qlt_floor x) as Hl. lra. }
        lia.
  Qed.

  Lemma nwakes_mono : forall a b, a <= b -> (nwakes a <= nwakes b)%nat.
  Proof.
    intros a b H. destruct (Nat.le_gt_cases (nwakes a) (nwakes b)) as [L|G]; [exact L|]. exfalso.
    assert (nwakes b < nwakes a)%nat as G' by lia. apply nwakes_spec in G'.
    assert (wake_time (nwakes b) <= b) as Hb by lra. apply nwakes_spec in Hb. lia.
  Qed.

  (* ---- the environment prefix that has happened ---- *)
  Lemma split_while_app : forall f (env : list (@eact A)),
    let (a, b) := split_while f env in env = a ++ b /\ forallb f a = true.
  Proof.
    intros f env. induction env as [|x r IH]; cbn [split_while]; [auto|].
    destruct (f x) eqn:Eb; [|auto]. destruct (split_while f r) as [a b]. destruct IH as [-> Hf].
    split; [reflexivity|]. cbn [forallb]. rewrite Eb, Hf. reflexivity.
  Qed.

  Lemma apply_all_app : forall (l1 l2 : list (@eact A)) w,
    apply_all env_apply (l1 ++ l2) w = apply_all env_apply l2 (apply_all env_apply l1 w).
  Proof. intros. unfold apply_all. apply fold_left_app. Qed.

  (* ---- composition: n + m wakes = n wakes, then m more ---- *)
  Lemma wakes_plus : forall n m k w env,
    let r := wakes n k w env in
    r_out r = Running ->
    let r' := wakes m (k + n) (r_world r) (r_rest r) in
    wakes (n + m) k w env = mkResult (r_world r') (r_rest r') (r_log r ++ r_log r') (r_out r').
  Proof.
    induction n as [|n IH]; intros m k w env r Hout r'.
    - subst r r'. cbn [Services.wakes r_world r_rest r_log app plus]. rewrite Nat.add_0_r.
      destruct (wakes m k w env); reflexivity.
    - subst r'. subst r. cbn [plus]. cbn [Services.wakes] in *.
      destruct (split_while (ready (wake_time k)) env) as [rdy rest].
      destruct (act (k =? 0)%nat (apply_all env_apply rdy w)) as [[w2 rc]|er]; [|discriminate Hout].
      cbn [r_out r_world r_rest r_log] in *.
      rewrite (IH m (S k) w2 rest Hout). cbn [r_out r_world r_rest r_log].
      replace (S k + n)%nat with (k + S n)%nat by lia.
      destruct rc; reflexivity.
  Qed.

  (* ---- periodicity ---- *)
  Variable Inv : W -> Prop.
  Variable env_ok : A -> Prop.
  Variable records : bool -> bool.        (* does the block at the first / a later wake leave a record *)
  Hypothesis env_keeps : forall a w, env_ok a -> Inv w -> Inv (env_apply a w).
  Hypothesis act_total : forall b w, Inv w ->
    exists w' rc, act b w = Ok (w', rc) /\ Inv w' /\ (match rc with Some _ => true | None => false end) = records b.

  Definition env_all_ok (env : list (@eact A)) : Prop := Forall (fun x => env_ok (ea_act x)) env.

  Lemma apply_all_inv : forall l w, env_all_ok l -> Inv w -> Inv (apply_all env_apply l w).
  Proof.
    induction l as [|x l IH]; intros w Hl Hw; [exact Hw|]. inversion Hl; subst.
    unfold apply_all. cbn [fold_left]. apply IH; [assumption|]. apply env_keeps; assumption.
  Qed.

  Lemma wakes_periodic : forall n k w env, Inv w -> env_all_ok env ->
    let r := wakes n k w env in
    r_out r = Running /\ Inv (r_world r) /\ env_all_ok (r_rest r)
    /\ map fst (r_log r) = map wake_time (filter (fun j => records (j =? 0)%nat) (seq k n)).
  Proof.
    induction n as [|n IH]; intros k w env Hw Henv; cbn [Services.wakes].
    - cbn. auto.
    - pose proof (split_while_app (ready (wake_time k)) env) as Hs.
      destruct (split_while (ready (wake_time k)) env) as [rdy rest]. destruct Hs as [-> _].
      unfold env_all_ok in Henv. apply Forall_app in Henv. destruct Henv as [H1 H2].
      destruct (act_total (k =? 0)%nat (apply_all env_apply rdy w)) as (w2 & rc & -> & Hw2 & Hrc);
        [apply apply_all_inv; assumption|].
      destruct (IH (S k) w2 rest Hw2 H2) as (Ho & Hi & Hr & Hl).
      cbn [r_out r_world r_rest r_log seq filter]. rewrite <- Hrc.
      split; [exact Ho|]. split; [exact Hi|]. split; [exact Hr|].
      destruct rc; cbn [map fst]; rewrite Hl; reflexivity.
  Qed.

  Lemma timeline_periodic : forall T w env, Inv w -> env_all_ok env ->
    let r := timeline T w env in
    r_out r = Running
    /\ map fst (r_log r) = map wake_time (filter (fun j => records (j =? 0)%nat) (seq 0 (nwakes T))).
  Proof.
    intros T w env Hw Henv. unfold Services.timeline.
    destruct (wakes_periodic (nwakes T) 0 w env Hw Henv) as (Ho & _ & _ & Hl).
    rewrite Ho. destruct (split_while (fun x => Qle_bool (ea_time x) T) (r_rest (wakes (nwakes T) 0 w env))).
    cbn [r_out r_log]. auto.
  Qed.
End Generic.

(* all times of a list `map wake_time (seq 0 n)` with n = nwakes T are <= T, and the next one is > T *)
Lemma wake_times_within : forall t0 period T k, 0 < period ->
  (In k (seq 0 (nwakes t0 period T)) <-> wake_time t0 period k <= T).
Proof.
  intros t0 period T k Hp. rewrite in_seq. rewrite <- (nwakes_spec t0 period Hp T k). lia.
Qed.

Lemma filter_true_seq : forall k n, filter (fun _ : nat => true) (seq k n) = seq k n.
Proof. intros. induction (seq k n) as [|x l IH]; cbn; [reflexivity|]. rewrite IH. reflexivity. Qed.

Lemma filter_nonzero_seq : forall n, filter (fun j => negb (j =? 0)%nat) (seq 0 n) = seq 1 (n - 1).
Proof.
  intros [|n]; [reflexivity|]. cbn [seq filter Nat.eqb negb]. replace (S n - 1)%nat with n by lia.
  assert (forall k m, (0 < k)%nat -> filter (fun j => negb (j =? 0)%nat) (seq k m) = seq k m) as H.
  { intros k m. revert k. induction m as [|m IH]; intros k Hk; cbn [seq filter]; [reflexivity|].
    destruct k; [lia|]. cbn [Nat.eqb negb]. rewrite IH by lia. reflexivity. }
  apply H. lia.
Qed.

(* ================================================================ controllers *)
Section Controllers.
  Variable sem : nat -> pool -> Q -> option Q.

  Definition nonneg_supply (p : pool) : Prop := 0 <= p_supply p.
  Definition penv_nonneg (a : penv) : Prop := match a with PState s _ _ => 0 <= s | PDemand _ => True end.

  (* which controllers never raise: all but Stepwise unconditionally; Stepwise on supplies >= 0 *)
  Definition ctrl_inv (c : ctrl) (p : pool) : Prop :=
    match c with CStepwise _ => nonneg_supply p | _ => True end.
  Definition ctrl_env_ok (c : ctrl) (a : penv) : Prop :=
    match c with CStepwise _ => penv_nonneg a | _ => True end.

  (* a controller as its constructor builds it *)
  Inductive built : ctrl -> Prop :=
  | built_linear : forall low high rate itv c, linear_init low high rate itv = Ok c -> built (CLinear c)
  | built_relative : forall low high ls hs itv c, relative_init low high ls hs itv = Ok c -> built (CRelative c)
  | built_stepwise : forall base rules itv c, stepwise_init base rules itv = Ok c -> built (CStepwise c)
  | built_switch : forall tags default items itv c, switch_init tags default items itv = Ok c -> built (CSwitch c).

  Lemma outcome_supply : forall p w, p_supply (outcome p w) = p_supply p.
  Proof. intros p [d|]; reflexivity. Qed.

  Lemma ctrl_env_keeps : forall c a p, ctrl_env_ok c a -> ctrl_inv c p -> ctrl_inv c (penv_apply a p).
  Proof. intros [c|c|c|c] [s u a|d] p H1 H2; cbn in *; auto. Qed.

  Lemma ctrl_act_total : forall c, built c -> forall b p, ctrl_inv c p ->
    exists p' rc, ctrl_act sem c b p = Ok (p', rc) /\ ctrl_inv c p'
                  /\ (match rc with Some _ => true | None => false end) = true.
  Proof.
    intros c Hb b p Hinv. unfold ctrl_act. destruct Hb as [low high rate itv c H|low high ls hs itv c H|base rules itv c H|tags default items itv c H].
    - cbn [regulate]. rewrite apply_write_eq. eexists; eexists; split; [reflexivity|]. cbn. auto.
    - cbn [regulate]. rewrite apply_write_eq. eexists; eexists; split; [reflexivity|]. cbn. auto.
    - cbn [ctrl_inv] in *. rewrite (stepwise_step sem base rules itv c p (ctrl_interval (CStepwise c)) H Hinv).
      eexists; eexists; split; [reflexivity|]. split; [|reflexivity]. unfold nonneg_supply. rewrite outcome_supply. exact Hinv.
    - cbn [regulate]. unfold switch_regulate. rewrite apply_write_eq. eexists; eexists; split; [reflexivity|]. cbn. auto.
  Qed.

  (* one regulation step immediately and then exactly one per interval, never raising *)
  Lemma ctrl_periodic : forall c t0 before T p env,
    built c -> 0 < ctrl_interval c -> ctrl_inv c p -> env_all_ok (ctrl_env_ok c) env ->
    let r := ctrl_timeline sem c t0 before T p env in
    r_out r = Running
    /\ map fst (r_log r) = map (wake_time t0 (ctrl_interval c)) (seq 0 (nwakes t0 (ctrl_interval c) T)).
  Proof.
    intros c t0 before T p env Hb Hpos Hinv Henv r. subst r. unfold ctrl_timeline.
    pose proof (timeline_periodic penv_apply (ctrl_act sem c) t0 (ctrl_interval c) before
                  (ctrl_inv c) (ctrl_env_ok c) (fun _ => true) (ctrl_env_keeps c) (ctrl_act_total c Hb) T p env Hinv Henv) as H.
    cbv zeta in H. rewrite filter_true_seq in H. exact H.
  Qed.

  (* the first record: a regulation step at t0 on the pool as the environment left it before t0 *)
  Lemma ctrl_first_step : forall c t0 before n p env,
    let rdy := fst (split_while (ready before (wake_time t0 (ctrl_interval c) 0)) env) in
    let p0 := apply_all penv_apply rdy p in
    forall p1 ef, regulate sem c p0 (ctrl_interval c) = Ok (p1, ef) ->
    exists rest, r_log (wakes penv_apply (ctrl_act sem c) t0 (ctrl_interval c) before (S n) 0 p env)
                 = (wake_time t0 (ctrl_interval c) 0, ef) :: rest.
  Proof.
    intros c t0 before n p env rdy p0 p1 ef Hreg. subst p0 rdy. cbn [Services.wakes].
    destruct (split_while (ready before (wake_time t0 (ctrl_interval c) 0)) env) as [rdy rest]. cbn [fst] in Hreg.
    unfold ctrl_act at 1. rewrite Hreg. cbn [r_log]. eexists. reflexivity.
  Qed.

  (* ---- LinearController: rate bound over time ---- *)
  Definition no_demand_write (a : penv) : Prop := match a with PDemand _ => False | _ => True end.

  Lemma apply_all_demand : forall (l : list (@eact penv)) p,
    env_all_ok no_demand_write l -> p_demand (apply_all penv_apply l p) = p_demand p.
  Proof.
    induction l as [|x l IH]; intros p H; [reflexivity|]. inversion H; subst. unfold apply_all in *. cbn [fold_left].
    rewrite IH by assumption. destruct (ea_act x); [reflexivity|contradiction].
  Qed.

  Section Linear.
    Variables (low high rate itv : Q) (c : linear).
    Hypothesis Hinit : linear_init low high rate itv = Ok c.
    Variable t0 : Q.
    Variable before : nat -> bool.
    Hypothesis Hpos : 0 < l_interval c.

    Notation lwakes := (wakes penv_apply (ctrl_act sem (CLinear c)) t0 (l_interval c) before).

    Lemma linear_wakes_bound : forall n k p env, env_all_ok no_demand_write env ->
      let r := lwakes n k p env in
      r_out r = Running /\ env_all_ok no_demand_write (r_rest r)
      /\ Qabs (p_demand (r_world r) - p_demand p) <= l_rate c * (inject_Z (Z.of_nat n) * l_interval c).
    Proof.
      induction n as [|n IH]; intros k p env Henv; cbn [Services.wakes].
      - cbn [r_out r_rest r_world]. split; [reflexivity|]. split; [exact Henv|].
        apply Qabs_le_iff. change (inject_Z (Z.of_nat 0)) with 0. split; lra.
      - pose proof (split_while_app (ready before (wake_time t0 (l_interval c) k)) env) as Hs.
        destruct (split_while (ready before (wake_time t0 (l_interval c) k)) env) as [rdy rest]. destruct Hs as [-> _].
        unfold env_all_ok in Henv. apply Forall_app in Henv. destruct Henv as [H1 H2].
        set (p0 := apply_all penv_apply rdy p).
        assert (0 <= l_interval c) as Hnn by lra.
        destruct (linear_step sem low high rate itv c p0 (l_interval c) Hinit Hnn) as (p1 & ef & Hreg & Hspec).
        assert (ctrl_act sem (CLinear c) (k =? 0)%nat p0 = Ok (p1, Some ef)) as Hact.
        { unfold ctrl_act. cbn [ctrl_interval]. rewrite Hreg. reflexivity. }
        cbv zeta. rewrite Hact.
        destruct (IH (S k) p1 rest H2) as (Ho & Hr & Hb). cbn [r_out r_rest r_world].
        split; [exact Ho|]. split; [exact Hr|].
        destruct Hspec as (Hb1 & _). assert (p_demand p0 = p_demand p) as Hd by (apply apply_all_demand; exact H1).
        rewrite Hd in Hb1. rewrite inject_nat_S.
        apply Qabs_le_iff in Hb. apply Qabs_le_iff in Hb1. apply Qabs_le_iff. lra.
    Qed.

    Definition demand_at (T : Q) (p : pool) (env : list (@eact penv)) : Q :=
      p_demand (r_world (ctrl_timeline sem (CLinear c) t0 before T p env)).

    Lemma demand_at_wakes : forall T p env, env_all_ok no_demand_write env ->
      demand_at T p env = p_demand (r_world (lwakes (nwakes t0 (l_interval c) T) 0 p env)).
    Proof.
      intros T p env Henv. unfold demand_at, ctrl_timeline, Services.timeline. cbn [ctrl_interval].
      destruct (linear_wakes_bound (nwakes t0 (l_interval c) T) 0 p env Henv) as (Ho & Hr & _).
      rewrite Ho.
      pose proof (split_while_app (fun x => Qle_bool (ea_time x) T) (r_rest (lwakes (nwakes t0 (l_interval c) T) 0 p env))) as Hs.
      destruct (split_while (fun x => Qle_bool (ea_time x) T) (r_rest (lwakes (nwakes t0 (l_interval c) T) 0 p env))) as [rdy rest].
      destruct Hs as [Hs _]. cbn [r_world]. apply apply_all_demand. rewrite Hs in Hr.
      unfold env_all_ok in Hr. apply Forall_app in Hr. apply Hr.
    Qed.

    (* over any time span [a, b], if nobody else writes the demand *)
    Lemma linear_rate_bound : forall a b p env, a <= b -> env_all_ok no_demand_write env ->
      Qabs (demand_at b p env - demand_at a p env) <= l_rate c * ((b - a) + l_interval c).
    Proof.
      intros a b p env Hab Henv. rewrite !demand_at_wakes by exact Henv.
      set (na := nwakes t0 (l_interval c) a). set (nb := nwakes t0 (l_interval c) b).
      assert (na <= nb)%nat as Hn by (apply nwakes_mono; assumption).
      replace nb with (na + (nb - na))%nat by lia.
      destruct (linear_wakes_bound na 0 p env Henv) as (Ho & Hr & _).
      rewrite (wakes_plus penv_apply (ctrl_act sem (CLinear c)) t0 (l_interval c) before na (nb - na) 0 p env Ho).
      cbn [r_world].
      destruct (linear_wakes_bound (nb - na) (0 + na) (r_world (lwakes na 0 p env)) (r_rest (lwakes na 0 p env)) Hr) as (_ & _ & Hb).
      eapply Qle_trans; [exact Hb|].
      apply linear_init_ok in Hinit. destruct Hinit as (Hrate & _ & Hc). assert (l_rate c = rate) as -> by (rewrite Hc; reflexivity).
      assert (inject_Z (Z.of_nat (nb - na)) * l_interval c <= (b - a) + l_interval c) as Hm.
      { destruct (Nat.eq_dec nb na) as [E|E].
        - rewrite E, Nat.sub_diag. change (inject_Z (Z.of_nat 0)) with 0. lra.
        - assert (nb - 1 < nb)%nat as H1 by lia. apply (nwakes_spec t0 (l_interval c) Hpos b) in H1.
          assert (~ wake_time t0 (l_interval c) na <= a) as H2.
          { intros HH. apply (nwakes_spec t0 (l_interval c) Hpos a) in HH. fold na in HH. lia. }
          assert (a < wake_time t0 (l_interval c) na) as H3 by (destruct (Qlt_le_dec a (wake_time t0 (l_interval c) na)); [assumption|contradiction]).
          replace (nb - 1)%nat with (na + (nb - 1 - na))%nat in H1 by lia.
          rewrite wake_time_plus in H1.
          replace (nb - na)%nat with (S (nb - 1 - na)) by lia. rewrite inject_nat_S. lra. }
      nra.
    Qed.
  End Linear.
End Controllers.

(* ================================================================ Buffer *)
Section Buffer.
  Variable window t0 : Q.
  Variable before : nat -> bool.
  Hypothesis Hpos : 0 < window.

  Notation bwakes := (wakes benv_apply buffer_act t0 window before).
  Notation wt := (wake_time t0 window).

  Lemma buffer_act_total : forall b w, True ->
    exists w' rc, buffer_act b w = Ok (w', rc) /\ True /\ (match rc with Some _ => true | None => false end) = true.
  Proof.
    intros b w _. unfold buffer_act. destruct (Qeqb (b_demand w) (p_demand (b_target w)));
      eexists; eexists; split; try reflexivity; auto.
  Qed.

  (* the Buffer acts exactly at the window boundaries t0 + k*window <= T, never raises, and forwards
     nothing in between (there is no other record) *)
  Lemma buffer_periodic : forall T p env,
    let r := buffer_timeline window t0 before T p env in
    r_out r = Running /\ map fst (r_log r) = map wt (seq 0 (nwakes t0 window T)).
  Proof.
    intros T p env. unfold buffer_timeline.
    pose proof (timeline_periodic benv_apply buffer_act t0 window before (fun _ => True) (fun _ => True) (fun _ => true)
                  (fun _ _ _ _ => I) buffer_act_total T (buffer_init p) env I) as H.
    cbv zeta in H. rewrite filter_true_seq in H. apply H.
    unfold env_all_ok. apply Forall_forall. auto.
  Qed.

  Lemma buffer_log_only_at_boundaries : forall T p env t ef,
    In (t, ef) (r_log (buffer_timeline window t0 before T p env)) ->
    exists k, t = wt k /\ wt k <= T.
  Proof.
    intros T p env t ef Hin. destruct (buffer_periodic T p env) as [_ Hl].
    assert (In t (map fst (r_log (buffer_timeline window t0 before T p env)))) as Ht.
    { apply in_map_iff. exists (t, ef). auto. }
    rewrite Hl in Ht. apply in_map_iff in Ht. destruct Ht as (k & <- & Hk). exists k. split; [reflexivity|].
    apply (wake_times_within t0 window T k Hpos). exact Hk.
  Qed.

  (* the value most recently written to the buffer among a list of environment actions *)
  Definition last_bwrite (l : list (@eact benv)) (d0 : Q) : Q :=
    fold_left (fun d x => match ea_act x with BWrite v => v | BTarget _ => d end) l d0.

  Lemma apply_all_bdemand : forall l w, b_demand (apply_all benv_apply l w) = last_bwrite l (b_demand w).
  Proof.
    induction l as [|x l IH]; intros w; [reflexivity|]. unfold apply_all, last_bwrite in *. cbn [fold_left].
    rewrite IH. destruct (ea_act x); reflexivity.
  Qed.

  Lemma last_bwrite_app : forall l1 l2 d, last_bwrite (l1 ++ l2) d = last_bwrite l2 (last_bwrite l1 d).
  Proof. intros. unfold last_bwrite. apply fold_left_app. Qed.

  Lemma buffer_act_flushes : forall b w w' rc, buffer_act b w = Ok (w', rc) ->
    b_demand w' = b_demand w /\ p_demand (b_target w') == b_demand w'.
  Proof.
    intros b w w' rc H. unfold buffer_act in H. destruct (Qeqb (b_demand w) (p_demand (b_target w))) eqn:E; qcases;
      injection H as <- <-; cbn; split; try reflexivity. symmetry. exact E.
  Qed.

  (* right after the last of n >= 1 wakes: the target's demand equals the buffer's demand, which is the
     last value written among the environment actions that have happened (a prefix of env) *)
  Lemma buffer_after_wakes : forall n k w env,
    let r := bwakes (S n) k w env in
    r_out r = Running
    /\ p_demand (b_target (r_world r)) == b_demand (r_world r)
    /\ exists pre, env = pre ++ r_rest r /\ b_demand (r_world r) = last_bwrite pre (b_demand w).
  Proof.
    induction n as [|n IH]; intros k w env; cbn [Services.wakes].
    - pose proof (split_while_app (ready before (wt k)) env) as Hs.
      destruct (split_while (ready before (wt k)) env) as [rdy rest]. destruct Hs as [-> _].
      destruct (buffer_act_total (k =? 0)%nat (apply_all benv_apply rdy w) I) as (w2 & rc & Hact & _).
      rewrite Hact. cbn [r_out r_world r_rest]. destruct (buffer_act_flushes _ _ _ _ Hact) as [Hd Hf].
      split; [reflexivity|]. split; [exact Hf|]. exists rdy. split; [reflexivity|].
      rewrite Hd. apply apply_all_bdemand.
    - pose proof (split_while_app (ready before (wt k)) env) as Hs.
      destruct (split_while (ready before (wt k)) env) as [rdy rest]. destruct Hs as [-> _].
      destruct (buffer_act_total (k =? 0)%nat (apply_all benv_apply rdy w) I) as (w2 & rc & Hact & _).
      rewrite Hact. destruct (buffer_act_flushes _ _ _ _ Hact) as [Hd _].
      specialize (IH (S k) w2 rest). cbn [Services.wakes] in IH. cbv zeta in IH.
      destruct IH as (Ho & Hf & pre & Hpre & Hlast).
      cbn [r_out r_world r_rest]. split; [exact Ho|]. split; [exact Hf|].
      exists (rdy ++ pre). split; [rewrite <- app_assoc; f_equal; exact Hpre|].
      rewrite Hlast, Hd, apply_all_bdemand, last_bwrite_app. reflexivity.
  Qed.

  (* ---- which actions have happened: for a time-ordered environment, exactly those ready at the
          time of the last wake ---- *)
  Definition eact_order (x y : @eact benv) : Prop :=
    ea_time x < ea_time y \/ (ea_time x == ea_time y /\ ea_group x = ea_group y).
  Definition ordered (env : list (@eact benv)) : Prop := StronglySorted eact_order env.

  Lemma ready_closed : forall t x y, eact_order x y -> ready before t y = true -> ready before t x = true.
  Proof.
    intros t x y Ho H. unfold ready in *. apply orb_true_iff in H. apply orb_true_iff.
    destruct Ho as [Hlt|[Heq Hg]].
    - left. apply Qltb_lt. destruct H as [H|H]; [apply Qltb_lt in H; lra|].
      apply andb_prop in H. destruct H as [H _]. apply Qeqb_eq in H. lra.
    - destruct H as [H|H]; [left; apply Qltb_lt; apply Qltb_lt in H; lra|].
      apply andb_prop in H. destruct H as [H1 H2]. right. apply andb_true_intro. split.
      + apply Qeqb_eq. apply Qeqb_eq in H1. lra.
      + rewrite Hg. exact H2.
  Qed.

  Lemma ready_mono : forall t t' (x : @eact benv), t < t' -> ready before t x = true -> ready before t' x = true.
  Proof.
    intros t t' x Hlt H. unfold ready in *. apply orb_true_iff in H. apply orb_true_iff. left. apply Qltb_lt.
    destruct H as [H|H]; [apply Qltb_lt in H; lra|]. apply andb_prop in H. destruct H as [H _]. apply Qeqb_eq in H. lra.
  Qed.

  Lemma filter_none : forall (f : @eact benv -> bool) l, (forall y, In y l -> f y = false) ->
    filter f l = [] /\ filter (fun x => negb (f x)) l = l.
  Proof.
    intros f l. induction l as [|y l IH]; intros H; [split; reflexivity|]. cbn [filter].
    rewrite (H y (or_introl eq_refl)). cbn [negb]. destruct IH as [-> ->]; [intros z Hz; apply H; right; exact Hz|].
    split; reflexivity.
  Qed.

  Lemma split_while_filter : forall t env, ordered env ->
    split_while (ready before t) env = (filter (ready before t) env, filter (fun x => negb (ready before t x)) env).
  Proof.
    intros t env Ho. induction Ho as [|x l Hs IH Hall]; [reflexivity|]. cbn [split_while filter].
    destruct (ready before t x) eqn:Ex; cbn [negb].
    - rewrite IH. reflexivity.
    - rewrite Forall_forall in Hall.
      destruct (filter_none (ready before t) l) as [-> ->]; [|reflexivity].
      intros y Hy. destruct (ready before t y) eqn:Ey; [|reflexivity].
      rewrite (ready_closed t x y (Hall y Hy) Ey) in Ex. discriminate.
  Qed.

  Lemma filter_ordered : forall f env, ordered env -> ordered (filter f env).
  Proof.
    intros f env Ho. induction Ho as [|x l Hs IH Hall]; [constructor|]. cbn [filter].
    destruct (f x); [|exact IH]. constructor; [exact IH|]. rewrite Forall_forall in *.
    intros y Hy. apply filter_In in Hy. apply Hall. apply Hy.
  Qed.

  Lemma buffer_rest_is_filter : forall n k w env, ordered env ->
    r_rest (bwakes (S n) k w env) = filter (fun x => negb (ready before (wt (k + n)) x)) env.
  Proof.
    induction n as [|n IH]; intros k w env Ho; cbn [Services.wakes].
    - rewrite (split_while_filter (wt k) env Ho).
      destruct (buffer_act_total (k =? 0)%nat (apply_all benv_apply (filter (ready before (wt k)) env) w) I) as (w2 & rc & -> & _).
      cbn [r_rest]. rewrite Nat.add_0_r. reflexivity.
    - rewrite (split_while_filter (wt k) env Ho).
      destruct (buffer_act_total (k =? 0)%nat (apply_all benv_apply (filter (ready before (wt k)) env) w) I) as (w2 & rc & -> & _).
      cbn [r_rest]. specialize (IH (S k) w2 (filter (fun x => negb (ready before (wt k) x)) env) (filter_ordered _ _ Ho)).
      cbn [Services.wakes] in IH. rewrite IH. replace (S k + n)%nat with (k + S n)%nat by lia.
      clear IH. induction env as [|x l IHl]; [reflexivity|]. cbn [filter].
      assert (ordered l) as Hl by (inversion Ho; assumption).
      destruct (ready before (wt k) x) eqn:E1; cbn [negb filter].
      + assert (ready before (wt (k + S n)) x = true) as ->.
        { apply (ready_mono (wt k)); [apply wake_time_lt; [exact Hpos|lia]|exact E1]. }
        cbn [negb]. apply IHl. exact Hl.
      + destruct (ready before (wt (k + S n)) x); cbn [negb]; [apply IHl; exact Hl|]. f_equal. apply IHl. exact Hl.
  Qed.
  Lemma ordered_partition : forall t env, ordered env ->
    env = filter (ready before t) env ++ filter (fun x => negb (ready before t x)) env.
  Proof.
    intros t env Ho. pose proof (split_while_app (ready before t) env) as H.
    rewrite (split_while_filter t env Ho) in H. apply H.
  Qed.

  (* at every window boundary k: right after it, the target's demand is the value most recently
     written to the buffer among the writes that happened before the boundary (for writes exactly at
     the boundary time: those that trio ran first), or the initial demand if there was none *)
  Lemma buffer_boundary : forall k p env, ordered env ->
    let r := bwakes (S k) 0 (buffer_init p) env in
    r_out r = Running
    /\ p_demand (b_target (r_world r)) == last_bwrite (filter (ready before (wt k)) env) (p_demand p)
    /\ b_demand (r_world r) = last_bwrite (filter (ready before (wt k)) env) (p_demand p).
  Proof.
    intros k p env Ho r. subst r.
    destruct (buffer_after_wakes k 0 (buffer_init p) env) as (Hout & Hf & pre & Hpre & Hlast).
    pose proof (buffer_rest_is_filter k 0 (buffer_init p) env Ho) as Hrest. cbn [plus] in Hrest.
    rewrite Hrest in Hpre. pose proof (ordered_partition (wt k) env Ho) as Hpart.
    rewrite Hpart in Hpre at 1. apply app_inv_tail in Hpre. subst pre.
    split; [exact Hout|]. cbn [buffer_init b_demand] in Hlast. rewrite Hf, Hlast. split; reflexivity.
  Qed.
End Buffer.

(* ================================================================ FactoryPool *)
Section Factory.
  Variable q interval t0 : Q.
  Variable before : nat -> bool.
  Hypothesis Hpos : 0 < interval.
  Hypothesis Hq : 0 < q.

  Lemma factory_act_total : forall b w, True ->
    exists w' rc, factory_act q b w = Ok (w', rc) /\ True
                  /\ (match rc with Some _ => true | None => false end) = negb b.
  Proof. intros [|] w _; cbn [factory_act]; eexists; eexists; split; try reflexivity; auto. Qed.

  (* adjustments happen at t0 + (k+1)*interval <= T, once each; never at t0; never raises *)
  Lemma factory_periodic : forall T w env,
    let r := factory_timeline q interval t0 before T w env in
    r_out r = Running
    /\ map fst (r_log r) = map (wake_time t0 interval) (seq 1 (nwakes t0 interval T - 1)).
  Proof.
    intros T w env. unfold factory_timeline.
    pose proof (timeline_periodic fenv_apply (factory_act q) t0 interval before (fun _ => True) (fun _ => True) negb
                  (fun _ _ _ _ => I) factory_act_total T w env I) as H.
    cbv zeta in H. rewrite filter_nonzero_seq in H. apply H.
    unfold env_all_ok. apply Forall_forall. auto.
  Qed.

  (* one adjustment spawns the least number of children that covers the missing demand *)
  Lemma spawn_count_covers : forall missing, 0 < missing ->
    let n := inject_Z (Z.of_nat (spawn_count q missing)) in
    missing <= n * q /\ (n - 1) * q < missing.
  Proof.
    intros missing Hm n. subst n. unfold spawn_count. apply Qltb_lt in Hm. rewrite Hm. apply Qltb_lt in Hm.
    set (x := missing / q). assert (x * q == missing) as Hx by (unfold x; field; lra).
    assert (0 < x) as Hx0 by (unfold x; apply Qlt_shift_div_l; lra).
    assert (0 <= Qceiling x)%Z as Hc.
    { destruct (Z_le_gt_dec 0 (Qceiling x)) as [L|G]; [exact L|]. exfalso.
      pose proof (Qle_ceiling x) as Hl. assert (Qceiling x <= 0)%Z as Hz by lia. rewrite Zle_Qle in Hz.
      change (inject_Z 0) with 0 in Hz. lra. }
    rewrite Z2Nat.id by exact Hc. pose proof (Qle_ceiling x) as H1. pose proof (Qceiling_lt x) as H2.
    assert (inject_Z (Qceiling x - 1) == inject_Z (Qceiling x) - 1) as He by (unfold Z.sub; rewrite inject_Z_plus; reflexivity).
    rewrite He in H2. split; nra.
  Qed.

  Lemma spawn_count_zero : forall missing, missing <= 0 -> spawn_count q missing = O.
  Proof.
    intros missing Hm. unfold spawn_count. destruct (Qltb 0 missing) eqn:Eb; [apply Qltb_lt in Eb; lra|reflexivity].
  Qed.
End Factory.
