(* Concrete oracles and trees used by the non-vacuity examples of props/C19.v. *)
From Coq Require Import ZArith NArith List Bool.
From Cobald Require Import model.Mapping.
Import ListNotations.

Definition n_R : str := [82]%N.          (* "R": a recording class *)
Definition n_S : str := [83]%N.          (* "S": a factory that raises *)
Definition n_M : str := [77]%N.          (* "M": resolves to a module *)
Definition k_a : str := [97]%N.
Definition k_b : str := [98]%N.
Definition k_x : str := [120]%N.

Definition ex_resolve (name : str) : rres :=
  if str_eqb name n_R then RCallable 0%N
  else if str_eqb name n_S then RCallable 1%N
  else if str_eqb name n_M then RNotCallable
  else RNoSuch.

Definition ex_apply (f : fid) (args : list value) (kw : list (str * value)) : fres :=
  if N.eqb f 0 then FRet (VObj f args kw) else FRaise (PExc (ExUser 1)).

Definition ty (name : str) : str * tree := (s_type, Leaf (SStr name)).

(* {"a": [{"__type__": "R", "x": 1}, {"__args__": [{"__type__": "R"}, 2], "__type__": "R"}],
    "b": {"x": {"__type__": NAME}, "__type__": "R"}} *)
Definition ex_tree (name : str) : tree :=
  TMap [ (k_a, TList [ TMap [ty n_R; (k_x, Leaf (SInt 1))];
                       TMap [(s_args, TList [TMap [ty n_R]; Leaf (SInt 2)]); ty n_R] ]);
         (k_b, TMap [ (k_x, TMap [ty name]); ty n_R ]) ].

Definition ex_plain : tree :=
  TMap [ (k_a, TList [Leaf (SInt 1); Leaf SNone; TList []]); (k_b, TMap [(k_x, Leaf (SStr n_R))]) ].
