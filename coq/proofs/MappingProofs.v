(* Proofs for C19: model/Mapping.v `translate` refines the specification (eval_spec,
   post_order_calls, first_failure, path_of) for ALL finite trees, by structural induction with a
   hand-written induction principle for the nested type. *)
From Coq Require Import ZArith NArith List Bool Arith Lia.
From Cobald Require Import model.Mapping.
Import ListNotations.

(* ------------------------------------------------------------------ strings *)
Lemma str_eqb_eq : forall a b, str_eqb a b = true <-> a = b.
Proof.
  induction a as [|x a IH]; destruct b as [|y b]; cbn; split; intros H; try easy.
  - apply andb_true_iff in H as [H1 H2]. apply N.eqb_eq in H1. apply IH in H2. congruence.
  - injection H as -> ->. rewrite N.eqb_refl. apply IH. reflexivity.
Qed.

Lemma str_eqb_refl : forall a, str_eqb a a = true.
Proof. intros a. apply str_eqb_eq. reflexivity. Qed.

Lemma str_eqb_neq : forall a b, str_eqb a b = false <-> a <> b.
Proof.
  intros a b. split.
  - intros H E. apply str_eqb_eq in E. congruence.
  - intros H. destruct (str_eqb a b) eqn:E; [|reflexivity]. apply str_eqb_eq in E. contradiction.
Qed.

Lemma str_eqb_sym : forall a b, str_eqb a b = str_eqb b a.
Proof.
  intros a b. destruct (str_eqb a b) eqn:E.
  - apply str_eqb_eq in E. subst. symmetry. apply str_eqb_refl.
  - symmetry. apply str_eqb_neq. apply str_eqb_neq in E. congruence.
Qed.

(* ------------------------------------------------------------------ induction principle *)
Section TreeInd.
  Variable P : tree -> Prop.
  Hypothesis Hleaf : forall s, P (Leaf s).
  Hypothesis Hlist : forall l, Forall P l -> P (TList l).
  Hypothesis Hmap : forall m, Forall (fun kv => P (snd kv)) m -> P (TMap m).

  Fixpoint tree_ind2 (t : tree) : P t :=
    match t with
    | Leaf s => Hleaf s
    | TList l =>
        Hlist l ((fix go (l : list tree) : Forall P l :=
                    match l with
                    | [] => Forall_nil _
                    | x :: r => Forall_cons x (tree_ind2 x) (go r)
                    end) l)
    | TMap m =>
        Hmap m ((fix go (m : list (str * tree)) : Forall (fun kv => P (snd kv)) m :=
                   match m with
                   | [] => Forall_nil _
                   | kv :: r => Forall_cons kv (tree_ind2 (snd kv)) (go r)
                   end) m)
    end.
End TreeInd.

(* ------------------------------------------------------------------ list helpers *)
Section ListHelpers.
  Context {A B : Type}.

  Lemma filter_map_app : forall (f : A -> option B) l1 l2,
    filter_map f (l1 ++ l2) = filter_map f l1 ++ filter_map f l2.
  Proof.
    intros f l1 l2. induction l1 as [|a l1 IH]; cbn; [reflexivity|].
    destruct (f a); cbn; rewrite IH; reflexivity.
  Qed.

  Lemma filter_map_ext : forall (f g : A -> option B) l,
    (forall a, f a = g a) -> filter_map f l = filter_map g l.
  Proof.
    intros f g l H. induction l as [|a l IH]; cbn; [reflexivity|]. rewrite H, IH. reflexivity.
  Qed.

  Lemma find_map_app_none : forall (f : A -> option B) l1 l2,
    find_map f l1 = None -> find_map f (l1 ++ l2) = find_map f l2.
  Proof.
    intros f l1 l2. induction l1 as [|a l1 IH]; cbn; [reflexivity|].
    destruct (f a); [discriminate|]. exact IH.
  Qed.

  Lemma find_map_app_some : forall (f : A -> option B) l1 l2 x,
    find_map f l1 = Some x -> find_map f (l1 ++ l2) = Some x.
  Proof.
    intros f l1 l2 x. induction l1 as [|a l1 IH]; cbn; [discriminate|].
    destruct (f a); [trivial|]. exact IH.
  Qed.

  Lemma take_until_app_none : forall (f : A -> option B) l1 l2,
    find_map f l1 = None -> take_until f (l1 ++ l2) = l1 ++ take_until f l2.
  Proof.
    intros f l1 l2. induction l1 as [|a l1 IH]; cbn; [reflexivity|].
    destruct (f a); [discriminate|]. intros H. rewrite (IH H). reflexivity.
  Qed.

  Lemma take_until_app_some : forall (f : A -> option B) l1 l2 x,
    find_map f l1 = Some x -> take_until f (l1 ++ l2) = take_until f l1.
  Proof.
    intros f l1 l2 x. induction l1 as [|a l1 IH]; cbn; [discriminate|].
    destruct (f a); [reflexivity|]. intros H. rewrite (IH H). reflexivity.
  Qed.

  Lemma take_until_none : forall (f : A -> option B) l,
    find_map f l = None -> take_until f l = l.
  Proof.
    intros f l. induction l as [|a l IH]; cbn; [reflexivity|].
    destruct (f a); [discriminate|]. intros H. rewrite (IH H). reflexivity.
  Qed.

  Lemma find_map_none_iff : forall (f : A -> option B) l,
    find_map f l = None <-> (forall a, In a l -> f a = None).
  Proof.
    intros f l. induction l as [|a l IH]; cbn.
    - split; [intros _ a []|reflexivity].
    - destruct (f a) eqn:E.
      + split; [discriminate|]. intros H. specialize (H a (or_introl eq_refl)). congruence.
      + rewrite IH. split.
        * intros H b [<-|Hb]; [exact E|apply H, Hb].
        * intros H b Hb. apply H. right. exact Hb.
  Qed.
End ListHelpers.

Section ListHelpers2.
  Context {A A' B : Type}.
  Lemma filter_map_map : forall (h : A' -> A) (f : A -> option B) l,
    filter_map f (map h l) = filter_map (fun a => f (h a)) l.
  Proof.
    intros h f l. induction l as [|a l IH]; cbn; [reflexivity|]. rewrite IH. reflexivity.
  Qed.

  Lemma find_map_map : forall (h : A' -> A) (f : A -> option B) l,
    find_map f (map h l)
    = match find_map (fun a => f (h a)) l with Some (a, b) => Some (h a, b) | None => None end.
  Proof.
    intros h f l. induction l as [|a l IH]; cbn; [reflexivity|].
    destruct (f (h a)); [reflexivity|]. exact IH.
  Qed.

  Lemma take_until_map : forall (h : A' -> A) (f : A -> option B) l,
    take_until f (map h l) = map h (take_until (fun a => f (h a)) l).
  Proof.
    intros h f l. induction l as [|a l IH]; cbn; [reflexivity|].
    destruct (f (h a)); cbn; [reflexivity|]. rewrite IH. reflexivity.
  Qed.
End ListHelpers2.

Lemma find_map_ext : forall {A B} (f g : A -> option B) l,
  (forall a, f a = g a) -> find_map f l = find_map g l.
Proof.
  intros A B f g l H. induction l as [|a l IH]; cbn; [reflexivity|]. rewrite H, IH. reflexivity.
Qed.

Lemma take_until_ext : forall {A B} (f g : A -> option B) l,
  (forall a, f a = g a) -> take_until f l = take_until g l.
Proof.
  intros A B f g l H. induction l as [|a l IH]; cbn; [reflexivity|]. rewrite H, IH. reflexivity.
Qed.

(* ------------------------------------------------------------------ dictionaries *)
Section DictLemmas.
  Context {A : Type}.

  Lemma lookup_remove_other : forall k k' (m : list (str * A)),
    str_eqb k' k = false -> lookup k (remove k' m) = lookup k m.
  Proof.
    intros k k' m H. induction m as [|[k0 v] m IH]; cbn; [reflexivity|].
    destruct (str_eqb k' k0) eqn:E; cbn.
    - apply str_eqb_eq in E. subst k0. rewrite str_eqb_sym, H. exact IH.
    - destruct (str_eqb k k0); [reflexivity|exact IH].
  Qed.

  Lemma remove_remove_filter : forall (m : list (str * A)),
    remove s_args (remove s_type m) = filter (fun kv => negb (is_special (fst kv))) m.
  Proof.
    intros m. unfold remove, is_special. induction m as [|[k v] m IH]; [reflexivity|].
    cbn [filter fst].
    destruct (str_eqb s_type k); cbn [negb orb filter fst]; [exact IH|].
    destruct (str_eqb s_args k); cbn [negb orb filter fst]; [exact IH|]. rewrite IH. reflexivity.
  Qed.

  Lemma has_key_lookup : forall k (m : list (str * A)),
    has_key k m = true <-> exists v, lookup k m = Some v.
  Proof.
    intros k m. unfold has_key. induction m as [|[k0 v] m IH]; cbn.
    - split; [discriminate|intros [v H]; discriminate].
    - destruct (str_eqb k k0); cbn; [split; eauto|exact IH].
  Qed.

  Lemma lookup_in_nodup : forall k v (m : list (str * A)),
    nodup_keys (keys m) = true -> In (k, v) m -> lookup k m = Some v.
  Proof.
    intros k v m. induction m as [|[k0 v0] m IH]; cbn; [intros _ []|].
    intros H [E|Hin].
    - injection E as -> ->. rewrite str_eqb_refl. reflexivity.
    - apply andb_true_iff in H as [H1 H2].
      destruct (str_eqb k k0) eqn:E.
      + apply str_eqb_eq in E. subst k0. exfalso.
        apply negb_true_iff in H1.
        assert (existsb (str_eqb k) (keys m) = true) as Hx.
        { apply existsb_exists. exists k. split; [|apply str_eqb_refl].
          unfold keys. change k with (fst (k, v)). apply in_map. exact Hin. }
        unfold keys in *. congruence.
      + apply IH; assumption.
  Qed.
End DictLemmas.

(* ------------------------------------------------------------------ main development *)
Section Proofs.
  Variable resolve : str -> rres.
  Variable apply : fid -> list value -> list (str * value) -> fres.

  Notation translate := (translate resolve apply).
  Notation construct := (construct resolve apply).
  Notation eval_spec := (eval_spec resolve apply).
  Notation eval_items := (eval_items resolve apply).
  Notation node_spec := (node_spec resolve).
  Notation node_at := (node_at resolve apply).
  Notation call_of := (call_of resolve apply).
  Notation failure_at := (failure_at resolve apply).
  Notation do_call := (do_call apply).
  Notation post_order_calls := (post_order_calls resolve apply).
  Notation first_failure := (first_failure resolve apply).
  Notation reached := (reached resolve apply).

  (* ---------- wrap / report ---------- *)
  Lemma wrap_err : forall A w e, @wrap A w (Err e) = Err (report e w).
  Proof. intros A w e. destruct e as [wh [l|]|x|n]; reflexivity. Qed.

  Lemma wrap_report_stable : forall A w e x, @wrap A w (Err (report e x)) = Err (report e x).
  Proof. intros A w e x. destruct e as [wh [l|]|y|n]; reflexivity. Qed.

  (* ---------- construct = node_spec + apply ---------- *)
  Lemma construct_spec : forall m',
    construct m' =
    match node_spec m' with
    | NCall c => (match do_call c with FRet v => Ok v | FRaise e => Err e end, [c])
    | NFail e => (Err e, [])
    end.
  Proof.
    intros m'. unfold Mapping.construct, Mapping.node_spec.
    destruct (lookup s_type m') as [tv|]; [|reflexivity].
    destruct tv as [s| | |]; try reflexivity.
    destruct s as [| | | |name]; try reflexivity.
    cbn [type_name].
    rewrite lookup_remove_other by reflexivity.
    rewrite remove_remove_filter.
    destruct (resolve name) as [f| |e|]; try reflexivity.
    - destruct (star_args _); reflexivity.
    - destruct (star_args _); reflexivity.
  Qed.

  (* ---------- C19_plain_data_unchanged ---------- *)
  Lemma has_key_map_snd : forall {A B} (f : A -> B) k (m : list (str * A)),
    has_key k (map (fun kv => (fst kv, f (snd kv))) m) = has_key k m.
  Proof.
    intros A B f k m. unfold has_key. induction m as [|kv m IH]; cbn; [reflexivity|].
    rewrite IH. reflexivity.
  Qed.

  Lemma plain_data_unchanged : forall t, no_type_node t = true ->
    forall w, translate w t = (Ok (embed t), []).
  Proof.
    induction t as [s|l IH|m IH] using tree_ind2; intros Hn w.
    - reflexivity.
    - cbn [Mapping.translate].
      assert (forall i, tr_comp (fun w1 x => translate w1 x) w i l = (Ok (rev (map embed l)), [])) as Hc.
      { cbn [no_type_node] in Hn. induction l as [|x l IHl]; intros i; cbn; [reflexivity|].
        apply andb_true_iff in Hn as [Hx Hl]. inversion IH as [|? ? IHx IHr]; subst.
        rewrite (IHl IHr Hl). cbn. rewrite (IHx Hx). reflexivity. }
      rewrite Hc. cbn. rewrite rev_involutive. reflexivity.
    - cbn [Mapping.translate].
      cbn [no_type_node] in Hn. apply andb_true_iff in Hn as [Hk Hm].
      assert (tr_items (fun w1 x => translate w1 x) w m
              = (Ok (map (fun kv => (fst kv, embed (snd kv))) m), [])) as Hi.
      { clear Hk. induction m as [|kv m IHm]; cbn; [reflexivity|].
        cbn in Hm. apply andb_true_iff in Hm as [Hx Hr]. inversion IH as [|? ? IHx IHr]; subst.
        rewrite (IHx Hx). cbn. rewrite (IHm IHr Hr). reflexivity. }
      rewrite Hi. cbn. rewrite has_key_map_snd.
      apply negb_true_iff in Hk. rewrite Hk. reflexivity.
  Qed.

  (* ---------- the stage invariant ---------- *)
  (* A computation r that visits the positions ps (in this order) of a tree whose per-position
     semantics are C (the call made there) and Fl (the failure there), and whose specified value
     is ov: on success it made exactly the calls of ps, every position of ps made a call and none
     failed; otherwise it stopped at the first failing position p, reports that failure located at
     w ++ path_of p, and made exactly the calls up to and including p. *)
  Definition stage {A} (C : pos -> option call) (Fl : pos -> option pyexc) (ps : list pos)
             (w : str) (r : W A) (ov : option A) : Prop :=
    match ov with
    | Some v => r = (Ok v, filter_map C ps) /\ find_map Fl ps = None
                /\ map C ps = map Some (filter_map C ps)
    | None => exists p e, find_map Fl ps = Some (p, e)
                          /\ r = (Err (report e (w ++ path_of p)), filter_map C (take_until Fl ps))
    end.

  Lemma stage_ret : forall A C Fl w (a : A), stage C Fl [] w (ret a) (Some a).
  Proof. intros. cbn. auto. Qed.

  Lemma stage_bind : forall A B C Fl ps1 ps2 w (r1 : W A) (f : A -> W B) ov1 (g : A -> option B),
    stage C Fl ps1 w r1 ov1 ->
    (forall v, ov1 = Some v -> stage C Fl ps2 w (f v) (g v)) ->
    stage C Fl (ps1 ++ ps2) w (bind r1 f) (match ov1 with Some v => g v | None => None end).
  Proof.
    intros A B C Fl ps1 ps2 w r1 f ov1 g H1 H2.
    destruct ov1 as [v|].
    - destruct H1 as (-> & Hn1 & Hc1). specialize (H2 v eq_refl).
      unfold stage in *. destruct (g v) as [v2|].
      + destruct H2 as (E2 & Hn2 & Hc2). unfold bind. rewrite E2.
        rewrite filter_map_app. split; [reflexivity|]. split.
        * rewrite find_map_app_none; assumption.
        * rewrite !map_app, Hc1, Hc2. reflexivity.
      + destruct H2 as (p & e & Hf & E2). exists p, e. split.
        * rewrite find_map_app_none; assumption.
        * unfold bind. rewrite E2. rewrite take_until_app_none by assumption.
          rewrite filter_map_app. reflexivity.
    - destruct H1 as (p & e & Hf & ->). exists p, e. split.
      + apply find_map_app_some. exact Hf.
      + cbn. rewrite (take_until_app_some _ _ _ _ Hf). reflexivity.
  Qed.

  Lemma stage_fmap : forall A B C Fl ps w (r : W A) (h : A -> B) ov,
    stage C Fl ps w r ov ->
    stage C Fl ps w (bind r (fun a => ret (h a))) (option_map h ov).
  Proof.
    intros A B C Fl ps w r h ov H.
    pose proof (stage_bind A B C Fl ps [] w r (fun a => ret (h a)) ov (fun a => Some (h a)) H) as Hb.
    rewrite app_nil_r in Hb.
    assert (match ov with Some v => Some (h v) | None => None end = option_map h ov) as E
      by (destruct ov; reflexivity).
    rewrite <- E. apply Hb. intros v _. apply stage_ret.
  Qed.

  Lemma stage_wrap : forall A C Fl ps w w' (r : W A) ov,
    stage C Fl ps w r ov -> stage C Fl ps w (wrapW w' r) ov.
  Proof.
    intros A C Fl ps w w' r ov H. destruct ov as [v|]; cbn in *.
    - destruct H as (-> & H). cbn. auto.
    - destruct H as (p & e & Hf & ->). exists p, e. split; [exact Hf|].
      unfold wrapW. cbn [fst snd]. rewrite wrap_report_stable. reflexivity.
  Qed.

  Lemma path_of_cons : forall s p, path_of (s :: p) = path_seg s ++ path_of p.
  Proof. reflexivity. Qed.

  Lemma stage_lift : forall A C Fl C' Fl' s ps w (r : W A) ov,
    stage C' Fl' ps (w ++ path_seg s) r ov ->
    (forall p, C (s :: p) = C' p) -> (forall p, Fl (s :: p) = Fl' p) ->
    stage C Fl (map (cons s) ps) w r ov.
  Proof.
    intros A C Fl C' Fl' s ps w r ov H HC HF.
    assert (filter_map C (map (cons s) ps) = filter_map C' ps) as E1.
    { rewrite filter_map_map. apply filter_map_ext. exact HC. }
    destruct ov as [v|]; unfold stage in *.
    - destruct H as (-> & Hn & Hc). rewrite E1. split; [reflexivity|]. split.
      + rewrite find_map_map. rewrite (find_map_ext (fun a => Fl (s :: a)) Fl' ps HF). rewrite Hn. reflexivity.
      + rewrite map_map. rewrite (map_ext (fun a => C (s :: a)) C' HC). exact Hc.
    - destruct H as (p & e & Hf & ->). exists (s :: p), e. split.
      + rewrite find_map_map. rewrite (find_map_ext (fun a => Fl (s :: a)) Fl' ps HF). rewrite Hf. reflexivity.
      + rewrite path_of_cons, app_assoc.
        rewrite take_until_map, filter_map_map.
        rewrite (take_until_ext (fun a => Fl (s :: a)) Fl' ps HF).
        rewrite (filter_map_ext (fun a => C (s :: a)) C' _ HC). reflexivity.
  Qed.

  (* ---------- positions below a list item / mapping item ---------- *)
  Lemma node_at_idx : forall l i x p, nth_error l i = Some x ->
    node_at (TList l) (SIdx i :: p) = node_at x p.
  Proof. intros l i x p H. unfold Mapping.node_at. cbn [subtree]. rewrite H. reflexivity. Qed.

  Lemma node_at_key : forall m k x p, lookup k m = Some x ->
    node_at (TMap m) (SKey k :: p) = node_at x p.
  Proof. intros m k x p H. unfold Mapping.node_at. cbn [subtree]. rewrite H. reflexivity. Qed.

  (* ---------- evaluated items keep their keys ---------- *)
  Lemma eval_items_cons : forall kv r,
    eval_items (kv :: r) =
    match eval_spec (snd kv) with
    | Some v => match eval_items r with Some r' => Some ((fst kv, v) :: r') | None => None end
    | None => None
    end.
  Proof.
    intros kv r. unfold Mapping.eval_items, sequence_kv. cbn [map all_some snd fst].
    destruct (Mapping.eval_spec resolve apply (snd kv)); reflexivity.
  Qed.

  Lemma eval_items_has_key : forall k m m', eval_items m = Some m' -> has_key k m' = has_key k m.
  Proof.
    intros k m. induction m as [|kv m IH]; intros m' H.
    - cbn in H. injection H as <-. reflexivity.
    - rewrite eval_items_cons in H.
      destruct (eval_spec (snd kv)) as [v|]; [|discriminate].
      destruct (eval_items m) as [r'|] eqn:E; [|discriminate].
      injection H as <-. unfold has_key in *. cbn. rewrite (IH r' eq_refl). reflexivity.
  Qed.

  (* ---------- the list stage (items last to first) ---------- *)
  Lemma all_some_rev_step : forall (ox : option value) (rest : list (option value)),
    option_map (@rev value) (all_some (ox :: rest)) =
    match option_map (@rev value) (all_some rest) with
    | Some acc => match ox with Some v => Some (acc ++ [v]) | None => None end
    | None => None
    end.
  Proof.
    intros ox rest. cbn [all_some]. destruct ox as [v|]; destruct (all_some rest) as [r'|]; reflexivity.
  Qed.

  Definition tree_stage (x : tree) : Prop :=
    wf x = true -> forall w, stage (call_of x) (failure_at x) (eval_order x) w (translate w x) (eval_spec x).

  Lemma list_stage : forall C Fl w l i,
    Forall tree_stage l -> forallb wf l = true ->
    (forall k x p, nth_error l k = Some x ->
       C (SIdx (i + k) :: p) = call_of x p /\ Fl (SIdx (i + k) :: p) = failure_at x p) ->
    stage C Fl (eo_list (fun x => eval_order x) i l) w
          (tr_comp (fun w1 x => translate w1 x) w i l)
          (option_map (@rev value) (all_some (map eval_spec l))).
  Proof.
    intros C Fl w l. induction l as [|x l IHl]; intros i HF Hwf Hpos.
    - cbn. auto.
    - inversion HF as [|? ? Hx Hr]; subst.
      cbn in Hwf. apply andb_true_iff in Hwf as [Hwx Hwr].
      cbn [tr_comp eo_list map]. rewrite all_some_rev_step.
      apply stage_bind.
      + apply IHl; [assumption|assumption|].
        intros k y p Hk. replace (S i + k) with (i + S k) by lia. apply Hpos. exact Hk.
      + intros acc _.
        assert (match eval_spec x with Some v => Some (acc ++ [v]) | None => None end
                = option_map (fun v => acc ++ [v]) (eval_spec x)) as E
          by (destruct (eval_spec x); reflexivity).
        rewrite E. apply stage_fmap.
        apply (stage_lift _ C Fl (call_of x) (failure_at x) (SIdx i)).
        * apply Hx. exact Hwx.
        * intros p. specialize (Hpos 0 x p eq_refl). rewrite Nat.add_0_r in Hpos. apply Hpos.
        * intros p. specialize (Hpos 0 x p eq_refl). rewrite Nat.add_0_r in Hpos. apply Hpos.
  Qed.

  (* ---------- the mapping-items stage (items first to last) ---------- *)
  Lemma items_stage : forall C Fl w m,
    Forall (fun kv => tree_stage (snd kv)) m -> forallb (fun kv => wf (snd kv)) m = true ->
    (forall kv p, In kv m ->
       C (SKey (fst kv) :: p) = call_of (snd kv) p /\ Fl (SKey (fst kv) :: p) = failure_at (snd kv) p) ->
    stage C Fl (eo_items (fun x => eval_order x) m) w
          (tr_items (fun w1 x => translate w1 x) w m)
          (eval_items m).
  Proof.
    intros C Fl w m. induction m as [|kv m IHm]; intros HF Hwf Hpos.
    - cbn. auto.
    - inversion HF as [|? ? Hx Hr]; subst.
      cbn in Hwf. apply andb_true_iff in Hwf as [Hwx Hwr].
      cbn [tr_items eo_items]. rewrite eval_items_cons.
      apply stage_bind.
      + apply (stage_lift _ C Fl (call_of (snd kv)) (failure_at (snd kv)) (SKey (fst kv))).
        * apply Hx. exact Hwx.
        * intros p. apply Hpos. left. reflexivity.
        * intros p. apply Hpos. left. reflexivity.
      + intros v _.
        assert (match eval_items m with Some r' => Some ((fst kv, v) :: r') | None => None end
                = option_map (fun r' => (fst kv, v) :: r') (eval_items m)) as E
          by (destruct (eval_items m); reflexivity).
        rewrite E. apply stage_fmap. apply IHm; [assumption|assumption|].
        intros kv' p Hin. apply Hpos. right. exact Hin.
  Qed.

  (* ---------- the main invariant, for all finite trees ---------- *)
  Lemma translate_stage : forall t, tree_stage t.
  Proof.
    induction t as [s|l IH|m IH] using tree_ind2; intros Hwf w.
    - cbn. auto.
    - (* list: mapping.py:53-65 *)
      cbn [Mapping.translate Mapping.eval_spec eval_order]. cbn [wf] in Hwf.
      apply stage_wrap.
      assert (option_map VList (all_some (map eval_spec l))
              = option_map (fun c => VList (rev c)) (option_map (@rev value) (all_some (map eval_spec l)))) as E.
      { destruct (all_some (map eval_spec l)) as [vs|]; cbn; [|reflexivity].
        rewrite rev_involutive. reflexivity. }
      fold (Mapping.eval_spec resolve apply). rewrite E.
      apply stage_fmap. apply list_stage; [exact IH|exact Hwf|].
      intros k x p Hk. cbn [Nat.add]. unfold Mapping.call_of, Mapping.failure_at.
      rewrite (node_at_idx l k x p Hk). split; reflexivity.
    - (* mapping: mapping.py:45-52 *)
      cbn [wf] in Hwf. apply andb_true_iff in Hwf as [Hnd Hwf].
      pose proof (items_stage (call_of (TMap m)) (failure_at (TMap m)) w m IH Hwf) as Hit.
      assert (forall kv p, In kv m ->
                call_of (TMap m) (SKey (fst kv) :: p) = call_of (snd kv) p
                /\ failure_at (TMap m) (SKey (fst kv) :: p) = failure_at (snd kv) p) as Hpos.
      { intros [k x] p Hin. cbn [fst snd]. unfold Mapping.call_of, Mapping.failure_at.
        rewrite (node_at_key m k x p (lookup_in_nodup k x m Hnd Hin)). split; reflexivity. }
      specialize (Hit Hpos). clear Hpos.
      cbn [Mapping.translate eval_order].
      assert (eval_spec (TMap m) =
              match eval_items m with
              | None => None
              | Some m' =>
                  if has_key s_type m then
                    match node_spec m' with
                    | NCall c => match do_call c with FRet v => Some v | FRaise _ => None end
                    | NFail _ => None
                    end
                  else Some (VMap m')
              end) as Espec by reflexivity.
      rewrite Espec. clear Espec.
      set (ps1 := eo_items (fun x => eval_order x) m) in *.
      set (r1 := tr_items (fun w1 x => translate w1 x) w m) in *.
      destruct (eval_items m) as [m'|] eqn:Eit.
      + (* all items evaluate *)
        destruct Hit as (Er1 & Hn1 & Hc1). rewrite Er1.
        unfold bind. cbv beta iota.
        rewrite <- (eval_items_has_key s_type m m' Eit).
        assert (node_at (TMap m) [] = if has_key s_type m' then Some (node_spec m') else None) as Hnode.
        { unfold Mapping.node_at. cbn [subtree]. rewrite <- (eval_items_has_key s_type m m' Eit).
          rewrite Eit. reflexivity. }
        destruct (has_key s_type m') eqn:Ety.
        * (* a __type__ mapping: construct *)
          rewrite construct_spec.
          destruct (node_spec m') as [c|e] eqn:En.
          -- assert (call_of (TMap m) [] = Some c) as HC
               by (unfold Mapping.call_of; rewrite Hnode; reflexivity).
             destruct (do_call c) as [v|e] eqn:Ec.
             ++ assert (failure_at (TMap m) [] = None) as HFl
                  by (unfold Mapping.failure_at; rewrite Hnode, Ec; reflexivity).
                cbn. rewrite filter_map_app. cbn. rewrite HC. split; [reflexivity|]. split.
                ** rewrite find_map_app_none by assumption. cbn. rewrite HFl. reflexivity.
                ** rewrite !map_app, Hc1. cbn. rewrite HC. reflexivity.
             ++ assert (failure_at (TMap m) [] = Some e) as HFl
                  by (unfold Mapping.failure_at; rewrite Hnode, Ec; reflexivity).
                exists [], e. split.
                ** rewrite find_map_app_none by assumption. cbn. rewrite HFl. reflexivity.
                ** unfold wrapW. cbn [fst snd]. rewrite wrap_err.
                   cbn [path_of map concat]. rewrite !app_nil_r.
                   rewrite take_until_app_none by assumption. cbn [take_until]. rewrite HFl.
                   rewrite filter_map_app. cbn. rewrite HC. rewrite ?app_nil_r. reflexivity.
          -- assert (call_of (TMap m) [] = None) as HC
               by (unfold Mapping.call_of; rewrite Hnode; reflexivity).
             assert (failure_at (TMap m) [] = Some e) as HFl
               by (unfold Mapping.failure_at; rewrite Hnode; reflexivity).
             exists [], e. split.
             ++ rewrite find_map_app_none by assumption. cbn. rewrite HFl. reflexivity.
             ++ unfold wrapW. cbn [fst snd]. rewrite wrap_err.
                cbn [path_of map concat]. rewrite !app_nil_r.
                rewrite take_until_app_none by assumption. cbn [take_until]. rewrite HFl.
                rewrite filter_map_app. cbn. rewrite HC. rewrite ?app_nil_r. reflexivity.
        * (* plain mapping *)
          cbn. rewrite !app_nil_r. auto.
      + (* an item fails: the error is already located below *)
        destruct Hit as (p & e & Hf & Er1). rewrite Er1. exists p, e. split.
        * apply find_map_app_some. exact Hf.
        * unfold bind, wrapW. cbn [fst snd]. rewrite wrap_report_stable.
          rewrite (take_until_app_some _ _ _ _ Hf). reflexivity.
  Qed.

  (* ---------- the property theorems ---------- *)
  Theorem refines_spec : forall t v w, wf t = true -> eval_spec t = Some v ->
    translate w t = (Ok v, post_order_calls t).
  Proof.
    intros t v w Hwf Hv. pose proof (translate_stage t Hwf w) as H. rewrite Hv in H.
    destruct H as (H & _). exact H.
  Qed.

  Theorem exactly_once : forall t v, wf t = true -> eval_spec t = Some v ->
    map (call_of t) (eval_order t) = map Some (post_order_calls t)
    /\ length (post_order_calls t) = length (eval_order t)
    /\ first_failure t = None.
  Proof.
    intros t v Hwf Hv. pose proof (translate_stage t Hwf []) as H. rewrite Hv in H.
    destruct H as (_ & Hn & Hc). split; [exact Hc|]. split; [|exact Hn].
    apply (f_equal (@length _)) in Hc. rewrite !map_length in Hc. symmetry. exact Hc.
  Qed.

  Theorem error_location : forall t p e w, wf t = true -> first_failure t = Some (p, e) ->
    translate w t = (Err (report e (w ++ path_of p)), filter_map (call_of t) (reached t))
    /\ eval_spec t = None /\ failure_at t p = Some e.
  Proof.
    intros t p e w Hwf Hf. pose proof (translate_stage t Hwf w) as H.
    destruct (eval_spec t) as [v|] eqn:Ev.
    - destruct H as (_ & Hn & _). unfold Mapping.first_failure in Hf. congruence.
    - destruct H as (p' & e' & Hf' & Hr). unfold Mapping.first_failure in Hf.
      rewrite Hf in Hf'. injection Hf' as <- <-. split; [exact Hr|]. split; [reflexivity|].
      clear Hr. revert Hf. generalize (eval_order t). intros l. induction l as [|a l IHl]; cbn; [discriminate|].
      destruct (failure_at t a) eqn:Ea; [|exact IHl]. intros E. injection E as <- <-. exact Ea.
  Qed.

  Theorem success_or_located_failure : forall t, wf t = true ->
    (exists v, eval_spec t = Some v /\ first_failure t = None)
    \/ (eval_spec t = None /\ exists p e, first_failure t = Some (p, e)).
  Proof.
    intros t Hwf. pose proof (translate_stage t Hwf []) as H.
    destruct (eval_spec t) as [v|].
    - left. exists v. destruct H as (_ & Hn & _). auto.
    - right. destruct H as (p & e & Hf & _). split; [reflexivity|]. exists p, e. exact Hf.
  Qed.
End Proofs.
