(* Every grouping of a `>>` chain evaluates to the hand-nested construction (same object, same
   construction log, same failure if a constructor call does not bind).
   Proof: induction over expression trees with the invariant that a tail-free subtree evaluates,
   without constructing anything, to a Partial/PartialBind that represents its segment of the
   chain (`flatten`), and that binding such a representation to a pool nests the segment. *)
From Coq Require Import NArith List Bool Arith Lia.
From Cobald Require Import model.PyBind model.Partial.
Import ListNotations.

(* ---- the writer monad ------------------------------------------------------------------------ *)
Lemma bind_ret_l : forall {A B} (a : A) (f : A -> W B), bind (ret a) f = f a.
Proof. intros. unfold bind, ret. destruct (f a) as [r l]. reflexivity. Qed.

Lemma bind_assoc : forall {A B C} (m : W A) (f : A -> W B) (g : B -> W C),
  bind (bind m f) g = bind m (fun a => bind (f a) g).
Proof.
  intros A B C [[a|e] l] f g; unfold bind; [|reflexivity].
  destruct (f a) as [[b|e'] l1]; [|reflexivity].
  destruct (g b) as [r l2]. rewrite app_assoc. reflexivity.
Qed.

(* the continuation only matters on values the first computation can return *)
Lemma bind_ext : forall {A B} (m : W A) (f g : A -> W B),
  (forall a l, m = (Ok a, l) -> f a = g a) -> bind m f = bind m g.
Proof.
  intros A B [[a|e] l] f g H; unfold bind; [|reflexivity]. rewrite (H a l eq_refl). reflexivity.
Qed.

Lemma bind_ok_inv : forall {A B} (m : W A) (f : A -> W B) b l,
  bind m f = (Ok b, l) -> exists a l1 l2, m = (Ok a, l1) /\ f a = (Ok b, l2) /\ l = l1 ++ l2.
Proof.
  intros A B [[a|e] l1] f b l H; unfold bind in H; [|discriminate].
  destruct (f a) as [r l2] eqn:E. inversion H; subst. exists a, l1, l2. auto.
Qed.

(* ---- induction over objects (targets are a nested list) ---------------------------------- *)
Section ObjInd.
  Variable P : obj -> Prop.
  Hypothesis HPool : forall id, P (PoolI id).
  Hypothesis HTmpl : forall e, P (Tmpl e).
  Hypothesis HBind : forall p ts, Forall P ts -> P (Bind p ts).
  Hypothesis HBuiltN : forall e, P (Built e None).
  Hypothesis HBuiltS : forall e t, P t -> P (Built e (Some t)).

  Fixpoint obj_ind' (o : obj) : P o :=
    match o with
    | PoolI id => HPool id
    | Tmpl e => HTmpl e
    | Bind p ts =>
        HBind p ts ((fix go (l : list obj) : Forall P l :=
                       match l with
                       | [] => Forall_nil P
                       | t :: r => Forall_cons t (obj_ind' t) (go r)
                       end) ts)
    | Built e None => HBuiltN e
    | Built e (Some t) => HBuiltS e t (obj_ind' t)
    end.
End ObjInd.

(* ---- which chain segment a Partial / PartialBind stands for -------------------------------- *)
Fixpoint flatten (o : obj) : list elem :=
  match o with
  | Tmpl e => [e]
  | Bind p ts => p :: (fix fl (l : list obj) : list elem :=
                         match l with [] => [] | t :: r => flatten t ++ fl r end) ts
  | _ => []
  end.

Definition flat (l : list obj) : list elem := flat_map flatten l.

Lemma flatten_bind : forall p ts, flatten (Bind p ts) = p :: flat ts.
Proof.
  intros p ts. reflexivity.
Qed.

Lemma flat_app : forall a b, flat (a ++ b) = flat a ++ flat b.
Proof. intros. unfold flat. apply flat_map_app. Qed.

(* a well-formed representation: a Partial, or a PartialBind with at least one target, all of
   whose targets are well-formed representations *)
Fixpoint wf_repr (o : obj) : bool :=
  match o with
  | Tmpl _ => true
  | Bind _ ts => match ts with [] => false | _ :: _ => true end
                 && (fix all (l : list obj) : bool :=
                       match l with [] => true | t :: r => wf_repr t && all r end) ts
  | _ => false
  end.

Lemma wf_repr_bind : forall p ts, wf_repr (Bind p ts) = negb (match ts with [] => true | _ => false end) && forallb wf_repr ts.
Proof.
  intros p ts. destruct ts as [|t r]; reflexivity.
Qed.

Definition pool_elem (e : elem) : bool := c_pool (e_ctor e).
Definition nonleaf (e : elem) : bool := negb (e_leaf e).

(* ---- basic facts about construction ------------------------------------------------------- *)
Lemma construct_ok : forall e t x l, construct e t = (Ok x, l) -> x = Built e t.
Proof.
  intros e t x l H. unfold construct in H.
  destruct (call_binds (e_ctor e) (length (call_pos e t)) (keys_of (e_kwargs e))); [|discriminate].
  inversion H. reflexivity.
Qed.

Lemma is_pool_cases : forall p, is_pool p = true ->
  (exists id, p = PoolI id) \/ (exists e t, p = Built e t /\ pool_elem e = true).
Proof.
  intros [id|e|q ts|e t] H; cbn in H; try discriminate.
  - left. exists id. reflexivity.
  - right. exists e, t. split; [reflexivity | exact H].
Qed.

Lemma tmpl_rshift_pool : forall e p, is_pool p = true -> tmpl_rshift e p = construct e (Some p).
Proof.
  intros e p H. destruct (is_pool_cases p H) as [[id ->]|[e' [t [-> _]]]]; reflexivity.
Qed.

Lemma nestW_app : forall a b p, nestW (a ++ b) p = x <- nestW b p ;; nestW a x.
Proof.
  induction a as [|e r IH]; intros b p; cbn [app nestW].
  - unfold bind. destruct (nestW b p) as [[x|err] l]; [|reflexivity]. cbn. rewrite app_nil_r. reflexivity.
  - rewrite IH. rewrite bind_assoc. reflexivity.
Qed.

Lemma nestW_pool : forall es p, forallb pool_elem es = true -> is_pool p = true ->
  forall x l, nestW es p = (Ok x, l) -> is_pool x = true.
Proof.
  intros [|e r] p Hes Hp x l H; cbn [nestW] in H.
  - inversion H; subst. exact Hp.
  - apply bind_ok_inv in H. destruct H as [y [l1 [l2 [_ [Hc _]]]]].
    apply construct_ok in Hc. subst. cbn. cbn in Hes. apply andb_true_iff in Hes. apply Hes.
Qed.

(* ---- binding a representation to a pool nests its segment --------------------------------- *)
Definition fold_targets : list obj -> obj -> W obj :=
  fix go (l : list obj) (p : obj) : W obj :=
    match l with
    | [] => ret p
    | t :: r => x <- go r p ;; rshift t x
    end.

Lemma rshift_bind_pool : forall parent ts p, is_pool p = true -> ts <> [] ->
  rshift (Bind parent ts) p = x <- fold_targets ts p ;; tmpl_rshift parent x.
Proof.
  intros parent ts p Hp Hts.
  destruct (is_pool_cases p Hp) as [[id ->]|[e' [t [-> He]]]]; cbn [rshift]; fold fold_targets.
  - cbn [is_pool]. destruct ts; [contradiction | reflexivity].
  - cbn [is_pool]. unfold pool_elem in He. rewrite He. destruct ts; [contradiction | reflexivity].
Qed.

Lemma bind_repr : forall o, wf_repr o = true -> forallb pool_elem (tl (flatten o)) = true ->
  forall p, is_pool p = true -> rshift o p = nestW (flatten o) p.
Proof.
  induction o as [id|e|parent ts IH|e|e t _] using obj_ind'; intros Hwf Hpool p Hp; try discriminate.
  - (* Partial *)
    cbn [rshift flatten nestW]. rewrite bind_ret_l. apply tmpl_rshift_pool. exact Hp.
  - (* PartialBind *)
    rewrite wf_repr_bind in Hwf. apply andb_true_iff in Hwf. destruct Hwf as [Hne Hall].
    assert (ts <> []) as Hts by (destruct ts; [discriminate | discriminate]).
    rewrite flatten_bind in *. cbn [tl] in Hpool.
    rewrite rshift_bind_pool by assumption. cbn [nestW].
    assert (forall q, is_pool q = true -> fold_targets ts q = nestW (flat ts) q) as Hfold.
    { clear Hts Hne. induction ts as [|t r IHr]; intros q Hq; [reflexivity|].
      cbn [fold_targets]. fold fold_targets. inversion IH as [|? ? IHt IHrest]; subst.
      cbn [forallb] in Hall. apply andb_true_iff in Hall. destruct Hall as [Hwt Hwr].
      change (flat (t :: r)) with (flatten t ++ flat r) in *.
      rewrite forallb_app in Hpool. apply andb_true_iff in Hpool. destruct Hpool as [Hpt Hpr].
      rewrite (IHr IHrest Hwr Hpr q Hq). rewrite nestW_app. apply bind_ext. intros x l Hx.
      apply IHt; [exact Hwt | | exact (nestW_pool _ _ Hpr Hq _ _ Hx)].
      destruct (flatten t); [reflexivity|]. cbn [tl]. cbn [forallb] in Hpt.
      apply andb_true_iff in Hpt. apply Hpt. }
    rewrite (Hfold p Hp). apply bind_ext. intros x l Hx.
    apply tmpl_rshift_pool. exact (nestW_pool _ _ Hpool Hp _ _ Hx).
Qed.

(* a leaf template on the right is constructed first, then bound like an instance *)
Lemma rshift_leaf_tmpl : forall a e', wf_repr a = true -> e_leaf e' = true ->
  rshift a (Tmpl e') = p <- construct e' None ;; rshift a p.
Proof.
  intros [id|e|parent ts|e t] e' Hwf Hleaf; try discriminate.
  - cbn [rshift tmpl_rshift]. rewrite Hleaf. apply bind_ext. intros p l Hp.
    apply construct_ok in Hp. subst. reflexivity.
  - cbn [rshift]. rewrite Hleaf. apply bind_ext. intros p l Hp.
    apply construct_ok in Hp. subst. reflexivity.
Qed.

(* ---- tail-free subtrees ---------------------------------------------------------------------- *)
Lemma leaves_nonnil : forall {A} (t : tree A), leaves t <> [].
Proof.
  induction t as [a|l IHl r IHr]; cbn; [discriminate|]. intro H. apply app_eq_nil in H. tauto.
Qed.

Lemma map_app_inv : forall {A B} (f : A -> B) l l1 l2, map f l = l1 ++ l2 ->
  exists a b, l = a ++ b /\ map f a = l1 /\ map f b = l2.
Proof.
  intros A B f l l1. revert l. induction l1 as [|x r IH]; intros l l2 H.
  - exists [], l. auto.
  - destruct l as [|y s]; [discriminate|]. cbn in H. inversion H; subst.
    destruct (IH s l2 H2) as [a [b [-> [Ha Hb]]]]. exists (y :: a), b. cbn. rewrite Ha. auto.
Qed.

Lemma rshift_reprs : forall a b, wf_repr a = true -> wf_repr b = true ->
  (forall e', b = Tmpl e' -> e_leaf e' = false) ->
  exists o, rshift a b = ret o /\ flatten o = flatten a ++ flatten b /\ wf_repr o = true.
Proof.
  intros [id|e|parent ts|e t] b Ha Hb Hnl; try discriminate.
  - (* Partial >> ... *)
    destruct b as [id|e'|p' ts'|e' t']; try discriminate.
    + cbn [rshift tmpl_rshift]. rewrite (Hnl e' eq_refl). eexists. split; [reflexivity|].
      split; [reflexivity | reflexivity].
    + cbn [rshift tmpl_rshift]. eexists. split; [reflexivity|]. split.
      * rewrite !flatten_bind. cbn [flatten app]. f_equal.
      * rewrite wf_repr_bind in *. cbn [forallb wf_repr]. apply andb_true_iff in Hb. apply Hb.
  - (* PartialBind >> ... *)
    assert (exists o, rshift (Bind parent ts) b = ret o /\ o = Bind parent (ts ++ [b])) as [o [Ho ->]].
    { destruct b as [id|e'|p' ts'|e' t']; try discriminate.
      - cbn [rshift]. rewrite (Hnl e' eq_refl). eexists. split; reflexivity.
      - cbn [rshift is_pool]. eexists. split; reflexivity. }
    exists (Bind parent (ts ++ [b])). split; [exact Ho|]. split.
    + rewrite !flatten_bind. rewrite flat_app. cbn [app]. f_equal. f_equal. unfold flat. cbn. apply app_nil_r.
    + rewrite wf_repr_bind in *. apply andb_true_iff in Ha. destruct Ha as [_ Ha].
      rewrite forallb_app, Ha. cbn [forallb]. rewrite Hb. destruct ts; reflexivity.
Qed.

Lemma eval_segment : forall t seg,
  leaves t = map Tmpl seg -> forallb nonleaf (tl seg) = true ->
  exists o, eval t = ret o /\ flatten o = seg /\ wf_repr o = true.
Proof.
  induction t as [o|l IHl r IHr]; intros seg Hl Hnl.
  - cbn in Hl. destruct seg as [|e [|e2 s]]; try discriminate. inversion Hl; subst.
    exists (Tmpl e). auto.
  - cbn [leaves] in Hl. symmetry in Hl. apply map_app_inv in Hl.
    destruct Hl as [s1 [s2 [-> [H1 H2]]]].
    assert (s1 <> []) as N1 by (intro; subst; apply (leaves_nonnil l); symmetry; exact H1).
    assert (forallb nonleaf (tl s1) = true /\ forallb nonleaf s2 = true) as [Hn1 Hn2].
    { destruct s1 as [|e s1]; [contradiction|]. cbn [tl app] in *. rewrite forallb_app in Hnl.
      apply andb_true_iff in Hnl. exact Hnl. }
    destruct (IHl s1 (eq_sym H1) Hn1) as [a [Ea [Fa Wa]]].
    assert (forallb nonleaf (tl s2) = true) as Hn2'.
    { destruct s2; [reflexivity|]. cbn in Hn2. apply andb_true_iff in Hn2. apply Hn2. }
    destruct (IHr s2 (eq_sym H2) Hn2') as [b [Eb [Fb Wb]]].
    cbn [eval]. rewrite Ea, bind_ret_l, Eb, bind_ret_l.
    destruct (rshift_reprs a b Wa Wb) as [o [Ho [Fo Wo]]].
    { intros e' ->. cbn in Fb. subst s2. cbn in Hn2. apply andb_true_iff in Hn2.
      destruct Hn2 as [Hn2 _]. unfold nonleaf in Hn2. apply negb_true_iff in Hn2. exact Hn2. }
    exists o. split; [exact Ho|]. split; [rewrite Fo, Fa, Fb; reflexivity | exact Wo].
Qed.

(* ---- the tail and the whole chain ---------------------------------------------------------- *)
(* the tail is a pool instance or a leaf template of a pool class *)
Definition tail_ok (tail : obj) : Prop :=
  (exists id, tail = PoolI id) \/ (exists e, tail = Tmpl e /\ e_leaf e = true /\ pool_elem e = true).

(* chain elements after the first: non-leaf templates of pool classes *)
Definition good (e : elem) : bool := nonleaf e && pool_elem e.

Lemma tail_value_pool : forall tail, tail_ok tail ->
  forall p l, tail_value tail = (Ok p, l) -> is_pool p = true.
Proof.
  intros tail [[id ->]|[e [-> [_ Hp]]]] p l H; cbn in H.
  - inversion H. reflexivity.
  - apply construct_ok in H. subst. exact Hp.
Qed.

Lemma rshift_tail : forall a tail, wf_repr a = true -> tail_ok tail ->
  forallb pool_elem (tl (flatten a)) = true ->
  rshift a tail = hand_nested (flatten a) tail.
Proof.
  intros a tail Wa Ht Hp. unfold hand_nested.
  destruct Ht as [[id ->]|[e [-> [Hleaf Hpe]]]].
  - cbn [tail_value]. rewrite bind_ret_l. apply bind_repr; auto.
  - cbn [tail_value]. rewrite rshift_leaf_tmpl by assumption. apply bind_ext. intros p l Hc.
    apply construct_ok in Hc. subst. apply bind_repr; auto.
Qed.

Lemma app_unit_inv : forall {A} (a b c : list A) x, a ++ b = c ++ [x] -> b <> [] ->
  exists b', b = b' ++ [x] /\ c = a ++ b'.
Proof.
  intros A a b c x H Hb. destruct (exists_last Hb) as [b' [y ->]].
  rewrite app_assoc in H. apply app_inj_tail in H. destruct H as [H ->]. exists b'. auto.
Qed.

Lemma eval_with_tail : forall t seg tail,
  leaves t = map Tmpl seg ++ [tail] -> tail_ok tail ->
  forallb nonleaf (tl seg) = true -> forallb pool_elem (tl seg) = true ->
  (seg = [] -> eval t = ret tail) /\ (seg <> [] -> eval t = hand_nested seg tail).
Proof.
  induction t as [o|l IHl r IHr]; intros seg tail Hl Ht Hnl Hpl.
  - cbn in Hl. destruct seg as [|e s]; cbn in Hl.
    + inversion Hl. split; [reflexivity | contradiction].
    + inversion Hl as [[H1 H2]]. destruct s; discriminate.
  - cbn [leaves] in Hl. apply app_unit_inv in Hl; [|apply leaves_nonnil].
    destruct Hl as [lr [Hr Hseg]]. apply map_app_inv in Hseg.
    destruct Hseg as [s1 [s2 [-> [H1 H2]]]]. subst lr.
    assert (s1 <> []) as N1 by (intro; subst; apply (leaves_nonnil l); symmetry; exact H1).
    destruct s1 as [|e1 s1]; [contradiction|]. cbn [tl app] in Hnl, Hpl.
    rewrite forallb_app in Hnl, Hpl. apply andb_true_iff in Hnl, Hpl.
    destruct Hnl as [Hn1 Hn2]. destruct Hpl as [Hp1 Hp2].
    destruct (eval_segment l (e1 :: s1) (eq_sym H1) Hn1) as [a [Ea [Fa Wa]]].
    assert (forallb nonleaf (tl s2) = true /\ forallb pool_elem (tl s2) = true) as [Hn2' Hp2'].
    { destruct s2; [split; reflexivity|]. cbn in Hn2, Hp2. apply andb_true_iff in Hn2, Hp2. tauto. }
    destruct (IHr s2 tail Hr Ht Hn2' Hp2') as [R0 R1].
    split; [discriminate|]. intros _. cbn [eval]. rewrite Ea, bind_ret_l.
    destruct s2 as [|e2 s2].
    + rewrite (R0 eq_refl), bind_ret_l, app_nil_r. rewrite <- Fa. apply rshift_tail; try assumption.
      rewrite Fa. exact Hp1.
    + rewrite (R1 ltac:(discriminate)). unfold hand_nested. rewrite bind_assoc.
      apply bind_ext. intros p lp Hp. change (e1 :: s1 ++ e2 :: s2) with ((e1 :: s1) ++ e2 :: s2).
      rewrite nestW_app. apply bind_ext. intros b lb Hb. rewrite <- Fa. apply bind_repr.
      * exact Wa.
      * rewrite Fa. exact Hp1.
      * exact (nestW_pool _ _ Hp2 (tail_value_pool tail Ht _ _ Hp) _ _ Hb).
Qed.

(* main theorem: every grouping evaluates to the hand-nested construction *)
Theorem any_grouping : forall (es : list elem) (tail : obj) (t : tree obj),
  es <> [] -> forallb good (tl es) = true -> tail_ok tail ->
  leaves t = map Tmpl es ++ [tail] ->
  eval t = hand_nested es tail.
Proof.
  intros es tail t Hne Hgood Ht Hl.
  assert (forallb nonleaf (tl es) = true /\ forallb pool_elem (tl es) = true) as [Hn Hp].
  { unfold good in Hgood. rewrite forallb_forall in Hgood. split; apply forallb_forall; intros e He;
    specialize (Hgood e He); apply andb_true_iff in Hgood; tauto. }
  destruct (eval_with_tail t es tail Hl Ht Hn Hp) as [_ H]. exact (H Hne).
Qed.

(* ---- what the hand-nested construction is, when every constructor call binds ------------------ *)
Fixpoint nest_obj (es : list elem) (p : obj) : obj :=
  match es with [] => p | e :: r => Built e (Some (nest_obj r p)) end.

Definition call_of (e : elem) (t : option obj) : call := mkCall (e_ctor e) (call_pos e t) (e_kwargs e).

(* en first, e1 last; each with the object built just before as its target *)
Fixpoint rev_log (es : list elem) (p : obj) : list call :=
  match es with [] => [] | e :: r => rev_log r p ++ [call_of e (Some (nest_obj r p))] end.

Definition binds (e : elem) (t : option obj) : bool :=
  call_binds (e_ctor e) (length (call_pos e t)) (keys_of (e_kwargs e)).

Fixpoint binds_all (es : list elem) (p : obj) : bool :=
  match es with [] => true | e :: r => binds_all r p && binds e (Some (nest_obj r p)) end.

Definition tail_built (tail : obj) : obj :=
  match tail with Tmpl e => Built e None | _ => tail end.
Definition tail_log (tail : obj) : list call :=
  match tail with Tmpl e => [call_of e None] | _ => [] end.
Definition tail_binds (tail : obj) : bool :=
  match tail with Tmpl e => binds e None | _ => true end.

Lemma nestW_explicit : forall es p, binds_all es p = true ->
  nestW es p = (Ok (nest_obj es p), rev_log es p).
Proof.
  induction es as [|e r IH]; intros p H; [reflexivity|].
  cbn [binds_all] in H. apply andb_true_iff in H. destruct H as [Hr He].
  cbn [nestW]. rewrite (IH p Hr). unfold bind, construct. unfold binds in He. rewrite He. reflexivity.
Qed.

Theorem hand_nested_explicit : forall es tail,
  tail_binds tail = true -> binds_all es (tail_built tail) = true ->
  hand_nested es tail
  = (Ok (nest_obj es (tail_built tail)), tail_log tail ++ rev_log es (tail_built tail)).
Proof.
  intros es tail Ht He. unfold hand_nested.
  destruct tail as [id|e|p ts|e t]; cbn [tail_value tail_built tail_log tail_binds] in *;
    try (rewrite bind_ret_l, nestW_explicit by exact He; reflexivity).
  unfold construct. unfold binds in Ht. rewrite Ht. unfold bind.
  rewrite nestW_explicit by exact He. reflexivity.
Qed.

(* a failing constructor call: nothing later is constructed, the log holds what was built before *)
Lemma rev_log_length : forall es p, length (rev_log es p) = length es.
Proof. induction es as [|e r IH]; intros; cbn; [reflexivity|]. rewrite app_length, IH. cbn. lia. Qed.

(* the i-th constructor call (0-based, in time order) builds element e_(n-1-i), and its target
   is the nest of the elements after it *)
Lemma rev_log_nth : forall es p i d, i < length es ->
  nth i (rev_log es p) d
  = call_of (nth (length es - 1 - i) es (mkElem (k_cls d) [] [] false))
            (Some (nest_obj (skipn (length es - i) es) p)).
Proof.
  induction es as [|e r IH]; intros p i d Hi; cbn [length] in *; [lia|].
  cbn [rev_log]. destruct (Nat.eq_dec i (length r)) as [->|Hne].
  - rewrite app_nth2 by (rewrite rev_log_length; lia). rewrite rev_log_length, Nat.sub_diag.
    replace (S (length r) - 1 - length r) with 0 by lia. replace (S (length r) - length r) with 1 by lia.
    reflexivity.
  - rewrite app_nth1 by (rewrite rev_log_length; lia). rewrite IH by lia.
    replace (S (length r) - 1 - i) with (S (length r - 1 - i)) by lia.
    replace (S (length r) - i) with (S (length r - i)) by lia. reflexivity.
Qed.

Lemma log_shape : forall es p i d, i < length es ->
  length (rev_log es p) = length es
  /\ nth i (rev_log es p) d
     = mkCall (e_ctor (nth (length es - 1 - i) es (mkElem (k_cls d) [] [] false)))
              (AObj (nest_obj (skipn (length es - i) es) p)
               :: map AVal (e_args (nth (length es - 1 - i) es (mkElem (k_cls d) [] [] false))))
              (e_kwargs (nth (length es - 1 - i) es (mkElem (k_cls d) [] [] false))).
Proof. intros es p i d H. split; [apply rev_log_length | apply (rev_log_nth es p i d H)]. Qed.
