(* C19: what the evaluation order `eval_order` (model/Mapping.v part 3) is.  These lemmas are
   purely about the specification; they make "exactly once", "children before parents" and
   "later list items before earlier ones" theorems instead of a reading of a definition:
     - eval_order t lists exactly the positions of the __type__ mappings of t, each once;
     - a __type__ node below another one comes earlier;
     - below a list, everything under item j comes before everything under item i < j. *)
From Coq Require Import ZArith NArith List Bool Arith Lia.
From Cobald Require Import model.Mapping proofs.MappingProofs.
Import ListNotations.

Definition before {A} (l : list A) (a b : A) : Prop :=
  exists l1 l2 l3, l = l1 ++ a :: l2 ++ b :: l3.

Ltac solve_app := repeat (first [rewrite <- app_assoc | rewrite <- app_comm_cons]); reflexivity.

Lemma before_app_l : forall A (l r : list A) a b, before l a b -> before (l ++ r) a b.
Proof.
  intros A l r a b (l1 & l2 & l3 & ->). exists l1, l2, (l3 ++ r).
  solve_app.
Qed.

Lemma before_app_r : forall A (l r : list A) a b, before r a b -> before (l ++ r) a b.
Proof.
  intros A l r a b (l1 & l2 & l3 & ->). exists (l ++ l1), l2, l3.
  solve_app.
Qed.

Lemma before_app_lr : forall A (l r : list A) a b, In a l -> In b r -> before (l ++ r) a b.
Proof.
  intros A l r a b Ha Hb. apply in_split in Ha as (l1 & l2 & ->). apply in_split in Hb as (r1 & r2 & ->).
  exists l1, (l2 ++ r1), r2. solve_app.
Qed.

Lemma before_map : forall A B (f : A -> B) l a b, before l a b -> before (map f l) (f a) (f b).
Proof.
  intros A B f l a b (l1 & l2 & l3 & ->). exists (map f l1), (map f l2), (map f l3).
  rewrite !map_app. cbn. rewrite !map_app. reflexivity.
Qed.

Lemma NoDup_app_intro : forall A (l r : list A),
  NoDup l -> NoDup r -> (forall a, In a l -> In a r -> False) -> NoDup (l ++ r).
Proof.
  intros A l r Hl Hr Hd. induction Hl as [|a l Ha Hl IH]; cbn; [exact Hr|].
  constructor.
  - intros Hin. apply in_app_or in Hin as [Hin|Hin]; [contradiction|].
    apply (Hd a); [left; reflexivity|exact Hin].
  - apply IH. intros b Hb1 Hb2. apply (Hd b); [right; exact Hb1|exact Hb2].
Qed.

Lemma NoDup_map_cons : forall (s : seg) (l : list pos), NoDup l -> NoDup (map (cons s) l).
Proof.
  intros s l H. induction H as [|a l Ha Hl IH]; cbn; constructor; [|exact IH].
  intros Hin. apply in_map_iff in Hin as (b & E & Hb). injection E as ->. contradiction.
Qed.

Section Membership.
  Variable eo : tree -> list pos.

  Lemma in_eo_list_inv : forall l n p, In p (eo_list eo n l) ->
    exists i x q, p = SIdx (n + i) :: q /\ nth_error l i = Some x /\ In q (eo x).
  Proof.
    induction l as [|x l IH]; intros n p H; cbn in H; [contradiction|].
    apply in_app_or in H as [H|H].
    - apply IH in H as (i & y & q & -> & Hn & Hq). exists (S i), y, q.
      split; [f_equal; f_equal; lia|]. split; assumption.
    - apply in_map_iff in H as (q & <- & Hq). exists 0, x, q.
      rewrite Nat.add_0_r. auto.
  Qed.

  Lemma in_eo_list_intro : forall l n i x q, nth_error l i = Some x -> In q (eo x) ->
    In (SIdx (n + i) :: q) (eo_list eo n l).
  Proof.
    induction l as [|y l IH]; intros n i x q Hn Hq; [destruct i; discriminate|].
    cbn [eo_list]. apply in_or_app. destruct i as [|i].
    - right. injection Hn as ->. rewrite Nat.add_0_r. apply in_map. exact Hq.
    - left. replace (n + S i) with (S n + i) by lia. apply (IH (S n) i x q); assumption.
  Qed.

  Lemma in_eo_items_inv : forall m p, In p (eo_items eo m) ->
    exists k x q, p = SKey k :: q /\ In (k, x) m /\ In q (eo x).
  Proof.
    induction m as [|[k x] m IH]; intros p H; cbn in H; [contradiction|].
    apply in_app_or in H as [H|H].
    - apply in_map_iff in H as (q & <- & Hq). exists k, x, q. cbn. auto.
    - apply IH in H as (k' & y & q & -> & Hin & Hq). exists k', y, q. cbn. auto.
  Qed.

  Lemma in_eo_items_intro : forall m k x q, In (k, x) m -> In q (eo x) ->
    In (SKey k :: q) (eo_items eo m).
  Proof.
    induction m as [|[k0 x0] m IH]; intros k x q Hin Hq; [contradiction|].
    cbn [eo_items fst snd]. apply in_or_app. destruct Hin as [E|Hin].
    - left. injection E as -> ->. apply in_map. exact Hq.
    - right. apply (IH k x q); assumption.
  Qed.

  Lemma before_eo_list : forall l n i x a b, nth_error l i = Some x -> before (eo x) a b ->
    before (eo_list eo n l) (SIdx (n + i) :: a) (SIdx (n + i) :: b).
  Proof.
    induction l as [|y l IH]; intros n i x a b Hn Hb; [destruct i; discriminate|].
    cbn [eo_list]. destruct i as [|i].
    - injection Hn as ->. rewrite Nat.add_0_r. apply before_app_r.
      apply (before_map _ _ (cons (SIdx n))). exact Hb.
    - apply before_app_l. replace (n + S i) with (S n + i) by lia. apply (IH (S n) i x); assumption.
  Qed.

  Lemma before_eo_items : forall m k x a b, In (k, x) m -> before (eo x) a b ->
    before (eo_items eo m) (SKey k :: a) (SKey k :: b).
  Proof.
    induction m as [|[k0 x0] m IH]; intros k x a b Hin Hb; [contradiction|].
    cbn [eo_items fst snd]. destruct Hin as [E|Hin].
    - injection E as -> ->. apply before_app_l. apply (before_map _ _ (cons (SKey k))). exact Hb.
    - apply before_app_r. apply (IH k x); assumption.
  Qed.

  (* below a list: everything under a later item comes before everything under an earlier one *)
  Lemma eo_list_right_to_left : forall l n i j r1 r2, i < j ->
    In (SIdx i :: r1) (eo_list eo n l) -> In (SIdx j :: r2) (eo_list eo n l) ->
    before (eo_list eo n l) (SIdx j :: r2) (SIdx i :: r1).
  Proof.
    induction l as [|x l IH]; intros n i j r1 r2 Hlt Hi Hj; [contradiction|].
    cbn [eo_list] in *. apply in_app_or in Hi as [Hi|Hi]; apply in_app_or in Hj as [Hj|Hj].
    - apply before_app_l. apply IH; assumption.
    - exfalso. apply in_eo_list_inv in Hi as (i' & y & q & E & _). injection E as -> _.
      apply in_map_iff in Hj as (q' & E' & _). injection E' as <-. lia.
    - apply before_app_lr; assumption.
    - exfalso. apply in_map_iff in Hi as (q & E & _). apply in_map_iff in Hj as (q' & E' & _).
      injection E as <-. injection E' as <-. lia.
  Qed.

  Lemma NoDup_eo_list : forall l n, Forall (fun x => NoDup (eo x)) l -> NoDup (eo_list eo n l).
  Proof.
    induction l as [|x l IH]; intros n HF; cbn [eo_list]; [constructor|].
    inversion HF as [|? ? Hx Hl]; subst. apply NoDup_app_intro.
    - apply IH. exact Hl.
    - apply NoDup_map_cons. exact Hx.
    - intros a Ha Hb. apply in_eo_list_inv in Ha as (i & y & q & -> & _).
      apply in_map_iff in Hb as (q' & E & _). injection E as E. lia.
  Qed.

  Lemma NoDup_eo_items : forall m, nodup_keys (keys m) = true ->
    Forall (fun kv => NoDup (eo (snd kv))) m -> NoDup (eo_items eo m).
  Proof.
    induction m as [|[k x] m IH]; intros Hnd HF; cbn [eo_items fst snd]; [constructor|].
    inversion HF as [|? ? Hx Hl]; subst. cbn in Hnd. apply andb_true_iff in Hnd as [Hk Hnd].
    apply NoDup_app_intro.
    - apply NoDup_map_cons. exact Hx.
    - apply IH; assumption.
    - intros a Ha Hb. apply in_map_iff in Ha as (q & <- & _).
      apply in_eo_items_inv in Hb as (k' & y & q' & E & Hin & _). injection E as <- _.
      apply negb_true_iff in Hk.
      assert (existsb (str_eqb k) (map fst m) = true) as Hx'.
      { apply existsb_exists. exists k. split; [|apply str_eqb_refl].
        change k with (fst (k, y)). apply in_map. exact Hin. }
      congruence.
  Qed.
End Membership.

Lemma in_nodup_unique : forall {A} k (x y : A) m,
  nodup_keys (keys m) = true -> In (k, x) m -> In (k, y) m -> x = y.
Proof.
  intros A k x y m Hnd Hx Hy.
  pose proof (lookup_in_nodup k x m Hnd Hx) as E1.
  pose proof (lookup_in_nodup k y m Hnd Hy) as E2. congruence.
Qed.

Lemma lookup_in : forall {A} k (x : A) m, lookup k m = Some x -> In (k, x) m.
Proof.
  intros A k x m. induction m as [|[k0 v] m IH]; cbn; [discriminate|].
  destruct (str_eqb k k0) eqn:E.
  - intros H. injection H as ->. apply str_eqb_eq in E. subst. left. reflexivity.
  - intros H. right. apply IH. exact H.
Qed.

(* ---- eval_order lists exactly the __type__ mappings ---- *)
Theorem eval_order_sound : forall t, wf t = true -> forall p, In p (eval_order t) ->
  exists m, subtree t p = Some (TMap m) /\ has_key s_type m = true.
Proof.
  induction t as [s|l IH|m IH] using tree_ind2; intros Hwf p Hin.
  - contradiction.
  - cbn [eval_order] in Hin. cbn [wf] in Hwf.
    apply in_eo_list_inv in Hin as (i & x & q & -> & Hn & Hq). cbn [Nat.add subtree]. rewrite Hn.
    rewrite Forall_forall in IH. apply (IH x (nth_error_In _ _ Hn)); [|exact Hq].
    rewrite forallb_forall in Hwf. apply Hwf. exact (nth_error_In _ _ Hn).
  - cbn [eval_order] in Hin. cbn [wf] in Hwf. apply andb_true_iff in Hwf as [Hnd Hwf].
    apply in_app_or in Hin as [Hin|Hin].
    + apply in_eo_items_inv in Hin as (k & x & q & -> & Hkx & Hq). cbn [subtree].
      rewrite (lookup_in_nodup k x m Hnd Hkx).
      rewrite Forall_forall in IH. apply (IH (k, x) Hkx); [|exact Hq].
      rewrite forallb_forall in Hwf. apply (Hwf (k, x) Hkx).
    + destruct (has_key s_type m) eqn:E; [|contradiction].
      destruct Hin as [<-|[]]. exists m. auto.
Qed.

Theorem eval_order_complete : forall t p m, subtree t p = Some (TMap m) ->
  has_key s_type m = true -> In p (eval_order t).
Proof.
  induction t as [s|l IH|m0 IH] using tree_ind2; intros p m Hs Hk.
  - destruct p as [|[k|i] p]; cbn in Hs; discriminate.
  - destruct p as [|[k|i] p]; cbn [subtree] in Hs; try discriminate.
    destruct (nth_error l i) as [x|] eqn:Hn; [|discriminate].
    cbn [eval_order]. apply (in_eo_list_intro _ l 0 i x p Hn).
    rewrite Forall_forall in IH. apply (IH x (nth_error_In _ _ Hn) p m); assumption.
  - destruct p as [|[k|i] p]; cbn [subtree] in Hs; try discriminate.
    + injection Hs as ->. cbn [eval_order]. apply in_or_app. right. rewrite Hk. left. reflexivity.
    + destruct (lookup k m0) as [x|] eqn:Hl; [|discriminate].
      cbn [eval_order]. apply in_or_app. left.
      apply lookup_in in Hl. apply (in_eo_items_intro _ m0 k x p Hl).
      rewrite Forall_forall in IH. apply (IH (k, x) Hl p m); assumption.
Qed.

Theorem eval_order_nodup : forall t, wf t = true -> NoDup (eval_order t).
Proof.
  induction t as [s|l IH|m IH] using tree_ind2; intros Hwf.
  - constructor.
  - cbn [eval_order]. cbn [wf] in Hwf. apply NoDup_eo_list.
    rewrite Forall_forall in *. intros x Hx. apply (IH x Hx).
    rewrite forallb_forall in Hwf. apply Hwf. exact Hx.
  - cbn [eval_order]. cbn [wf] in Hwf. apply andb_true_iff in Hwf as [Hnd Hwf].
    apply NoDup_app_intro.
    + apply NoDup_eo_items; [exact Hnd|]. rewrite Forall_forall in *. intros kv Hkv.
      apply (IH kv Hkv). rewrite forallb_forall in Hwf. apply (Hwf kv Hkv).
    + destruct (has_key s_type m); repeat constructor. intros [].
    + intros a Ha Hb. apply in_eo_items_inv in Ha as (k & x & q & -> & _).
      destruct (has_key s_type m); [|contradiction]. destruct Hb as [E|[]]. discriminate.
Qed.

(* ---- children before parents ---- *)
Theorem children_first : forall t, wf t = true -> forall p s r,
  In p (eval_order t) -> In (p ++ s :: r) (eval_order t) ->
  before (eval_order t) (p ++ s :: r) p.
Proof.
  induction t as [sc|l IH|m IH] using tree_ind2; intros Hwf p s r Hp Hc.
  - contradiction.
  - cbn [eval_order] in *. cbn [wf] in Hwf.
    apply in_eo_list_inv in Hp as (i & x & q & -> & Hn & Hq).
    apply in_eo_list_inv in Hc as (i' & x' & q' & E & Hn' & Hq').
    cbn [app Nat.add] in *. injection E as <- <-. rewrite Hn in Hn'. injection Hn' as <-.
    apply (before_eo_list _ l 0 i x _ _ Hn).
    rewrite Forall_forall in IH. apply (IH x (nth_error_In _ _ Hn)); [|assumption|assumption].
    rewrite forallb_forall in Hwf. apply Hwf. exact (nth_error_In _ _ Hn).
  - cbn [eval_order] in *. cbn [wf] in Hwf. apply andb_true_iff in Hwf as [Hnd Hwf].
    apply in_app_or in Hc as [Hc|Hc].
    2:{ exfalso. destruct (has_key s_type m); [|contradiction]. destruct Hc as [E|[]].
        destruct p; discriminate. }
    apply in_app_or in Hp as [Hp|Hp].
    + apply before_app_l.
      apply in_eo_items_inv in Hp as (k & x & q & -> & Hkx & Hq).
      apply in_eo_items_inv in Hc as (k' & x' & q' & E & Hkx' & Hq').
      cbn [app] in *. injection E as <- <-.
      pose proof (in_nodup_unique k x x' m Hnd Hkx Hkx') as <-.
      apply (before_eo_items _ m k x _ _ Hkx).
      rewrite Forall_forall in IH. apply (IH (k, x) Hkx); [|assumption|assumption].
      rewrite forallb_forall in Hwf. apply (Hwf (k, x) Hkx).
    + destruct (has_key s_type m); [|contradiction]. destruct Hp as [<-|[]].
      cbn [app]. apply in_split in Hc as (l1 & l2 & E). rewrite E.
      exists l1, l2, []. solve_app.
Qed.

(* ---- within a list, later items before earlier ones (at any depth p) ---- *)
Theorem list_right_to_left : forall t, wf t = true -> forall p i j r1 r2, i < j ->
  In (p ++ SIdx i :: r1) (eval_order t) -> In (p ++ SIdx j :: r2) (eval_order t) ->
  before (eval_order t) (p ++ SIdx j :: r2) (p ++ SIdx i :: r1).
Proof.
  induction t as [sc|l IH|m IH] using tree_ind2; intros Hwf p i j r1 r2 Hlt Hi Hj.
  - contradiction.
  - cbn [eval_order] in *. cbn [wf] in Hwf. destruct p as [|s p].
    + cbn [app] in *. apply eo_list_right_to_left; assumption.
    + apply in_eo_list_inv in Hi as (a & x & q & E & Hn & Hq).
      apply in_eo_list_inv in Hj as (a' & x' & q' & E' & Hn' & Hq').
      cbn [app Nat.add] in *. injection E as -> <-. injection E' as <- <-.
      rewrite Hn in Hn'. injection Hn' as <-.
      apply (before_eo_list _ l 0 a x _ _ Hn).
      rewrite Forall_forall in IH. apply (IH x (nth_error_In _ _ Hn)); try assumption.
      rewrite forallb_forall in Hwf. apply Hwf. exact (nth_error_In _ _ Hn).
  - cbn [eval_order] in *. cbn [wf] in Hwf. apply andb_true_iff in Hwf as [Hnd Hwf].
    apply in_app_or in Hi as [Hi|Hi].
    2:{ exfalso. destruct (has_key s_type m); [|contradiction]. destruct Hi as [E|[]].
        destruct p; discriminate. }
    apply in_app_or in Hj as [Hj|Hj].
    2:{ exfalso. destruct (has_key s_type m); [|contradiction]. destruct Hj as [E|[]].
        destruct p; discriminate. }
    apply before_app_l.
    apply in_eo_items_inv in Hi as (k & x & q & E & Hkx & Hq).
    apply in_eo_items_inv in Hj as (k' & x' & q' & E' & Hkx' & Hq').
    destruct p as [|s p]; cbn [app] in *; [discriminate|].
    injection E as -> <-. injection E' as <- <-.
    pose proof (in_nodup_unique k x x' m Hnd Hkx Hkx') as <-.
    apply (before_eo_items _ m k x _ _ Hkx).
    rewrite Forall_forall in IH. apply (IH (k, x) Hkx); try assumption.
    rewrite forallb_forall in Hwf. apply (Hwf (k, x) Hkx).
Qed.
