(* Basic facts about the runtime model RT: inversion of `step` per event, frame lemmas,
   permanence facts.  Used by proofs/RTProofs.v. *)
From Coq Require Import List Arith Bool Lia.
From Cobald Require Import model.RT.
Import ListNotations.

Definition started (x : pst) : bool :=
  match x with PRun | PCanc | PClean | PDone _ => true | _ => false end.

Ltac simp_state :=
  cbn [pay run_ guard pids rids thr_tids inside set_pay set_run set_guard set_thr set_inside
       p_st p_flav p_owner p_origin p_tid p_loop p_starts p_cancels p_cleans p_adopting p_exec_ret
       with_st with_phase with_running with_shut with_trigger with_sigint with_failure with_loopkill with_home set_home
       r_phase r_running r_shut_req r_shut_ret r_failures r_basefail r_failed_up r_trigger r_sigint r_loopkill
       r_home_aio r_home_trio] in *.

(* break a successful step into its cases *)
Ltac step_inv H :=
  unfold step in H;
  match type of H with
  | (match ?e with _ => _ end) = Some _ => destruct e
  | _ => idtac
  end;
  unfold step_core in H;
  repeat match type of H with
         | (if ?c then _ else _) = Some _ => let E := fresh "E" in destruct c eqn:E; [|try discriminate H]
         | (match ?x with _ => _ end) = Some _ => let E := fresh "E" in destruct x eqn:E; try discriminate H
         | (let _ := _ in _) = Some _ => cbv zeta in H
         | None = Some _ => discriminate H
         end;
  try (injection H as H); try subst;
  repeat match goal with
         | [H' : context[match p_st ?x with _ => _ end] |- _] =>
             let E := fresh "Est" in destruct (p_st x) eqn:E; try discriminate H'
         | [H' : context[match guard ?x with _ => _ end] |- _] =>
             let E := fresh "Eg" in destruct (guard x) eqn:E; try discriminate H'
         | [H' : Some _ = Some _ |- _] => injection H' as H'; try subst
         end.

Ltac rw_all :=
  repeat match goal with
         | [H : ?x = _ |- context[?x]] => rewrite H
         | [H : ?x = _, H2 : context[?x] |- _] => rewrite H in H2
         end.

Ltac upd_cases x :=
  unfold upd in *;
  let E := fresh "Eu" in
  match goal with
  | [ |- context[x =? ?k]] =>
      destruct (x =? k) eqn:E; [apply Nat.eqb_eq in E; subst|apply Nat.eqb_neq in E]
  | [H : context[x =? ?k] |- _] =>
      destruct (x =? k) eqn:E; [apply Nat.eqb_eq in E; subst|apply Nat.eqb_neq in E]
  end.

(* like upd_cases, but keeps the name x when both sides are variables *)
Ltac upd_keep x :=
  unfold upd in *;
  let E := fresh "Eu" in
  match goal with
  | [ |- context[x =? ?k]] =>
      destruct (x =? k) eqn:E; [apply Nat.eqb_eq in E; first [subst k | subst x]|apply Nat.eqb_neq in E]
  | [H : context[x =? ?k] |- _] =>
      destruct (x =? k) eqn:E; [apply Nat.eqb_eq in E; first [subst k | subst x]|apply Nat.eqb_neq in E]
  end.

Lemma upd_same {A} (f : nat -> A) k v : upd f k v k = v.
Proof. unfold upd. rewrite Nat.eqb_refl. reflexivity. Qed.
Lemma upd_other {A} (f : nat -> A) k v x : x <> k -> upd f k v x = f x.
Proof. intros H. unfold upd. destruct (x =? k) eqn:E; [apply Nat.eqb_eq in E; contradiction|reflexivity]. Qed.

Lemma flush_st s r p :
  (p_st (pay s p) = PQueued /\ p_owner (pay s p) = r /\ flush_queue s r p = with_st (pay s p) PReg)
  \/ flush_queue s r p = pay s p.
Proof.
  unfold flush_queue. destruct (p_st (pay s p)) eqn:E; auto.
  destruct (p_owner (pay s p) =? r) eqn:Eo; auto. apply Nat.eqb_eq in Eo. auto.
Qed.

(* ---------- run over traces ---------- *)
Lemma run_app s a b : run s (a ++ b) = match run s a with Some s' => run s' b | None => None end.
Proof.
  revert s. induction a as [|e a IH]; intros s; cbn [app run]; [reflexivity|].
  destruct (step s e); [apply IH|reflexivity].
Qed.

Lemma run_inv (P : rt -> Prop) :
  (forall s e s', P s -> step s e = Some s' -> P s') ->
  forall tr s s', P s -> run s tr = Some s' -> P s'.
Proof.
  intros Hstep tr. induction tr as [|e tr IH]; intros s s' Hs H; cbn [run] in H.
  - injection H as <-. exact Hs.
  - destruct (step s e) eqn:E; [|discriminate]. eapply IH; [|exact H]. eapply Hstep; eauto.
Qed.

(* ---------- classification of events ---------- *)
Definition pay_only (e : event) : bool :=
  match e with
  | AdoptCall _ _ _ _ | AdoptEnd _ _ | NewService _ _ _ | DropService _ | Step _ _ | Enter _ | Exit _
  | Cancelled _ | CleanStep _ | CleanupDone _ | ExecCall _ _ _ _ _ | ExecEnd _ _ _ | ExecAbort _ | Quiesce => true
  | _ => false
  end.

(* payload-only events leave every runner record and the guard untouched *)
Lemma frame_runners s e s' :
  pay_only e = true -> step s e = Some s' -> run_ s' = run_ s /\ guard s' = guard s.
Proof.
  intros Hp H. destruct e; cbn in Hp; try discriminate Hp; step_inv H; simp_state; auto.
Qed.

Definition run_only (e : event) : bool :=
  match e with
  | AcceptEnd _ _ | RunningSet _ | ShutdownCall _ _ | ShutdownEnd _ _ | Sigint => true
  | _ => false
  end.

(* runner-only events leave every payload record, the thread table and the sections untouched *)
Lemma frame_payloads s e s' :
  run_only e = true -> step s e = Some s' ->
  pay s' = pay s /\ thr_tids s' = thr_tids s /\ inside s' = inside s /\ pids s' = pids s.
Proof.
  intros Hp H. destruct e; cbn in Hp; try discriminate Hp; step_inv H; simp_state; auto.
Qed.

(* ---------- inversion per runner-affecting event ---------- *)
Lemma inv_AcceptCall s r s' :
  step s (AcceptCall r) = Some s' ->
  r_phase (run_ s r) = Idle /\
  ((guard s = None /\ guard s' = Some r /\ run_ s' = upd (run_ s) r (with_phase (run_ s r) Up)
    /\ pay s' = flush_queue s r)
   \/ (exists g, guard s = Some g /\ guard s' = Some g
       /\ run_ s' = upd (run_ s) r (with_phase (run_ s r) Rejected) /\ pay s' = pay s))
  /\ thr_tids s' = thr_tids s /\ inside s' = inside s /\ pids s' = pids s.
Proof.
  intros H. step_inv H; simp_state; split; auto; split; auto.
  right. eexists; eauto.
Qed.

Lemma inv_AcceptEnd s r o s' :
  step s (AcceptEnd r o) = Some s' ->
  accept_end_ok (run_ s r) o = true /\
  (phase_closing (r_phase (run_ s r)) = true -> r_loopkill (run_ s r) = false -> settled s r = true) /\
  guard s' = release (guard s) r /\ run_ s' = upd (run_ s) r (with_phase (run_ s r) (Ended o)).
Proof.
  intros H. step_inv H; simp_state.
  apply andb_prop in E. destruct E as [E1 E2]. split; [exact E1|]. split; [|auto].
  intros Hc Hk. rewrite Hc, Hk in E2. cbn in E2. rewrite orb_false_r in E2. exact E2.
Qed.

Lemma inv_RunningSet s r s' :
  step s (RunningSet r) = Some s' ->
  guard s' = guard s /\ run_ s' = upd (run_ s) r (with_running (run_ s r))
  /\ r_phase (run_ s r) <> Idle /\ r_phase (run_ s r) <> Rejected.
Proof. intros H. step_inv H; simp_state; repeat split; auto; congruence. Qed.

Lemma inv_ShutdownCall s c r s' :
  step s (ShutdownCall c r) = Some s' ->
  guard s' = guard s /\ r_running (run_ s r) = true /\
  run_ s' = upd (run_ s) r
     (with_trigger (with_shut (with_phase (run_ s r)
        (match r_phase (run_ s r) with Up => Closing CStop | x => x end))
        (S (r_shut_req (run_ s r))) (r_shut_ret (run_ s r)))).
Proof.
  intros H. step_inv H; simp_state. apply andb_prop in E. destruct E as [_ E]. auto.
Qed.

Lemma inv_ShutdownEnd s r ok s' :
  step s (ShutdownEnd r ok) = Some s' ->
  guard s' = guard s /\ ok = true /\ r_shut_ret (run_ s r) < r_shut_req (run_ s r) /\
  run_ s' = upd (run_ s) r (with_shut (run_ s r) (r_shut_req (run_ s r)) (S (r_shut_ret (run_ s r)))).
Proof.
  intros H. step_inv H; simp_state. apply andb_prop in E. destruct E as [E1 E2].
  apply Nat.ltb_lt in E2. auto.
Qed.

Lemma inv_Sigint s s' :
  step s Sigint = Some s' ->
  guard s' = guard s /\
  match guard s with
  | Some r => run_ s' = upd (run_ s) r
       (with_sigint (with_phase (run_ s r) (match r_phase (run_ s r) with Up => Closing CInt | x => x end)))
  | None => run_ s' = run_ s
  end.
Proof. intros H. step_inv H; simp_state; rewrite ?Eg; auto. Qed.

Lemma inv_Finish s p o s' :
  step s (Finish p o) = Some s' ->
  let i := pay s p in let r := p_owner i in
  p_st i = PRun /\ guard s' = guard s /\ pay s' = upd (pay s) p (with_st i (PDone o))
  /\ mem p (inside s) = false
  /\ (coroutine (p_flav i) = true -> may_act (run_ s r) (p_flav i) = true)
  /\ thr_tids s' = thr_tids s /\ inside s' = inside s
  /\ ((run_ s' = run_ s /\ (is_exec (p_origin i) = true \/ phase_live (r_phase (run_ s r)) = false))
      \/ (is_exec (p_origin i) = false /\ phase_live (r_phase (run_ s r)) = true
          /\ run_ s' = upd (run_ s) r (finish_rec (run_ s r) p (p_flav i) o))).
Proof.
  intros H. step_inv H; simp_state.
  - apply orb_false_elim in E0. destruct E0 as [Ea Eb].
    repeat split; auto.
    intros Hc. rewrite Hc in Ea. cbn in Ea. apply negb_false_iff in Ea. exact Ea.
    left. split; auto. apply orb_prop in E1. destruct E1 as [E1|E1]; auto.
    right. destruct (phase_live _); [discriminate|reflexivity].
  - apply orb_false_elim in E0. destruct E0 as [Ea Eb].
    apply orb_false_elim in E1. destruct E1 as [Ec Ed].
    repeat split; auto.
    intros Hc. rewrite Hc in Ea. cbn in Ea. apply negb_false_iff in Ea. exact Ea.
    right. repeat split; auto. destruct (phase_live _); [reflexivity|discriminate].
Qed.

(* two runner records that agree on everything but the homes *)
Definition same_but_home (a b : rinfo) : Prop :=
  r_phase a = r_phase b /\ r_running a = r_running b /\ r_shut_req a = r_shut_req b
  /\ r_shut_ret a = r_shut_ret b /\ r_failures a = r_failures b /\ r_basefail a = r_basefail b
  /\ r_failed_up a = r_failed_up b /\ r_trigger a = r_trigger b /\ r_sigint a = r_sigint b
  /\ r_loopkill a = r_loopkill b.

Lemma same_but_home_refl a : same_but_home a a.
Proof. unfold same_but_home; auto 12. Qed.

Lemma same_but_home_set a f h : same_but_home (set_home a f h) a.
Proof. destruct f; unfold same_but_home; cbn; auto 12. Qed.

Lemma inv_Start_run s p f tid loop other ok s' :
  step s (Start p f tid loop other ok) = Some s' ->
  guard s' = guard s /\ inside s' = inside s /\ forall r', same_but_home (run_ s' r') (run_ s r').
Proof.
  intros H. step_inv H; simp_state.
  all: split; [congruence|]; split; [reflexivity|]; intros r'.
  all: try apply same_but_home_refl.
  all: upd_cases r'; auto using same_but_home_refl, same_but_home_set.
Qed.

Lemma flav_eqb_eq f g : flav_eqb f g = true -> f = g.
Proof. destruct f, g; cbn; congruence. Qed.

Lemma inv_Start_pay s p f tid loop other ok s' :
  step s (Start p f tid loop other ok) = Some s' ->
  let i := pay s p in
  started (p_st i) = false /\ f = p_flav i /\ ok = true /\
  exists r, may_start (run_ s r) f = true
    /\ (p_st i = PUnit -> guard s = Some r) /\ (p_st i <> PUnit -> r = p_owner i)
    /\ (p_st i = PUnit \/ p_st i = PReg \/ p_st i = PExecPending)
    /\ pay s' = upd (pay s) p (mkP PRun f r (p_origin i) tid loop (S (p_starts i)) (p_cancels i) (p_cleans i)
                                  (p_adopting i) (p_exec_ret i)).
Proof.
  intros H. step_inv H; simp_state.
  all: repeat match goal with
         | [H : _ && _ = true |- _] => apply andb_prop in H; destruct H
         end.
  all: match goal with [H : flav_eqb _ _ = true |- _] => apply flav_eqb_eq in H; subst end.
  all: rewrite ?Est; cbn [started]; split; [reflexivity|]; split; [reflexivity|]; split; [reflexivity|].
  all: eexists; split; [eassumption|]; split; [intros; congruence|]; split; [intros; congruence|]; split; [tauto|rewrite ?E2; reflexivity].
Qed.
