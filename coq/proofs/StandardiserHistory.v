(* Properties of the Standardiser model (C06), part 2: increments, histories, pass-through. *)
From Coq Require Import ZArith QArith Qabs Qround List Bool Lia Lqa.
From Cobald Require Import kit.QKit kit.PyNum model.Standardiser proofs.StandardiserProofs.
Import ListNotations.
Open Scope Q_scope.

(* ------------------------------------------------------------------ value of a write *)
(* no limit interferes with the value x *)
Definition free (P : params) (lo hi : num) (x : Q) : Prop :=
  fle (val lo) (Fin x) /\ fle (Fin x) (val hi) /\
  fle (val (minimum P)) (Fin x) /\ fle (Fin x) (val (maximum P)).

Lemma free_convex P lo hi a b x : free P lo hi a -> free P lo hi b -> a <= x -> x <= b -> free P lo hi x.
Proof.
  unfold free. intros [A1 [A2 [A3 A4]]] [B1 [B2 [B3 B4]]] H1 H2.
  destruct (val lo), (val hi), (val (minimum P)), (val (maximum P)); cbn in *; try tauto;
    repeat split; try exact I; lra.
Qed.

Lemma free_comp P lo hi a b : a == b -> free P lo hi a -> free P lo hi b.
Proof.
  intros E F. apply (free_convex P lo hi a a); try assumption; lra.
Qed.

(* the value forwarded for a written value x *)
Definition fwd_spec (P : params) (lo hi : num) (g : Q) (x : Q) : flt :=
  if nne (granularity P) (PInt 1) then fC P lo hi (Fin (floorQ x g)) else fC P lo hi (Fin x).

Lemma fwd_spec_comp P lo hi g x y : x == y -> feq (fwd_spec P lo hi g x) (fwd_spec P lo hi g y).
Proof.
  intros E. unfold fwd_spec. destruct (nne _ _); apply fC_feq; cbn [feq]; [apply floorQ_comp|]; exact E.
Qed.

Lemma fC_val_feq P lo hi v x : feq (val v) (Fin x) -> feq (fC P lo hi (val v)) (fC P lo hi (Fin x)).
Proof. apply fC_feq. Qed.

Lemma write_value st v st' lo hi x g :
  set_demand st v = Ok st' -> wlo st = Ok lo -> whi st = Ok hi ->
  feq (val v) (Fin x) -> val (granularity (s_par st)) = Fin g -> 0 < g ->
  feq (val (s_demand st')) (fC (s_par st) lo hi (Fin x)) /\
  feq (val (tdemand st')) (fwd_spec (s_par st) lo hi g x).
Proof.
  intros H Hlo Hhi Hv Hg Hgp. unfold wlo, whi in *.
  destruct (set_demand_inv _ _ _ H) as [d [t [Hd [-> Hb]]]]. unfold tdemand, fwd_spec. cbn.
  assert (Vd : feq (val d) (fC (s_par st) lo hi (Fin x))).
  { rewrite (clamp_demand_val _ _ _ _ _ _ Hd Hlo Hhi). apply fC_feq. exact Hv. }
  split; [exact Vd|].
  destruct Hb as [[-> [fl [Hfl Ht]]]|[-> ->]]; [|exact Vd].
  rewrite (clamp_demand_val _ _ _ _ _ _ Ht Hlo Hhi). apply fC_feq.
  destruct (val v) as [xv| |] eqn:Ev; cbn [feq] in Hv; try contradiction.
  destruct (floor_to_val v _ xv g Ev Hg Hgp) as [fl' [E V]]. rewrite Hfl in E. inversion E; subst fl'.
  eapply feq_trans; [exact V|]. cbn [feq]. apply floorQ_comp. exact Hv.
Qed.

(* ------------------------------------------------------------------ increments add up *)
Section Increments.
  Variables (P : params) (sup lo hi : num) (g : Q).
  Hypothesis HV : valid P.
  Hypothesis Hsup : finite (val sup).
  Hypothesis Hg : val (granularity P) = Fin g.
  Hypothesis Hlo : nsub sup (backlog P) = Ok lo.
  Hypothesis Hhi : nadd sup (surplus P) = Ok hi.

  (* a standardiser whose stored value d is within a granule of its target's demand *)
  Record ready (st : std) (d : Q) : Prop := mkReady {
    r_par : s_par st = P;
    r_sup : p_supply (s_tgt st) = sup;
    r_dem : feq (val (s_demand st)) (Fin d);
    r_sync : fclose g (val (s_demand st)) (val (tdemand st)) }.

  Lemma g_pos : 0 < g.
  Proof. pose proof (v_gran _ HV) as Hp. unfold positive in Hp. rewrite Hg in Hp. exact Hp. Qed.

  Lemma free_id v x : feq (val v) (Fin x) -> free P lo hi x ->
    in_window lo hi v /\ in_limits P v.
  Proof.
    intros Hv [F1 [F2 [F3 F4]]]. apply feq_sym in Hv. unfold in_window, in_limits.
    repeat split; [eapply fle_feq_r|eapply fle_feq_l|eapply fle_feq_r|eapply fle_feq_l]; eassumption.
  Qed.

  Lemma incr_free st d k : ready st d -> free P lo hi (d + inject_Z k) ->
    exists st', incr k st = Ok st' /\ ready st' (d + inject_Z k)
      /\ feq (val (tdemand st')) (fwd_spec P lo hi g (d + inject_Z k))
      /\ p_util (s_tgt st') = p_util (s_tgt st) /\ p_alloc (s_tgt st') = p_alloc (s_tgt st).
  Proof.
    intros [Rp Rs Rd Rc] Hfree. unfold incr.
    assert (Hg' : val (granularity (s_par st)) = Fin g) by (rewrite Rp; exact Hg).
    rewrite (read_synced st g Hg' Rc).
    destruct (val (s_demand st)) as [dq| |] eqn:Ed; cbn [feq] in Rd; try contradiction.
    assert (Hfd : finite (val (s_demand st))) by (rewrite Ed; exact I).
    destruct (nadd_total_l (s_demand st) (PInt k) Hfd) as [v Hv]. rewrite Hv. cbn [bind].
    destruct (nadd_flt _ _ _ Hv) as [r [Er Fr]]. rewrite Ed in Er. cbn in Er. inversion Er; subst r.
    assert (Vv : feq (val v) (Fin (d + inject_Z k))).
    { eapply feq_trans; [exact Fr|]. cbn [feq]. rewrite Rd. reflexivity. }
    destruct (val v) as [xv| |] eqn:Ev; cbn [feq] in Vv; try contradiction.
    assert (Hs : finite (val (p_supply (s_tgt st)))) by (rewrite Rs; exact Hsup).
    destruct (write_total st v xv g Hs Ev Hg' g_pos) as [st' Hw]. exists st'. split; [exact Hw|].
    assert (HVs : valid (s_par st)) by (rewrite Rp; exact HV).
    assert (Hlo' : wlo st = Ok lo) by (unfold wlo; rewrite Rp, Rs; exact Hlo).
    assert (Hhi' : whi st = Ok hi) by (unfold whi; rewrite Rp, Rs; exact Hhi).
    destruct (set_demand_frame _ _ _ Hw) as [Fp [Fs [Fu Fa]]].
    destruct (read_after_write st v st' xv g HVs Hw Hs Ev Hg') as [_ [Hd Hc]].
    assert (Vv' : feq (val v) (Fin (d + inject_Z k))) by (rewrite Ev; exact Vv).
    destruct (free_id v _ Vv' Hfree) as [HW HL]. rewrite <- Rp in HL.
    pose proof (clamp_demand_id _ _ _ _ _ _ Hd Hlo' Hhi' HW HL) as Eid.
    destruct (write_value st v st' lo hi (d + inject_Z k) g Hw Hlo' Hhi' Vv' Hg' g_pos) as [_ Vt].
    rewrite Rp in Vt.
    split; [|split; [exact Vt|auto]].
    constructor; [congruence|congruence|rewrite Eid; exact Vv'|exact Hc].
  Qed.

  Lemma iter_incr_free n : forall st d, ready st d ->
    (forall j : nat, (1 <= j <= n)%nat -> free P lo hi (d + inject_Z (Z.of_nat j))) ->
    exists st', iter_incr n st = Ok st' /\ ready st' (d + inject_Z (Z.of_nat n))
      /\ ((1 <= n)%nat -> feq (val (tdemand st')) (fwd_spec P lo hi g (d + inject_Z (Z.of_nat n))))
      /\ p_util (s_tgt st') = p_util (s_tgt st) /\ p_alloc (s_tgt st') = p_alloc (s_tgt st).
  Proof.
    induction n as [|m IH]; intros st d Hr Hfree.
    - exists st. cbn [iter_incr]. split; [reflexivity|]. split.
      + destruct Hr as [Rp Rs Rd Rc]. constructor; try assumption.
        eapply feq_trans; [exact Rd|]. cbn. ring.
      + split; [lia|auto].
    - cbn [iter_incr].
      assert (F1 : free P lo hi (d + inject_Z 1)) by (apply (Hfree 1%nat); lia).
      destruct (incr_free st d 1 Hr F1) as [st1 [E1 [R1 [T1 [U1 A1]]]]]. rewrite E1. cbn [bind].
      assert (Eq : forall j : nat, d + inject_Z 1 + inject_Z (Z.of_nat j) == d + inject_Z (Z.of_nat (S j))).
      { intros j. rewrite Nat2Z.inj_succ. unfold Z.succ. rewrite inject_Z_plus. ring. }
      destruct (IH st1 (d + inject_Z 1) R1) as [st' [E' [R' [T' [U' A']]]]].
      { intros j Hj. eapply free_comp; [symmetry; apply Eq|]. apply Hfree. lia. }
      exists st'. split; [exact E'|]. split.
      + destruct R' as [Rp Rs Rd Rc]. constructor; try assumption.
        eapply feq_trans; [exact Rd|]. cbn [feq]. apply Eq.
      + split; [|split; congruence]. intros _. destruct m as [|m'].
        * cbn [iter_incr] in E'. inversion E'; subst st'. exact T1.
        * eapply feq_trans; [apply T'; lia|]. apply fwd_spec_comp. apply Eq.
  Qed.

  (* n increments of 1 and one increment of n leave the same target demand and the same read-back,
     provided no limit interferes with the values passed on the way *)
  Lemma increments_add_up st d (n : nat) : (1 <= n)%nat -> ready st d ->
    free P lo hi d -> free P lo hi (d + inject_Z (Z.of_nat n)) ->
    exists sa sb, iter_incr n st = Ok sa /\ incr (Z.of_nat n) st = Ok sb
      /\ feq (val (tdemand sa)) (val (tdemand sb))
      /\ feq (val (fst (get_demand sa))) (val (fst (get_demand sb)))
      /\ feq (val (fst (get_demand sb))) (Fin (d + inject_Z (Z.of_nat n)))
      /\ feq (val (tdemand sb)) (fwd_spec P lo hi g (d + inject_Z (Z.of_nat n))).
  Proof.
    intros Hn Hr F0 Fn.
    destruct (iter_incr_free n st d Hr) as [sa [Ea [Ra [Ta _]]]].
    { intros j Hj. apply (free_convex P lo hi d (d + inject_Z (Z.of_nat n))); try assumption.
      - assert (0 <= inject_Z (Z.of_nat j)) by (change 0 with (inject_Z 0); rewrite <- Zle_Qle; lia). lra.
      - assert (inject_Z (Z.of_nat j) <= inject_Z (Z.of_nat n)) by (rewrite <- Zle_Qle; lia). lra. }
    destruct (incr_free st d (Z.of_nat n) Hr Fn) as [sb [Eb [Rb [Tb _]]]].
    exists sa, sb. split; [exact Ea|]. split; [exact Eb|]. specialize (Ta Hn).
    assert (Ga : get_demand sa = (s_demand sa, sa)).
    { apply (read_synced sa g); [rewrite (r_par _ _ Ra); exact Hg|apply (r_sync _ _ Ra)]. }
    assert (Gb : get_demand sb = (s_demand sb, sb)).
    { apply (read_synced sb g); [rewrite (r_par _ _ Rb); exact Hg|apply (r_sync _ _ Rb)]. }
    rewrite Ga, Gb. cbn [fst].
    split; [eapply feq_trans; [exact Ta|apply feq_sym; exact Tb]|].
    split; [eapply feq_trans; [apply (r_dem _ _ Ra)|apply feq_sym; apply (r_dem _ _ Rb)]|].
    split; [apply (r_dem _ _ Rb)|exact Tb].
  Qed.
End Increments.

(* ------------------------------------------------------------------ histories *)
(* bookkeeping about the history, kept NEXT TO the modelled state (the model's `step` never sees it) *)
Record ghost := mkGhost {
  t_own : bool;      (* target.demand was last written by this standardiser *)
  d_own : bool;      (* the stored `_demand` stems from a write (it was not resynchronised from the target) *)
  dirty : bool }.    (* target.demand was written from outside since the last read or write *)

Definition ghost0 : ghost := mkGhost false false false.

Definition gstep (gh : ghost) (st : std) (o : op) : ghost :=
  match o with
  | Write _ => mkGhost true true false
  | Read => mkGhost (t_own gh)
                    (if moved (s_demand st) (tdemand st) (granularity (s_par st)) then false else d_own gh)
                    false
  | SetSupply _ => gh
  | OutsideSetDemand _ => mkGhost false (d_own gh) true
  end.

Definition gstep_state (r : res (ghost * std)) (o : op) : res (ghost * std) :=
  bind r (fun p => bind (step (snd p) o) (fun q => Ok (gstep (fst p) (snd p) o, fst q))).

Definition grun (gh : ghost) (st : std) (ops : list op) : res (ghost * std) :=
  fold_left gstep_state ops (Ok (gh, st)).

(* the bookkeeping does not influence the modelled run *)
Lemma grun_erase ops : forall r,
  fold_left step_state ops (bind r (fun p => Ok (snd p))) =
  bind (fold_left gstep_state ops r) (fun p => Ok (snd p)).
Proof.
  induction ops as [|o ops IH]; intros r; cbn [fold_left]; [reflexivity|].
  rewrite <- IH. f_equal. destruct r as [[gh st]|e]; cbn; [|reflexivity].
  destruct (step st o) as [[st' ob]|e]; reflexivity.
Qed.

Lemma run_grun gh st ops : run st ops = bind (grun gh st ops) (fun p => Ok (snd p)).
Proof. unfold run, grun. rewrite <- grun_erase. reflexivity. Qed.

Definition op_finite (o : op) : Prop :=
  match o with
  | Write v => finite (val v)
  | SetSupply s => finite (val s)
  | Read | OutsideSetDemand _ => True
  end.

Record Inv (P : params) (g : Q) (gh : ghost) (st : std) : Prop := mkInv {
  i_par : s_par st = P;
  i_sup : finite (val (p_supply (s_tgt st)));
  i_fwd : t_own gh = true -> in_limits P (tdemand st);
  i_dem : d_own gh = true -> in_limits P (s_demand st);
  i_sync : dirty gh = false -> fclose g (val (s_demand st)) (val (tdemand st)) }.

Lemma Inv_init P t st g : construct P t = Ok st -> finite (val (p_supply t)) -> 0 < g ->
  Inv P g ghost0 st.
Proof.
  intros Hc Hs Hg. destruct (construct_inv _ _ _ Hc) as [_ ->].
  constructor; cbn; try discriminate; try reflexivity; try assumption.
  intros _. apply fclose_refl. exact Hg.
Qed.

Lemma Inv_step P g gh st o : valid P -> val (granularity P) = Fin g -> Inv P g gh st -> op_finite o ->
  exists st' ob, step st o = Ok (st', ob) /\ Inv P g (gstep gh st o) st'.
Proof.
  intros HV Hg [Ip Is If Id Ic] Ho.
  assert (Hgp : 0 < g). { pose proof (v_gran _ HV) as Hp. unfold positive in Hp. rewrite Hg in Hp. exact Hp. }
  assert (Hg' : val (granularity (s_par st)) = Fin g) by (rewrite Ip; exact Hg).
  assert (HV' : valid (s_par st)) by (rewrite Ip; exact HV).
  destruct o as [v| |s|d]; cbn [step gstep op_finite] in *.
  - destruct (val v) as [x| |] eqn:Ev; try contradiction.
    destruct (write_total st v x g Is Ev Hg' Hgp) as [st' Hw]. rewrite Hw. cbn [bind].
    do 2 eexists. split; [reflexivity|].
    destruct (set_demand_frame _ _ _ Hw) as [Fp [Fs _]].
    destruct (write_limits _ _ _ HV' Hw) as [L1 L2]. rewrite Ip in L1, L2.
    destruct (read_after_write st v st' x g HV' Hw Is Ev Hg') as [_ [_ Hc]].
    constructor; cbn; intros; try assumption; congruence.
  - destruct (get_demand_cases st) as [[Hm E]|[Hm E]]; rewrite E; do 2 eexists; (split; [reflexivity|]);
      rewrite Hm.
    + constructor; cbn; intros; try assumption; try discriminate.
      * apply If. assumption.
      * apply fclose_refl. exact Hgp.
    + constructor; cbn; intros; try assumption.
      * apply If. assumption.
      * apply Id. assumption.
      * apply (moved_false_iff _ _ _ g Hg'). exact Hm.
  - do 2 eexists. split; [reflexivity|]. constructor; cbn; intros; try assumption.
    + apply If. assumption.
    + apply Id. assumption.
    + apply Ic. assumption.
  - do 2 eexists. split; [reflexivity|]. constructor; cbn; intros; try assumption; try discriminate.
    apply Id. assumption.
Qed.

Lemma Inv_fold P g ops : valid P -> val (granularity P) = Fin g -> Forall op_finite ops ->
  forall gh st, Inv P g gh st ->
  exists gh' st', fold_left gstep_state ops (Ok (gh, st)) = Ok (gh', st') /\ Inv P g gh' st'.
Proof.
  intros HV Hg. induction 1 as [|o ops Ho _ IH]; intros gh st HI; cbn [fold_left].
  - eauto.
  - destruct (Inv_step P g gh st o HV Hg HI Ho) as [st' [ob [E HI']]].
    unfold gstep_state at 2. cbn [bind fst snd]. rewrite E. cbn [bind fst snd]. apply IH. exact HI'.
Qed.

(* every history of finite operations on an accepted standardiser over a finite initial supply
   runs to completion, and afterwards the invariant holds *)
Lemma history_invariant P t st0 g ops :
  construct P t = Ok st0 -> finite (val (p_supply t)) -> val (granularity P) = Fin g ->
  Forall op_finite ops ->
  exists gh st, grun ghost0 st0 ops = Ok (gh, st) /\ run st0 ops = Ok st /\ Inv P g gh st.
Proof.
  intros Hc Hs Hg Hops. destruct (construct_inv _ _ _ Hc) as [HV _].
  assert (Hgp : 0 < g). { pose proof (v_gran _ HV) as Hp. unfold positive in Hp. rewrite Hg in Hp. exact Hp. }
  destruct (Inv_fold P g ops HV Hg Hops ghost0 st0 (Inv_init P t st0 g Hc Hs Hgp)) as [gh [st [E HI]]].
  exists gh, st. split; [exact E|]. split; [|exact HI].
  rewrite (run_grun ghost0). unfold grun. rewrite E. reflexivity.
Qed.

(* without any finiteness: as long as the history does not hit a NaN outcome, what the standardiser
   forwarded and what it stored from a write stay within [minimum, maximum] *)
Record InvL (P : params) (gh : ghost) (st : std) : Prop := mkInvL {
  l_par : s_par st = P;
  l_fwd : t_own gh = true -> in_limits P (tdemand st);
  l_dem : d_own gh = true -> in_limits P (s_demand st) }.

Lemma InvL_step P gh st o st' ob : valid P -> InvL P gh st -> step st o = Ok (st', ob) ->
  InvL P (gstep gh st o) st'.
Proof.
  intros HV [Ip If Id] Hs. destruct o as [v| |s|d]; cbn [step gstep] in *.
  - destruct (set_demand st v) as [st1|] eqn:Hw; cbn [bind] in Hs; [|discriminate]. inversion Hs; subst st' ob.
    destruct (set_demand_frame _ _ _ Hw) as [Fp _].
    assert (HV' : valid (s_par st)) by (rewrite Ip; exact HV).
    destruct (write_limits _ _ _ HV' Hw) as [L1 L2]. rewrite Ip in L1, L2.
    constructor; cbn; intros; try assumption; congruence.
  - destruct (get_demand_cases st) as [[Hm E]|[Hm E]]; rewrite E in Hs; inversion Hs; subst st' ob; rewrite Hm;
      constructor; cbn; intros; try assumption; try discriminate; auto.
  - inversion Hs; subst st' ob. constructor; cbn; intros; auto.
  - inversion Hs; subst st' ob. constructor; cbn; intros; try discriminate; auto.
Qed.

Lemma InvL_fold P ops : valid P -> forall gh st gh' st', InvL P gh st ->
  fold_left gstep_state ops (Ok (gh, st)) = Ok (gh', st') -> InvL P gh' st'.
Proof.
  intros HV. induction ops as [|o ops IH]; intros gh st gh' st' HI; cbn [fold_left].
  - intros H. inversion H; subst. exact HI.
  - unfold gstep_state at 2. cbn [bind fst snd]. destruct (step st o) as [[st1 ob]|e] eqn:E; cbn [bind fst snd].
    + apply IH. eapply InvL_step; eassumption.
    + intros H. exfalso. clear -H. induction ops as [|o' ops IH']; cbn [fold_left] in H; [discriminate|].
      apply IH'. exact H.
Qed.

Lemma history_limits P t st0 ops gh st :
  construct P t = Ok st0 -> grun ghost0 st0 ops = Ok (gh, st) -> InvL P gh st.
Proof.
  intros Hc Hr. destruct (construct_inv _ _ _ Hc) as [HV ->].
  eapply InvL_fold; [exact HV| |exact Hr]. constructor; cbn; try reflexivity; discriminate.
Qed.

(* ------------------------------------------------------------------ pass-through *)
(* what is observed through the decorator is the target's supply/utilisation/allocation, and the
   standardiser itself never changes them *)
Lemma passthrough_step st o st' ob : step st o = Ok (st', ob) ->
  o_supply ob = p_supply (s_tgt st') /\ o_util ob = p_util (s_tgt st') /\ o_alloc ob = p_alloc (s_tgt st')
  /\ o_tdemand ob = tdemand st'
  /\ p_util (s_tgt st') = p_util (s_tgt st) /\ p_alloc (s_tgt st') = p_alloc (s_tgt st)
  /\ p_supply (s_tgt st') = match o with SetSupply s => s | _ => p_supply (s_tgt st) end
  /\ s_par st' = s_par st.
Proof.
  destruct o as [v| |s|d]; cbn [step].
  - destruct (set_demand st v) as [st1|] eqn:Hw; cbn [bind]; [|discriminate]. intros H. inversion H; subst.
    destruct (set_demand_frame _ _ _ Hw) as [Fp [Fs [Fu Fa]]]. cbn. auto 10.
  - destruct (get_demand_cases st) as [[_ E]|[_ E]]; rewrite E; intros H; inversion H; subst; cbn; auto 10.
  - intros H. inversion H; subst. cbn. auto 10.
  - intros H. inversion H; subst. cbn. auto 10.
Qed.

Lemma passthrough_run ops : forall st st', run st ops = Ok st' ->
  p_util (s_tgt st') = p_util (s_tgt st) /\ p_alloc (s_tgt st') = p_alloc (s_tgt st) /\ s_par st' = s_par st.
Proof.
  unfold run. induction ops as [|o ops IH]; intros st st'; cbn [fold_left].
  - intros H. inversion H. auto.
  - unfold step_state at 2. cbn [bind]. destruct (step st o) as [[st1 ob]|e] eqn:E; cbn [bind fst].
    + intros H. destruct (IH _ _ H) as [U [A Pq]].
      destruct (passthrough_step _ _ _ _ E) as [_ [_ [_ [_ [U1 [A1 [_ P1]]]]]]]. repeat split; congruence.
    + intros H. exfalso. clear -H. induction ops as [|o' ops IH']; cbn [fold_left] in H; [discriminate|].
      apply IH'. exact H.
Qed.

(* ------------------------------------------------------------------ the statements of props/C06.v *)
Lemma constructor_validates P t :
  (valid P -> construct P t = Ok (mkStd P (p_demand t) t)) /\ (~ valid P -> construct P t = Err EValue).
Proof. split; [apply construct_accepts|apply construct_rejects]. Qed.

Lemma forwarded_within_limits st v st' lo hi :
  valid (s_par st) -> set_demand st v = Ok st' -> wlo st = Ok lo -> whi st = Ok hi ->
  in_limits (s_par st) (tdemand st')
  /\ (window_compatible (s_par st) lo hi -> in_window lo hi (tdemand st'))
  /\ (forall fl, nne (granularity (s_par st)) (PInt 1) = true ->
        floor_to v (granularity (s_par st)) = Ok fl ->
        in_window lo hi fl -> in_limits (s_par st) fl -> tdemand st' = fl)
  /\ (nne (granularity (s_par st)) (PInt 1) = false ->
        in_window lo hi v -> in_limits (s_par st) v -> tdemand st' = v)
  /\ s_par st' = s_par st /\ p_supply (s_tgt st') = p_supply (s_tgt st)
  /\ p_util (s_tgt st') = p_util (s_tgt st) /\ p_alloc (s_tgt st') = p_alloc (s_tgt st).
Proof.
  intros HV H Hlo Hhi.
  split; [apply (write_limits _ _ _ HV H)|].
  split; [intros Hc; apply (write_window _ _ _ _ _ HV H Hlo Hhi Hc)|].
  split; [intros fl Hg Hfl HW HL; eapply write_rounds; eassumption|].
  split; [intros Hg HW HL; eapply write_unrounded; eassumption|].
  apply (set_demand_frame _ _ _ H).
Qed.

Lemma write_defined st v x g : valid (s_par st) ->
  val (p_supply (s_tgt st)) = Fin x -> finite (val v) -> val (granularity (s_par st)) = Fin g ->
  exists st' lo hi, set_demand st v = Ok st' /\ wlo st = Ok lo /\ whi st = Ok hi
    /\ fle (val lo) (Fin x) /\ fle (Fin x) (val hi).
Proof.
  intros HV Hs Hv Hg.
  assert (Hgp : 0 < g). { pose proof (v_gran _ HV) as Hp. unfold positive in Hp. rewrite Hg in Hp. exact Hp. }
  assert (Hsf : finite (val (p_supply (s_tgt st)))) by (rewrite Hs; exact I).
  destruct (val v) as [xv| |] eqn:Ev; try contradiction.
  destruct (write_total st v xv g Hsf Ev Hg Hgp) as [st' Hw].
  destruct (window_total (p_supply (s_tgt st)) (backlog (s_par st)) (surplus (s_par st)) Hsf) as [lo' [hi' [H1 H2]]].
  exists st', lo', hi'. split; [exact Hw|]. split; [exact H1|]. split; [exact H2|].
  destruct (nsub_flt _ _ _ H1) as [rl [El Fl]]. destruct (nadd_flt _ _ _ H2) as [rh [Eh Fh]].
  pose proof (v_backlog _ HV) as Hb. pose proof (v_surplus _ HV) as Hp. unfold positive in *.
  rewrite Hs in El, Eh.
  split.
  - apply (fle_feq_l rl); [apply feq_sym; exact Fl|].
    destruct (val (backlog (s_par st))); cbn in *; try tauto; inversion El; subst; cbn; try exact I. lra.
  - apply (fle_feq_r _ rh); [apply feq_sym; exact Fh|].
    destruct (val (surplus (s_par st))); cbn in *; try tauto; inversion Eh; subst; cbn; try exact I. lra.
Qed.

Lemma floor_is_floor v gn x g : val v = Fin x -> val gn = Fin g -> 0 < g ->
  exists fl, floor_to v gn = Ok fl /\ feq (val fl) (Fin (inject_Z (Qfloor (x / g)) * g))
    /\ inject_Z (Qfloor (x / g)) * g <= x /\ x < inject_Z (Qfloor (x / g)) * g + g.
Proof.
  intros Hv Hg Hgp. destruct (floor_to_val v gn x g Hv Hg Hgp) as [fl [E V]].
  exists fl. split; [exact E|]. split; [exact V|]. apply (floorQ_spec x g Hgp).
Qed.

Lemma readback st v st' x g lo hi : valid (s_par st) -> set_demand st v = Ok st' ->
  finite (val (p_supply (s_tgt st))) -> val v = Fin x -> val (granularity (s_par st)) = Fin g ->
  wlo st = Ok lo -> whi st = Ok hi ->
  let r := fst (get_demand st') in
  snd (get_demand st') = st'
  /\ clamp_demand (s_par st) (s_tgt st) v = Ok r
  /\ in_limits (s_par st) r
  /\ (window_compatible (s_par st) lo hi -> in_window lo hi r)
  /\ (in_window lo hi v -> in_limits (s_par st) v -> r = v)
  /\ fclose g (val r) (val (tdemand st'))
  /\ fle (val (tdemand st')) (val r).
Proof.
  intros HV H Hs Hv Hg Hlo Hhi.
  destruct (read_after_write st v st' x g HV H Hs Hv Hg) as [E [Hd Hc]]. rewrite E. cbn [fst snd].
  split; [reflexivity|]. split; [exact Hd|].
  split; [apply (write_limits _ _ _ HV H)|].
  split; [intros Hcm; apply (write_window _ _ _ _ _ HV H Hlo Hhi Hcm)|].
  split; [intros HW HL; eapply clamp_demand_id; eassumption|].
  split; [exact Hc|].
  pose proof (write_near _ _ _ _ _ HV H Hs Hv Hg) as Hn.
  destruct (val (tdemand st')), (val (s_demand st')); cbn in *; tauto.
Qed.

Lemma read_rule st g : val (granularity (s_par st)) = Fin g -> 0 < g ->
  let r := fst (get_demand st) in let st' := snd (get_demand st) in
  s_tgt st' = s_tgt st /\ s_par st' = s_par st /\ s_demand st' = r
  /\ fclose g (val r) (val (tdemand st))
  /\ (fclose g (val (s_demand st)) (val (tdemand st)) -> r = s_demand st /\ st' = st)
  /\ (~ fclose g (val (s_demand st)) (val (tdemand st)) -> r = tdemand st).
Proof.
  intros Hg Hgp. cbv zeta. destruct (get_demand_frame st) as [F1 [F2 F3]].
  split; [exact F1|]. split; [exact F2|]. split; [exact F3|].
  split; [apply read_close; assumption|].
  split; [intros Hc; rewrite (read_synced st g Hg Hc); auto|intros Hn; apply (read_resync st g Hg Hn)].
Qed.
