(* The parametric skeleton of kit/FactoryIR.v, instantiated with the reference expressions, IS the hand-written
   model of FactoryPool (model/Factory.v) - for every state, factory, fuel and iteration order. *)
From Coq Require Import ZArith QArith List Bool Arith.
From Cobald Require Import kit.QKit kit.SetKit model.Factory kit.FactoryIR.
Import ListNotations.
Open Scope Q_scope.

Lemma release_p_ref : forall st i, release_p ref_params st i = release st i.
Proof. reflexivity. Qed.

Lemma release_all_p_ref : forall l st, release_all_p ref_params l st = release_all l st.
Proof.
  induction l as [|x r IH]; intros st; [reflexivity|].
  unfold release_all_p, release_all in *. cbn [fold_left]. rewrite release_p_ref. apply IH.
Qed.

Lemma reapable_p_ref : forall st, reapable_p ref_params st = reapable st.
Proof. reflexivity. Qed.

Lemma reap_p_ref : forall st, reap_p ref_params st = reap st.
Proof. intros st. unfold reap_p, reap. rewrite reapable_p_ref. apply release_all_p_ref. Qed.

Lemma hit_list_p_ref : forall ord st, hit_list_p ref_params ord st = hit_list ord st.
Proof. reflexivity. Qed.

Lemma pick_release_p_ref : forall st target hitl rest excess,
  pick_release_p ref_params st target hitl excess rest = pick_release (dem st) excess rest.
Proof.
  intros st target hitl. induction rest as [|c r IH]; intros excess; [reflexivity|].
  cbn [pick_release_p pick_release].
  change (evc (mkEnv st target excess c hitl) (p_break_if ref_params)) with (Qle_bool excess 0).
  destruct (Qle_bool excess 0); [reflexivity|].
  change (evc (mkEnv st target excess c hitl) (p_release_if ref_params)) with (Qle_bool (dem st c) excess).
  destruct (Qle_bool (dem st c) excess).
  - change (ev (mkEnv st target excess c hitl) (p_excess_step ref_params)) with (excess - dem st c).
    rewrite IH. reflexivity.
  - apply IH.
Qed.

Lemma shrink_p_ref : forall ord st target, shrink_p ref_params ord st target = shrink ord st target.
Proof.
  intros ord st target. unfold shrink_p, shrink, shrink_released.
  rewrite hit_list_p_ref, pick_release_p_ref, release_all_p_ref, reap_p_ref. reflexivity.
Qed.

Lemma get_spawned : forall factory st, get (spawn factory st) (length (store st)) = factory (ncalls st).
Proof. intros factory st. unfold get, spawn. cbn [store]. apply nth_middle. Qed.

Lemma grow_loop_p_ref : forall factory fuel st target missing,
  grow_loop_p ref_params factory fuel st target missing = grow_loop factory fuel st missing.
Proof.
  intros factory. induction fuel as [|f IH]; intros st target missing.
  - reflexivity.
  - cbn [grow_loop_p grow_loop].
    change (evc (mkEnv st target missing O []) (p_grow_while ref_params)) with (Qltb 0 missing).
    destruct (Qltb 0 missing); [|reflexivity].
    change (evc (mkEnv (spawn factory st) target missing (length (store st)) []) (p_assert ref_params))
      with (Qltb 0 (c_demand (get (spawn factory st) (length (store st))))).
    change (ev (mkEnv (spawn factory st) target missing (length (store st)) []) (p_missing_step ref_params))
      with (missing - c_demand (get (spawn factory st) (length (store st)))).
    rewrite get_spawned.
    destruct (Qltb 0 (c_demand (factory (ncalls st)))); [apply IH|reflexivity].
Qed.

Lemma grow_p_ref : forall factory fuel st target, grow_p ref_params factory fuel st target = grow factory fuel st target.
Proof.
  intros factory fuel st target. unfold grow_p, grow.
  change (ev (mkEnv st target 0 O []) (p_missing_init ref_params)) with (target - cdem st).
  rewrite grow_loop_p_ref. destruct (grow_loop factory fuel st (target - cdem st)); [rewrite reap_p_ref|..]; reflexivity.
Qed.

Theorem adjust_p_ref : forall factory fuel ord st,
  adjust_p ref_params factory fuel ord st = adjust factory fuel ord st.
Proof.
  intros factory fuel ord st. unfold adjust_p, adjust.
  change (evc (env0 st) (p_run_cond ref_params)) with (Qltb (demand st) (supply st)).
  change (ev (env0 st) (p_run_target ref_params)) with (demand st).
  destruct (Qltb (demand st) (supply st)); [rewrite shrink_p_ref; reflexivity|apply grow_p_ref].
Qed.

(* ---- readers and constructor ---- *)
Lemma supply_p_ref : forall st, supply_p ref_rparams st = supply st.
Proof. reflexivity. Qed.

Lemma utilisation_p_ref : forall st, utilisation_p ref_rparams st = utilisation st.
Proof. reflexivity. Qed.

Lemma allocation_p_ref : forall st, allocation_p ref_rparams st = allocation st.
Proof. reflexivity. Qed.

Lemma init_p_ref : forall cs, init_p ref_rparams cs = init cs.
Proof. reflexivity. Qed.
