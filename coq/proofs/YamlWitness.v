(* C18: concrete tables / documents: the counterexample to the literal "rejected anywhere" claim
   (finding C18-ignored-tag) and a non-trivial instance of the guarded theorem's hypotheses. *)
From Coq Require Import List NArith Bool String.
From Cobald Require Import model.YamlDispatch.
Import ListNotations.

Definition t_str := s2n "tag:yaml.org,2002:str"%string.
Definition t_seq := s2n "tag:yaml.org,2002:seq"%string.
Definition t_map := s2n "tag:yaml.org,2002:map"%string.
Definition t_apply := s2n "tag:yaml.org,2002:python/object/apply:os.system"%string.
Definition t_name := s2n "tag:yaml.org,2002:python/name:os.system"%string.
Definition t_p0 := s2n "!P0"%string.

(* SafeLoader's tables cut down to four tags, plus one lazy plugin *)
Definition demo_tables : tables :=
  mkTables [ (t_str, SafeBuiltin (BScalar 6)); (s2n "tag:yaml.org,2002:int"%string, SafeBuiltin (BScalar 2));
             (t_seq, SafeBuiltin BSeq); (t_map, SafeBuiltin BMap); (t_p0, Plugin 0 false) ]
           (Some Undefined) [] None true.

Definition all_ok : N -> str -> bool := fun _ _ => true.
Definition fac_ok : N -> option vclass := fun _ => Some VHash.

(* !P0 {a: "1", <<: !!python/object/apply:os.system {b: "2"}} *)
Definition ignored_node : node := Map t_apply [(Scalar t_str (s2n "b"), Scalar t_str (s2n "2"))].
Definition ignored_doc : node :=
  Map t_p0 [ (Scalar t_str (s2n "a"), Scalar t_str (s2n "1")); (Scalar merge_tag (s2n "<<"), ignored_node) ].

Lemma ignored_tag_witness :
  safe_tables demo_tables = true /\ subnode ignored_node ignored_doc
  /\ python_tag (tag_of ignored_node) = true
  /\ construct_document all_ok fac_ok demo_tables ignored_doc
     = (Ok VHash, [EvB (BScalar 6); EvB (BScalar 6); EvB (BScalar 6); EvB (BScalar 6); Call 0%N]).
Proof.
  split; [vm_compute; reflexivity|]. split.
  - unfold ignored_doc. eapply sub_value; [right; left; reflexivity|apply sub_self].
  - split; vm_compute; reflexivity.
Qed.

(* !P0 {a: [ !!python/name:os.system "" ]}: the lazy plugin is called with an empty list, then the
   list's content is constructed and the foreign tag is met *)
Definition foreign_leaf : node := Scalar t_name [].
Definition lazy_doc : node := Map t_p0 [ (Scalar t_str (s2n "a"), Seq t_seq [foreign_leaf]) ].

Lemma lazy_doc_instance :
  safe_tables demo_tables = true /\ visits demo_tables lazy_doc foreign_leaf
  /\ python_tag (tag_of foreign_leaf) = true
  /\ construct_document all_ok fac_ok demo_tables lazy_doc
     = (Err EUndef, [EvB (BScalar 6); EvB BSeq; Call 0%N]).
Proof.
  split; [vm_compute; reflexivity|]. split.
  - eapply visits_child with (c := Seq t_seq [foreign_leaf]).
    + vm_compute. right. left. reflexivity.
    + eapply visits_child with (c := foreign_leaf); [vm_compute; left; reflexivity|apply visits_self].
  - split; vm_compute; reflexivity.
Qed.
