(* Invariants of the runtime model RT and the lemmas behind the property theorems
   C01 C02 C03 C10 C11 C12 (props/C01.v ...). *)
From Coq Require Import List Arith Bool Lia.
From Cobald Require Import model.RT proofs.RTBase.
Import ListNotations.

(* ====================================================================================== *)
(* 1. per-runner record invariant                                                         *)
(* ====================================================================================== *)
Definition Rok (i : rinfo) : Prop :=
  (r_phase i = Closing CFail -> r_failures i <> [] \/ r_basefail i = true) /\
  (r_failed_up i = true ->
     r_phase i = Closing CFail \/
     exists o, r_phase i = Ended o /\ o <> AExclusive /\ (o = AReturned -> r_sigint i = true)) /\
  (forall cs, r_phase i = Ended (ARuntime cs) -> cs <> [] /\ forall c, In c cs -> In c (r_failures i)) /\
  ((r_phase i = Closing CStop \/ r_phase i = Closing CInt \/ r_phase i = Ended AReturned
    \/ r_sigint i = true) -> r_trigger i = true).

Lemma Rok_r0 : Rok r0.
Proof.
  unfold Rok, r0; cbn. repeat split; try discriminate; try congruence.
  intros [H|[H|[H|H]]]; discriminate.
Qed.

Ltac rok_start :=
  unfold Rok in *; simp_state;
  repeat match goal with [H : _ /\ _ |- _] => destruct H end.

Lemma Rok_up i : Rok i -> r_phase i = Idle -> Rok (with_phase i Up) /\ Rok (with_phase i Rejected).
Proof.
  intros R Hp. rok_start. rewrite Hp in *.
  split; (split; [discriminate|]); (split; [|split]); try discriminate.
  all: try (intros Hf; match goal with [H : r_failed_up _ = true -> _ |- _] => destruct (H Hf) as [X|[o [X _]]]; discriminate end).
  all: intros [X|[X|[X|X]]]; try discriminate; auto.
Qed.

Lemma mem_cause_In c l : mem_cause c l = true -> In c l.
Proof.
  unfold mem_cause. intros H. apply existsb_exists in H. destruct H as [x [Hin Heq]].
  destruct c, x; cbn in Heq; try discriminate; try (apply Nat.eqb_eq in Heq; subst); exact Hin.
Qed.

Lemma Rok_ended i o : Rok i -> accept_end_ok i o = true -> Rok (with_phase i (Ended o)).
Proof.
  intros R Ha. rok_start. unfold accept_end_ok in Ha.
  split; [discriminate|]. split; [|split].
  - intros Hf. right. exists o. split; [reflexivity|].
    destruct (r_phase i) eqn:Ep; try discriminate; destruct o; try discriminate.
    all: split; try discriminate; try (intros; congruence).
    all: try (intros _; destruct c; [exact Ha| |]).
    all: try (match goal with [H : r_failed_up _ = true -> _ |- _] => destruct (H Hf) as [X|[o' [X _]]]; congruence end).
  - intros cs Hc. injection Hc as ->.
    destruct (r_phase i); try discriminate.
    apply andb_prop in Ha. destruct Ha as [Hne Hall]. split.
    + destruct cs; [discriminate|congruence].
    + intros cx Hin. rewrite forallb_forall in Hall. apply mem_cause_In. apply Hall. exact Hin.
  - intros [X|[X|[X|X]]]; try discriminate; auto.
    injection X as ->. destruct (r_phase i) eqn:Ep; try discriminate.
    destruct c; auto.
Qed.

Definition same_core (a b : rinfo) : Prop :=
  r_phase a = r_phase b /\ r_failures a = r_failures b /\ r_basefail a = r_basefail b
  /\ r_failed_up a = r_failed_up b /\ r_trigger a = r_trigger b /\ r_sigint a = r_sigint b.

Lemma Rok_core i j : same_core i j -> Rok j -> Rok i.
Proof.
  unfold same_core, Rok. intros [H1 [H5 [H6 [H7 [H8 H9]]]]] R.
  rewrite H1, H5, H6, H7, H8, H9. exact R.
Qed.

Lemma Rok_same i j : same_but_home i j -> Rok j -> Rok i.
Proof.
  intros [H1 [H2 [H3 [H4 [H5 [H6 [H7 [H8 H9]]]]]]]]. apply Rok_core. unfold same_core; auto 10.
Qed.

Lemma Rok_running i : Rok i -> Rok (with_running i).
Proof. apply Rok_core. unfold same_core; cbn; auto 10. Qed.

Lemma Rok_shut i a b : Rok i -> Rok (with_shut i a b).
Proof. apply Rok_core. unfold same_core; cbn; auto 10. Qed.

Lemma Rok_shutdown i a b :
  Rok i -> Rok (with_trigger (with_shut (with_phase i (match r_phase i with Up => Closing CStop | x => x end)) a b)).
Proof.
  intros R. rok_start. destruct (r_phase i) eqn:Ep; (split; [|split; [|split]]); auto; try discriminate.
  all: intros Hf; match goal with [H : r_failed_up _ = true -> _ |- _] => destruct (H Hf) as [X|[o' [X _]]]; discriminate end.
Qed.

Lemma Rok_sigint i :
  Rok i -> Rok (with_sigint (with_phase i (match r_phase i with Up => Closing CInt | x => x end))).
Proof.
  intros R. rok_start. destruct (r_phase i) eqn:Ep; (split; [|split; [|split]]); auto; try discriminate.
  all: try (intros Hf; match goal with [H : r_failed_up _ = true -> _ |- _] => destruct (H Hf) as [X|[o' [X Y]]]; try discriminate end).
  all: try (right; exists o'; destruct Y as [Y1 Y2]; injection X as <-; auto).
  all: try (left; assumption).
Qed.

Lemma Rok_finish i p f o : Rok i -> phase_live (r_phase i) = true -> Rok (finish_rec i p f o).
Proof.
  intros R Hl. rok_start. unfold finish_rec.
  destruct (r_phase i) eqn:Ep; try discriminate Hl; cbn [phase_up].
  all: destruct o; try destruct f; simp_state; rewrite ?Ep.
  all: (split; [|split; [|split]]); auto; try discriminate.
  all: try (intros _; left; discriminate).
  all: try (intros _; right; reflexivity).
  all: try (intros Hf; cbn in Hf; auto).
  all: try (match goal with [H : r_failed_up _ = true -> _ |- _] => destruct (H Hf) as [X|[o' [X Y]]]; try discriminate; auto end).
  all: try (intros [X|[X|[X|X]]]; try discriminate; auto).
  all: try (destruct Hf as [X|[X|[X|X]]]; try discriminate; auto).
Qed.

Definition all_Rok (s : rt) : Prop := forall r, Rok (run_ s r).

Lemma all_Rok_init : all_Rok init.
Proof. intros r. exact Rok_r0. Qed.

Lemma all_Rok_step s e s' : all_Rok s -> step s e = Some s' -> all_Rok s'.
Proof.
  intros R H. destruct (pay_only e) eqn:Ep.
  { destruct (frame_runners _ _ _ Ep H) as [Hr _]. intros r. rewrite Hr. apply R. }
  destruct e; cbn in Ep; try discriminate Ep; intros r'.
  - (* AcceptCall *)
    destruct (inv_AcceptCall _ _ _ H) as [Hi [[[_ [_ [Hr _]]]|[g [_ [_ [Hr _]]]]] _]]; rewrite Hr;
      upd_cases r'; auto; apply Rok_up; auto.
  - destruct (inv_AcceptEnd _ _ _ _ H) as [Ha [_ [_ Hr]]]. rewrite Hr. upd_cases r'; auto.
    apply Rok_ended; auto.
  - destruct (inv_RunningSet _ _ _ H) as [_ [Hr _]]. rewrite Hr. upd_cases r'; auto. apply Rok_running; auto.
  - destruct (inv_ShutdownCall _ _ _ _ H) as [_ [_ Hr]]. rewrite Hr. upd_cases r'; auto. apply Rok_shutdown; auto.
  - destruct (inv_ShutdownEnd _ _ _ _ H) as [_ [_ [_ Hr]]]. rewrite Hr. upd_cases r'; auto. apply Rok_shut; auto.
  - destruct (inv_Sigint _ _ H) as [_ Hr]. destruct (guard s); rewrite Hr; auto.
    upd_cases r'; auto. apply Rok_sigint; auto.
  - destruct (inv_Start_run _ _ _ _ _ _ _ _ H) as [_ [_ Hs]]. eapply Rok_same; [apply Hs|apply R].
  - destruct (inv_Finish _ _ _ _ H) as [_ [_ [_ [_ [_ [_ [_ [[Hr _]|[_ [Hl Hr]]]]]]]]]]; rewrite Hr; auto.
    upd_cases r'; auto. apply Rok_finish; auto.
Qed.

(* ====================================================================================== *)
(* 2. C12: the guard is held exactly by the one live runner                               *)
(* ====================================================================================== *)
Definition live (s : rt) (r : nat) : Prop := phase_live (r_phase (run_ s r)) = true.

Definition guard_ok (s : rt) : Prop :=
  (forall g, guard s = Some g -> live s g) /\ (forall r, live s r -> guard s = Some r).

Lemma guard_ok_init : guard_ok init.
Proof. split; intros x H; cbn in *; discriminate. Qed.

Lemma live_unique s a b : guard_ok s -> live s a -> live s b -> a = b.
Proof. intros [_ G2] Ha Hb. apply G2 in Ha. apply G2 in Hb. congruence. Qed.

(* phase liveness is unchanged by all the record updates that keep the phase *)
Lemma guard_ok_same_phases s s' :
  guard_ok s -> guard s' = guard s -> (forall r, r_phase (run_ s' r) = r_phase (run_ s r) \/
                                          (live s r /\ live s' r)) ->
  guard_ok s'.
Proof.
  intros [G1 G2] Hg Hp. unfold guard_ok, live in *. rewrite Hg. split.
  - intros g Hgg. destruct (Hp g) as [E|[_ E]]; [rewrite E; auto|exact E].
  - intros r Hr. destruct (Hp r) as [E|[E _]]; [rewrite E in Hr; auto|auto].
Qed.

Lemma guard_ok_step s e s' : guard_ok s -> step s e = Some s' -> guard_ok s'.
Proof.
  intros G H. destruct (pay_only e) eqn:Ep.
  { destruct (frame_runners _ _ _ Ep H) as [Hr Hg]. apply (guard_ok_same_phases s); auto.
    intros r. left. rewrite Hr. reflexivity. }
  destruct e; cbn in Ep; try discriminate Ep.
  - (* AcceptCall *)
    destruct G as [G1 G2].
    destruct (inv_AcceptCall _ _ _ H) as [Hi [[[Hn [Hg [Hr _]]]|[g [Hs [Hg [Hr _]]]]] _]];
      unfold guard_ok, live in *; rewrite Hg, Hr; split.
    + intros g Hgg. injection Hgg as <-. rewrite upd_same. reflexivity.
    + intros r' Hl. upd_cases r'; [reflexivity|]. apply G2 in Hl. congruence.
    + intros g' Hgg. injection Hgg as <-. upd_cases g; [|apply G1; exact Hs].
      specialize (G1 _ Hs). rewrite Hi in G1. discriminate.
    + intros r' Hl. upd_cases r'; [cbn in Hl; discriminate|]. rewrite <- Hs. apply G2. exact Hl.
  - (* AcceptEnd *)
    destruct G as [G1 G2].
    destruct (inv_AcceptEnd _ _ _ _ H) as [_ [_ [Hg Hr]]]. unfold guard_ok, live in *. rewrite Hg, Hr.
    unfold release. split.
    + intros g Hgg. destruct (guard s) as [h|] eqn:Eg; [|discriminate].
      destruct (h =? r) eqn:Eh; [discriminate|]. injection Hgg as <-.
      apply Nat.eqb_neq in Eh. rewrite upd_other by exact Eh. apply G1. reflexivity.
    + intros r' Hl. upd_cases r'; [cbn in Hl; discriminate|].
      rewrite (G2 _ Hl). apply Nat.eqb_neq in Eu. rewrite Eu. reflexivity.
  - destruct (inv_RunningSet _ _ _ H) as [Hg [Hr _]]. apply (guard_ok_same_phases s); auto.
    intros r'. left. rewrite Hr. upd_cases r'; reflexivity.
  - destruct (inv_ShutdownCall _ _ _ _ H) as [Hg [_ Hr]]. apply (guard_ok_same_phases s); auto.
    intros r'. unfold live. rewrite Hr. upd_cases r'; [|left; reflexivity]. simp_state.
    match goal with |- context[r_phase (run_ s ?x)] => destruct (r_phase (run_ s x)) eqn:Eph end; auto.
  - destruct (inv_ShutdownEnd _ _ _ _ H) as [Hg [_ [_ Hr]]]. apply (guard_ok_same_phases s); auto.
    intros r'. left. rewrite Hr. upd_cases r'; reflexivity.
  - destruct (inv_Sigint _ _ H) as [Hg Hr]. apply (guard_ok_same_phases s); auto.
    intros r'. unfold live. destruct (guard s) as [g|]; rewrite Hr; [|left; reflexivity].
    upd_cases r'; [|left; reflexivity]. simp_state.
    match goal with |- context[r_phase (run_ s ?x)] => destruct (r_phase (run_ s x)) eqn:Eph end; auto.
  - destruct (inv_Start_run _ _ _ _ _ _ _ _ H) as [Hg [_ Hs]]. apply (guard_ok_same_phases s); auto.
    intros r'. left. apply Hs.
  - destruct (inv_Finish _ _ _ _ H) as [_ [Hg [_ [_ [_ [_ [_ [[Hr _]|[_ [Hl Hr]]]]]]]]]].
    + apply (guard_ok_same_phases s); auto. intros r'. left. rewrite Hr. reflexivity.
    + apply (guard_ok_same_phases s); auto. intros r'. unfold live. rewrite Hr.
      upd_cases r'; [|left; reflexivity]. right. split; [exact Hl|].
      unfold finish_rec. destruct (r_phase (run_ s (p_owner (pay s p)))) eqn:Eph; try discriminate Hl;
        destruct o; try destruct (p_flav (pay s p)); simp_state; rewrite ?Eph; reflexivity.
Qed.

(* ====================================================================================== *)
(* 3. bookkeeping: every non-default record is listed                                     *)
(* ====================================================================================== *)
Definition ids_ok (s : rt) : Prop :=
  (forall r, ~ In r (rids s) -> run_ s r = r0) /\ (forall p, ~ In p (pids s) -> pay s p = p0).

Lemma add_id_in x y l : In x (add_id y l) <-> x = y \/ In x l.
Proof.
  unfold add_id. destruct (existsb (Nat.eqb y) l) eqn:E.
  - split; [auto|]. intros [->|H]; [|exact H].
    apply existsb_exists in E. destruct E as [z [Hz Ez]]. apply Nat.eqb_eq in Ez. subst. exact Hz.
  - cbn. split; intros [H|H]; auto.
Qed.

Lemma ids_ok_init : ids_ok init.
Proof. split; reflexivity. Qed.

Lemma ids_ok_step s e s' : ids_ok s -> step s e = Some s' -> ids_ok s'.
Proof.
  intros [I1 I2] H. split.
  - intros r Hn. step_inv H; simp_state; auto;
    try (rewrite ?add_id_in in Hn; upd_cases r; [exfalso; apply Hn; auto|]; auto 6; fail).
    all: try (destruct f; simp_state).
    all: rewrite ?add_id_in in Hn; unfold upd; repeat (match goal with |- context[?a =? ?b] => destruct (a =? b) eqn:?E end);
      try (apply Nat.eqb_eq in E; subst); try (apply Nat.eqb_eq in E0; subst); try (exfalso; apply Hn; auto; fail); auto 6.
  - intros p Hn. step_inv H; simp_state; auto;
    try (rewrite ?add_id_in in Hn; upd_cases p; [exfalso; apply Hn; auto|]; auto 6; fail).
    destruct (flush_st s r p) as [[Hq [_ Hf]]|Hf]; rewrite Hf; simp_state; [|auto].
    rewrite (I2 _ Hn) in Hq. discriminate.
Qed.

(* ====================================================================================== *)
(* 4. payload-level invariants and permanence                                             *)
(* ====================================================================================== *)
Definition starts_ok (s : rt) : Prop :=
  forall p, p_starts (pay s p) = if started (p_st (pay s p)) then 1 else 0.

Lemma starts_ok_init : starts_ok init.
Proof. intros p. reflexivity. Qed.

Lemma starts_ok_step s e s' : starts_ok s -> step s e = Some s' -> starts_ok s'.
Proof.
  intros I H p. pose proof (I p) as Ip. clear I. step_inv H; simp_state;
  try (upd_cases p); simp_state; try exact Ip; try reflexivity;
  try (rw_all; cbn [started] in *; (lia || congruence || reflexivity)).
  - destruct (flush_st s r p) as [[Hq [_ Hf]]|Hf]; rewrite Hf; simp_state; [rewrite Hq in Ip|]; exact Ip.
  - rewrite E in Ip. destruct (r_phase (run_ s r)); exact Ip.
Qed.

(* the ghost counter really counts Start events *)
Definition is_start (p : nat) (e : event) : nat :=
  match e with Start q _ _ _ _ _ => if q =? p then 1 else 0 | _ => 0 end.
Fixpoint nstarts (p : nat) (tr : list event) : nat :=
  match tr with [] => 0 | e :: r => is_start p e + nstarts p r end.

Lemma starts_count_step s e s' p :
  step s e = Some s' -> p_starts (pay s' p) = p_starts (pay s p) + is_start p e.
Proof.
  intros H. step_inv H; simp_state; cbn [is_start]; try (rewrite Nat.add_0_r; reflexivity);
  try (upd_cases p; simp_state; rewrite ?Nat.eqb_refl; try lia;
       try (match goal with [H : ?a <> ?b |- context[?b =? ?a]] => rewrite (proj2 (Nat.eqb_neq b a)) by congruence end; lia);
       try (rw_all; simp_state; lia); fail).
  - destruct (flush_st s r p) as [[_ [_ Hf]]|Hf]; rewrite Hf; simp_state; lia.
Qed.

Lemma starts_count tr : forall s s' p,
  run s tr = Some s' -> p_starts (pay s' p) = p_starts (pay s p) + nstarts p tr.
Proof.
  induction tr as [|e tr IH]; intros s s' p H; cbn [run nstarts] in *.
  - injection H as <-. lia.
  - destruct (step s e) eqn:E; [|discriminate]. rewrite (IH _ _ _ H), (starts_count_step _ _ _ p E). lia.
Qed.

(* an ended run never changes phase again *)
Lemma ended_perm s e s' r :
  step s e = Some s' -> phase_ended (r_phase (run_ s r)) = true ->
  r_phase (run_ s' r) = r_phase (run_ s r).
Proof.
  intros H He. destruct (pay_only e) eqn:Ep.
  { destruct (frame_runners _ _ _ Ep H) as [Hr _]. rewrite Hr. reflexivity. }
  destruct e; cbn in Ep; try discriminate Ep.
  - destruct (inv_AcceptCall _ _ _ H) as [Hi [[[_ [_ [Hr _]]]|[g [_ [_ [Hr _]]]]] _]]; rewrite Hr;
      upd_cases r; auto; rewrite Hi in He; discriminate He.
  - destruct (inv_AcceptEnd _ _ _ _ H) as [Ha [_ [_ Hr]]]. rewrite Hr. upd_cases r; auto.
    unfold accept_end_ok in Ha. destruct (r_phase (run_ s _)); cbn in He; try discriminate.
  - destruct (inv_RunningSet _ _ _ H) as [_ [Hr _]]. rewrite Hr. upd_cases r; reflexivity.
  - destruct (inv_ShutdownCall _ _ _ _ H) as [_ [_ Hr]]. rewrite Hr. upd_cases r; auto. simp_state.
    destruct (r_phase (run_ s _)); cbn in He; try discriminate; reflexivity.
  - destruct (inv_ShutdownEnd _ _ _ _ H) as [_ [_ [_ Hr]]]. rewrite Hr. upd_cases r; reflexivity.
  - destruct (inv_Sigint _ _ H) as [_ Hr]. destruct (guard s); rewrite Hr; auto. upd_cases r; auto. simp_state.
    destruct (r_phase (run_ s _)); cbn in He; try discriminate; reflexivity.
  - destruct (inv_Start_run _ _ _ _ _ _ _ _ H) as [_ [_ Hs]]. apply Hs.
  - destruct (inv_Finish _ _ _ _ H) as [_ [_ [_ [_ [_ [_ [_ [[Hr _]|[_ [Hl Hr]]]]]]]]]]; rewrite Hr; auto.
    upd_cases r; auto. destruct (r_phase (run_ s (p_owner (pay s p)))); cbn in *; discriminate.
Qed.

Lemma ended_perm_run tr : forall s s' r o,
  run s tr = Some s' -> r_phase (run_ s r) = Ended o -> r_phase (run_ s' r) = Ended o.
Proof.
  induction tr as [|e tr IH]; intros s s' r o H He; cbn [run] in H.
  - injection H as <-. exact He.
  - destruct (step s e) eqn:E; [|discriminate]. eapply IH; [exact H|].
    rewrite (ended_perm _ _ _ r E); [exact He|rewrite He; reflexivity].
Qed.

(* once started, a payload keeps its identity data and stays started *)
Lemma started_perm s e s' p :
  step s e = Some s' -> started (p_st (pay s p)) = true ->
  started (p_st (pay s' p)) = true /\ p_owner (pay s' p) = p_owner (pay s p)
  /\ p_flav (pay s' p) = p_flav (pay s p) /\ p_origin (pay s' p) = p_origin (pay s p)
  /\ p_tid (pay s' p) = p_tid (pay s p) /\ p_loop (pay s' p) = p_loop (pay s p).
Proof.
  intros H Hs. step_inv H; simp_state; auto 10;
  try (upd_cases p; simp_state; auto 10);
  try (rw_all; cbn [started] in *; try discriminate; auto 10; fail).
  - destruct (flush_st s r p) as [[Hq [_ Hf]]|Hf]; rewrite Hf; simp_state; auto 10.
    rewrite Hq in Hs. discriminate.
Qed.

(* a finished payload stays finished with the same outcome *)
Lemma done_perm s e s' p o :
  step s e = Some s' -> p_st (pay s p) = PDone o ->
  p_st (pay s' p) = PDone o /\ p_owner (pay s' p) = p_owner (pay s p) /\ p_origin (pay s' p) = p_origin (pay s p).
Proof.
  intros H Hs. assert (St : started (p_st (pay s p)) = true) by (rewrite Hs; reflexivity).
  destruct (started_perm _ _ _ _ H St) as [_ [Ho [_ [Hor _]]]]. split; [|auto].
  step_inv H; simp_state; auto;
  try (upd_cases p; simp_state; auto);
  try (rw_all; try discriminate; auto; fail).
  - destruct (flush_st s r p) as [[Hq [_ Hf]]|Hf]; rewrite Hf; simp_state; auto. congruence.
Qed.

(* ====================================================================================== *)
(* 5. C01: recorded failures are the payloads' own failures                               *)
(* ====================================================================================== *)
Definition cause_ok (s : rt) (r : nat) (c : cause) : Prop :=
  match c with
  | CExc p => exists e, p_st (pay s p) = PDone (ORaiseExc e) /\ p_owner (pay s p) = r
                        /\ is_exec (p_origin (pay s p)) = false
  | COrphan p => exists v, p_st (pay s p) = PDone (ORetVal v) /\ p_owner (pay s p) = r
                           /\ is_exec (p_origin (pay s p)) = false
  | COther => False
  end.

Definition causes_ok (s : rt) : Prop := forall r c, In c (r_failures (run_ s r)) -> cause_ok s r c.

Lemma cause_ok_step s e s' r c : step s e = Some s' -> cause_ok s r c -> cause_ok s' r c.
Proof.
  intros H Hc. destruct c as [p|p|]; cbn in *; [| |exact Hc].
  - destruct Hc as [x [Hd [Ho Hx]]]. destruct (done_perm _ _ _ _ _ H Hd) as [Hd' [Ho' Hor']].
    exists x. rewrite Hd', Ho', Hor'. auto.
  - destruct Hc as [x [Hd [Ho Hx]]]. destruct (done_perm _ _ _ _ _ H Hd) as [Hd' [Ho' Hor']].
    exists x. rewrite Hd', Ho', Hor'. auto.
Qed.

Lemma failures_step s e s' r :
  step s e = Some s' ->
  r_failures (run_ s' r) = r_failures (run_ s r) \/
  exists p o, e = Finish p o /\ r = p_owner (pay s p) /\ is_exec (p_origin (pay s p)) = false
    /\ p_st (pay s p) = PRun
    /\ ((exists x, o = ORaiseExc x /\ r_failures (run_ s' r) = CExc p :: r_failures (run_ s r))
        \/ (exists x, o = ORetVal x /\ r_failures (run_ s' r) = COrphan p :: r_failures (run_ s r))).
Proof.
  intros H. destruct (pay_only e) eqn:Ep.
  { destruct (frame_runners _ _ _ Ep H) as [Hr _]. rewrite Hr. auto. }
  destruct e; cbn in Ep; try discriminate Ep.
  - destruct (inv_AcceptCall _ _ _ H) as [Hi [[[_ [_ [Hr _]]]|[g [_ [_ [Hr _]]]]] _]]; rewrite Hr;
      left; upd_cases r; reflexivity.
  - destruct (inv_AcceptEnd _ _ _ _ H) as [Ha [_ [_ Hr]]]. rewrite Hr. left. upd_cases r; reflexivity.
  - destruct (inv_RunningSet _ _ _ H) as [_ [Hr _]]. rewrite Hr. left. upd_cases r; reflexivity.
  - destruct (inv_ShutdownCall _ _ _ _ H) as [_ [_ Hr]]. rewrite Hr. left. upd_cases r; reflexivity.
  - destruct (inv_ShutdownEnd _ _ _ _ H) as [_ [_ [_ Hr]]]. rewrite Hr. left. upd_cases r; reflexivity.
  - destruct (inv_Sigint _ _ H) as [_ Hr]. left. destruct (guard s); rewrite Hr; auto. upd_cases r; reflexivity.
  - destruct (inv_Start_run _ _ _ _ _ _ _ _ H) as [_ [_ Hs]]. left. apply Hs.
  - destruct (inv_Finish _ _ _ _ H) as [Hst [_ [_ [_ [_ [_ [_ [[Hr _]|[Hx [Hl Hr]]]]]]]]]]; rewrite Hr; auto.
    upd_cases r; auto. unfold finish_rec.
    destruct o as [|v|x|x|]; simp_state; auto.
    + right. exists p, (ORetVal v). repeat split; auto. right. eauto.
    + right. exists p, (ORaiseExc x). repeat split; auto. left. eauto.
    + destruct (p_flav (pay s p)); simp_state; auto.
Qed.

Lemma causes_ok_init : causes_ok init.
Proof. intros r c H. destruct H. Qed.

Lemma causes_ok_step s e s' : causes_ok s -> step s e = Some s' -> causes_ok s'.
Proof.
  intros C H r c Hin. destruct (failures_step _ _ _ r H) as [E|[p [o [-> [-> [Hx [Hst [[x [-> E]]|[x [-> E]]]]]]]]]].
  - rewrite E in Hin. eapply cause_ok_step; eauto.
  - rewrite E in Hin. destruct Hin as [<-|Hin]; [|eapply cause_ok_step; eauto].
    destruct (inv_Finish _ _ _ _ H) as [_ [_ [Hp _]]]. cbn. exists x. rewrite Hp, upd_same. simp_state. auto.
  - rewrite E in Hin. destruct Hin as [<-|Hin]; [|eapply cause_ok_step; eauto].
    destruct (inv_Finish _ _ _ _ H) as [_ [_ [Hp _]]]. cbn. exists x. rewrite Hp, upd_same. simp_state. auto.
Qed.

(* ====================================================================================== *)
(* 6. the combined invariant and its lifting to every reachable state                     *)
(* ====================================================================================== *)
Record Inv (s : rt) : Prop := mkInv {
  inv_rok : all_Rok s; inv_guard : guard_ok s; inv_ids : ids_ok s; inv_starts : starts_ok s;
  inv_causes : causes_ok s }.

Lemma Inv_init : Inv init.
Proof.
  constructor; [apply all_Rok_init|apply guard_ok_init|apply ids_ok_init|apply starts_ok_init|apply causes_ok_init].
Qed.

Lemma Inv_step s e s' : Inv s -> step s e = Some s' -> Inv s'.
Proof.
  intros [A B C D E] H. constructor;
    [eapply all_Rok_step|eapply guard_ok_step|eapply ids_ok_step|eapply starts_ok_step|eapply causes_ok_step]; eauto.
Qed.

Lemma Inv_run tr s : run init tr = Some s -> Inv s.
Proof. intros H. eapply (run_inv Inv Inv_step); [apply Inv_init|exact H]. Qed.

Lemma Inv_run_from tr s s' : Inv s -> run s tr = Some s' -> Inv s'.
Proof. intros I H. eapply (run_inv Inv Inv_step); eauto. Qed.

(* ====================================================================================== *)
(* 7. monotone ghost flags and their provenance                                           *)
(* ====================================================================================== *)
Definition stop_trigger (r : nat) (e : event) : Prop :=
  e = Sigint \/ (exists c, e = ShutdownCall c r) \/ (exists p, e = Finish p OKbd).

(* one lemma describing how the flags of runner r evolve in one step *)
Lemma flags_step s e s' r :
  step s e = Some s' ->
  (r_failed_up (run_ s r) = true -> r_failed_up (run_ s' r) = true) /\
  (r_trigger (run_ s' r) = true -> r_trigger (run_ s r) = true \/ stop_trigger r e) /\
  (r_sigint (run_ s' r) = true -> r_sigint (run_ s r) = true \/ (e = Sigint /\ guard s = Some r)).
Proof.
  intros H. destruct (pay_only e) eqn:Ep.
  { destruct (frame_runners _ _ _ Ep H) as [Hr _]. rewrite Hr. auto. }
  unfold stop_trigger.
  destruct e; cbn in Ep; try discriminate Ep.
  - destruct (inv_AcceptCall _ _ _ H) as [Hi [[[_ [_ [Hr _]]]|[g [_ [_ [Hr _]]]]] _]]; rewrite Hr;
      upd_cases r; auto.
  - destruct (inv_AcceptEnd _ _ _ _ H) as [Ha [_ [_ Hr]]]. rewrite Hr. upd_cases r; auto.
  - destruct (inv_RunningSet _ _ _ H) as [_ [Hr _]]. rewrite Hr. upd_cases r; auto.
  - destruct (inv_ShutdownCall _ _ _ _ H) as [_ [_ Hr]]. rewrite Hr. upd_cases r; auto. simp_state.
    repeat split; auto. intros _. right. right. left. eauto.
  - destruct (inv_ShutdownEnd _ _ _ _ H) as [_ [_ [_ Hr]]]. rewrite Hr. upd_cases r; auto.
  - destruct (inv_Sigint _ _ H) as [_ Hr]. destruct (guard s) eqn:Eg; rewrite Hr; auto. upd_cases r; auto.
    all: try (simp_state; repeat split; auto).
  - destruct (inv_Start_run _ _ _ _ _ _ _ _ H) as [_ [_ Hs]].
    destruct (Hs r) as [_ [_ [_ [_ [_ [_ [H7 [H8 H9]]]]]]]]. rewrite H7, H8, H9. auto.
  - destruct (inv_Finish _ _ _ _ H) as [Hst [_ [_ [_ [_ [_ [_ [[Hr _]|[Hx [Hl Hr]]]]]]]]]]; rewrite Hr; auto.
    upd_cases r; auto. unfold finish_rec.
    destruct o; simp_state; auto.
    + repeat split; auto. intros ->. apply orb_true_r.
    + repeat split; auto. intros ->. apply orb_true_r.
    + repeat split; auto. intros ->. apply orb_true_r.
    + destruct (p_flav (pay s p)); simp_state; repeat split; auto; intros _; right; right; right; eauto.
Qed.

Lemma failed_up_run tr : forall s s' r,
  run s tr = Some s' -> r_failed_up (run_ s r) = true -> r_failed_up (run_ s' r) = true.
Proof.
  induction tr as [|e tr IH]; intros s s' r H Hf; cbn [run] in H.
  - injection H as <-. exact Hf.
  - destruct (step s e) eqn:E; [|discriminate]. eapply IH; [exact H|].
    apply (proj1 (flags_step _ _ _ r E)). exact Hf.
Qed.

Lemma trigger_run tr : forall s s' r,
  run s tr = Some s' -> r_trigger (run_ s' r) = true ->
  r_trigger (run_ s r) = true \/ exists e, In e tr /\ stop_trigger r e.
Proof.
  induction tr as [|e tr IH]; intros s s' r H Hf; cbn [run] in H.
  - injection H as <-. auto.
  - destruct (step s e) eqn:E; [|discriminate].
    destruct (IH _ _ _ H Hf) as [Ht|[e' [Hin He']]].
    + destruct (proj1 (proj2 (flags_step _ _ _ r E)) Ht) as [X|X]; auto.
      right. exists e. split; [left; reflexivity|exact X].
    + right. exists e'. split; [right; exact Hin|exact He'].
Qed.

Lemma sigint_run tr : forall s s' r,
  run s tr = Some s' -> r_sigint (run_ s' r) = true ->
  r_sigint (run_ s r) = true \/ In Sigint tr.
Proof.
  induction tr as [|e tr IH]; intros s s' r H Hf; cbn [run] in H.
  - injection H as <-. auto.
  - destruct (step s e) eqn:E; [|discriminate].
    destruct (IH _ _ _ H Hf) as [Ht|Hin].
    + destruct (proj2 (proj2 (flags_step _ _ _ r E)) Ht) as [X|[X _]]; auto.
      right. left. auto.
    + right. right. exact Hin.
Qed.

(* ====================================================================================== *)
(* 8. C01                                                                                 *)
(* ====================================================================================== *)
Definition background (s : rt) (p : nat) : Prop := is_exec (p_origin (pay s p)) = false.

(* a failing background payload of a runner that is Up closes the runner with cause CFail *)
Lemma C01_failure_closes s p o s' :
  step s (Finish p o) = Some s' -> failing o = true -> background s p ->
  r_phase (run_ s (p_owner (pay s p))) = Up ->
  r_phase (run_ s' (p_owner (pay s p))) = Closing CFail /\ r_failed_up (run_ s' (p_owner (pay s p))) = true.
Proof.
  intros H Hf Hb Hu. unfold background in Hb.
  destruct (inv_Finish _ _ _ _ H) as [_ [_ [_ [_ [_ [_ [_ [[_ [X|X]]|[_ [_ Hr]]]]]]]]]].
  - congruence.
  - rewrite Hu in X. discriminate.
  - rewrite Hr, upd_same. unfold finish_rec. rewrite Hu. destruct o; try discriminate Hf; cbn; auto.
Qed.

(* ... and from then on the run cannot end silently: it ends by raising, unless a SIGINT arrives *)
Lemma C01_no_silent_return tr1 tr2 s1 p o s r a :
  run init tr1 = Some s1 ->
  failing o = true -> background s1 p -> r = p_owner (pay s1 p) -> r_phase (run_ s1 r) = Up ->
  run s1 (Finish p o :: tr2) = Some s ->
  r_phase (run_ s r) = Ended a ->
  a <> AExclusive /\ (a = AReturned -> In Sigint (tr1 ++ Finish p o :: tr2)).
Proof.
  intros H1 Hf Hb -> Hu H2 He. cbn [run] in H2.
  destruct (step s1 (Finish p o)) as [s2|] eqn:E; [|discriminate].
  destruct (C01_failure_closes _ _ _ _ E Hf Hb Hu) as [_ Hfu].
  pose proof (failed_up_run _ _ _ _ H2 Hfu) as Hfu'.
  assert (I : Inv s).
  { eapply Inv_run_from; [eapply Inv_step; [eapply Inv_run; exact H1|exact E]|exact H2]. }
  destruct (inv_rok _ I (p_owner (pay s1 p))) as [_ [R2 _]].
  destruct (R2 Hfu') as [X|[o' [X [Y Z]]]]; [congruence|].
  rewrite He in X. injection X as <-. split; [exact Y|].
  intros Ha. specialize (Z Ha).
  assert (Hall : run init (tr1 ++ Finish p o :: tr2) = Some s).
  { rewrite run_app, H1. cbn [run]. rewrite E. exact H2. }
  destruct (sigint_run _ _ _ _ Hall Z) as [W|W]; [cbn in W; discriminate|exact W].
Qed.

Lemma C01_cause_is_original tr s r cs :
  run init tr = Some s -> r_phase (run_ s r) = Ended (ARuntime cs) ->
  cs <> [] /\ forall c, In c cs -> cause_ok s r c.
Proof.
  intros H He. pose proof (Inv_run _ _ H) as I.
  destruct (inv_rok _ I r) as [_ [_ [R3 _]]]. destruct (R3 _ He) as [Hne Hin].
  split; [exact Hne|]. intros c Hc. apply (inv_causes _ I). apply Hin. exact Hc.
Qed.

Lemma C01_only_interrupt_is_silent tr s r :
  run init tr = Some s -> r_phase (run_ s r) = Ended AReturned ->
  exists e, In e tr /\ stop_trigger r e.
Proof.
  intros H He. pose proof (Inv_run _ _ H) as I.
  destruct (inv_rok _ I r) as [_ [_ [_ R4]]].
  assert (Ht : r_trigger (run_ s r) = true) by (apply R4; auto).
  destruct (trigger_run _ _ _ _ H Ht) as [X|X]; [cbn in X; discriminate|exact X].
Qed.

(* progress, in the form a model can carry: when nothing is owed any more, no runner is left closing *)
Lemma owed_closing s r :
  In r (rids s) -> (phase_closing (r_phase (run_ s r)) = true \/ r_phase (run_ s r) = Rejected) ->
  quiescent s = false.
Proof.
  intros Hin Hc. unfold quiescent. destruct (owed s) eqn:E; [|reflexivity]. exfalso.
  unfold owed in E. apply app_eq_nil in E. destruct E as [_ E].
  assert (Hx : In (OAcceptEnd r) (flat_map (owed_run s) (rids s))).
  { apply in_flat_map. exists r. split; [exact Hin|]. unfold owed_run. apply in_or_app. left.
    destruct Hc as [Hc|Hc]; [destruct (r_phase (run_ s r)); try discriminate Hc; left; reflexivity|
                             rewrite Hc; left; reflexivity]. }
  rewrite E in Hx. destruct Hx.
Qed.

Lemma C01_failure_forces_end tr s r :
  run init tr = Some s -> quiescent s = true -> r_failed_up (run_ s r) = true ->
  exists a, r_phase (run_ s r) = Ended a /\ a <> AExclusive /\ (a = AReturned -> In Sigint tr).
Proof.
  intros H Hq Hf. pose proof (Inv_run _ _ H) as I.
  destruct (inv_rok _ I r) as [_ [R2 _]]. destruct (R2 Hf) as [X|[a [X [Y Z]]]].
  - exfalso. assert (Hin : In r (rids s)).
    { destruct (in_dec Nat.eq_dec r (rids s)) as [i|n]; [exact i|].
      rewrite (proj1 (inv_ids _ I) _ n) in X. discriminate. }
    rewrite (owed_closing s r Hin) in Hq; [discriminate|]. left. rewrite X. reflexivity.
  - exists a. repeat split; auto. intros Ha. destruct (sigint_run _ _ _ _ H (Z Ha)) as [W|W]; [discriminate|exact W].
Qed.

(* ====================================================================================== *)
(* 9. C02                                                                                 *)
(* ====================================================================================== *)
Lemma forallb_settled s r :
  settled s r = true -> forall p, In p (pids s) -> p_owner (pay s p) = r -> unsettled (pay s p) = false.
Proof.
  unfold settled. intros H p Hin Ho. rewrite forallb_forall in H. specialize (H p Hin).
  rewrite Ho, Nat.eqb_refl in H. cbn in H. destruct (unsettled (pay s p)); [discriminate|reflexivity].
Qed.

(* when the blocking run call of runner r ends (other than by the exclusivity error), no coroutine
   payload of r is still running or still cleaning up *)
Lemma C02_settled_at_end tr s r o s' :
  run init tr = Some s -> step s (AcceptEnd r o) = Some s' -> o <> AExclusive ->
  forall p, p_owner (pay s p) = r -> coroutine (p_flav (pay s p)) = true -> background s p ->
    p_st (pay s p) <> PRun /\ p_st (pay s p) <> PCanc.
Proof.
  intros H E Ho p Hp Hc Hb. pose proof (Inv_run _ _ H) as I.
  destruct (inv_AcceptEnd _ _ _ _ E) as [Ha [Hs _]].
  assert (Hcl : phase_closing (r_phase (run_ s r)) = true).
  { unfold accept_end_ok in Ha. destruct (r_phase (run_ s r)); try discriminate Ha; [reflexivity|].
    destruct o; try discriminate Ha. congruence. }
  specialize (Hs Hcl).
  destruct (in_dec Nat.eq_dec p (pids s)) as [i|n].
  - pose proof (forallb_settled _ _ Hs p i Hp) as Hu. unfold unsettled in Hu. unfold background in Hb.
    rewrite Hc, Hb in Hu. destruct (p_st (pay s p)); cbn in Hu; try discriminate; split; discriminate.
  - rewrite (proj2 (inv_ids _ I) _ n). cbn. split; discriminate.
Qed.

(* the payload an event is an activity of *)
Definition activity (e : event) : option nat :=
  match e with
  | Start p _ _ _ _ _ | Step p _ | Enter p | Finish p _ | Cancelled p | CleanStep p | CleanupDone p => Some p
  | _ => None
  end.

Ltac dphase :=
  match goal with
  | [ |- context[r_phase (run_ ?a ?b)]] => destruct (r_phase (run_ a b)) eqn:?
  | [H : context[r_phase (run_ ?a ?b)] |- _] => destruct (r_phase (run_ a b)) eqn:?
  end.

(* no coroutine payload takes a further step once the run call of its runner has ended *)
Lemma no_activity_after_end s e s' p :
  step s e = Some s' -> activity e = Some p -> coroutine (p_flav (pay s' p)) = true ->
  phase_ended (r_phase (run_ s (p_owner (pay s' p)))) = false.
Proof.
  intros H Ha Hc. destruct e; cbn in Ha; try discriminate Ha; injection Ha as ->.
  - destruct (inv_Start_pay _ _ _ _ _ _ _ _ H) as [_ [_ [_ [r [Hl [_ [_ [_ Hp]]]]]]]].
    rewrite Hp, upd_same. simp_state. destruct (r_phase (run_ s r)); cbn in *; try discriminate; reflexivity.
  - step_inv H. apply andb_prop in E0. destruct E0 as [_ E0]. rewrite Hc in E0. cbn in E0.
    apply negb_true_iff in E0. exact E0.
  - step_inv H; simp_state. rewrite Hc in E1. cbn in E1. apply orb_false_elim in E1. tauto.
  - destruct (inv_Finish _ _ _ _ H) as [_ [_ [Hp [_ [He _]]]]]. rewrite Hp, upd_same in *. simp_state. auto.
  - step_inv H; simp_state. rewrite upd_same in *. simp_state.
    apply andb_prop in E0. destruct E0 as [E0 _]. apply andb_prop in E0. destruct E0 as [_ E0].
    dphase; cbn in *; try discriminate; reflexivity.
  - step_inv H; simp_state. dphase; cbn in *; try discriminate; reflexivity.
  - step_inv H; simp_state. rewrite upd_same in *. simp_state.
    dphase; cbn in *; try discriminate; reflexivity.
Qed.

Lemma owner_perm_run tr : forall s s' p,
  run s tr = Some s' -> started (p_st (pay s p)) = true ->
  p_owner (pay s' p) = p_owner (pay s p) /\ p_flav (pay s' p) = p_flav (pay s p).
Proof.
  induction tr as [|e tr IH]; intros s s' p H Hs; cbn [run] in H.
  - injection H as <-. auto.
  - destruct (step s e) eqn:E; [|discriminate].
    destruct (started_perm _ _ _ _ E Hs) as [S1 [S2 [S3 _]]].
    destruct (IH _ _ _ H S1) as [A B]. rewrite A, B. auto.
Qed.

Lemma C02_no_step_after_end tr1 r o tr2 e s1 s2 s3 p :
  run init (tr1 ++ [AcceptEnd r o]) = Some s1 ->
  run s1 tr2 = Some s2 -> step s2 e = Some s3 ->
  activity e = Some p -> coroutine (p_flav (pay s3 p)) = true -> p_owner (pay s3 p) = r -> False.
Proof.
  intros H1 H2 H3 Ha Hc Ho.
  assert (He : r_phase (run_ s1 r) = Ended o).
  { rewrite run_app in H1. destruct (run init tr1) as [s0|]; [|discriminate]. cbn [run] in H1.
    destruct (step s0 (AcceptEnd r o)) eqn:E; [|discriminate]. injection H1 as <-.
    destruct (inv_AcceptEnd _ _ _ _ E) as [_ [_ [_ Hr]]]. rewrite Hr, upd_same. reflexivity. }
  pose proof (ended_perm_run _ _ _ _ _ H2 He) as He2.
  pose proof (no_activity_after_end _ _ _ _ H3 Ha Hc) as Hn. rewrite Ho, He2 in Hn. discriminate.
Qed.

(* cancellation before cleanup: the ghost counters of a payload in its terminal cleanup state *)
Definition cleanup_ok (s : rt) : Prop :=
  forall p, match p_st (pay s p) with
            | PCanc => p_cancels (pay s p) = S (p_cleans (pay s p))
            | _ => p_cancels (pay s p) = p_cleans (pay s p)
            end.

Lemma cleanup_ok_init : cleanup_ok init.
Proof. intros p. reflexivity. Qed.

Lemma cleanup_ok_step s e s' : cleanup_ok s -> step s e = Some s' -> cleanup_ok s'.
Proof.
  intros I H p. pose proof (I p) as Ip. clear I. step_inv H; simp_state;
  try (upd_cases p); simp_state; try exact Ip; try reflexivity;
  try (rw_all; simp_state; (lia || congruence || reflexivity)).
  all: try (destruct (flush_st s r p) as [[Hq [_ Hf]]|Hf]; rewrite Hf; simp_state; rewrite ?Est;
            try exact Ip; try congruence; fail).
  all: try (destruct (r_phase (run_ s r)); exact Ip).
Qed.

(* threads never block the end: whatever thread payloads do, a closing runner whose coroutine
   payloads are settled can end *)
Lemma C02_threads_never_block tr s r c :
  run init tr = Some s -> r_phase (run_ s r) = Closing c -> settled s r = true ->
  exists o s', step s (AcceptEnd r o) = Some s'.
Proof.
  intros H Hp Hs. pose proof (Inv_run _ _ H) as I. destruct (inv_rok _ I r) as [R1 _].
  assert (Hex : exists o, accept_end_ok (run_ s r) o = true).
  { unfold accept_end_ok. rewrite Hp. destruct c.
    - destruct (R1 Hp) as [Hf|Hb].
      + destruct (r_failures (run_ s r)) as [|x l] eqn:Ef; [congruence|].
        exists (ARuntime [x]). cbn. destruct x; cbn; rewrite ?Nat.eqb_refl; reflexivity.
      + exists AOther. exact Hb.
    - exists AReturned. reflexivity.
    - exists AReturned. reflexivity. }
  destruct Hex as [o Ho]. exists o. eexists. cbn [step step_core]. rewrite Ho, Hs.
  rewrite orb_true_r. reflexivity.
Qed.
