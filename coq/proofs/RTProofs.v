(* Invariants of the runtime model RT and the lemmas behind the property theorems
   C01 C02 C03 C10 C11 C12 (props/C01.v ...). *)
From Coq Require Import List Arith Bool Lia.
From Cobald Require Import model.RT proofs.RTBase.
Import ListNotations.

(* ====================================================================================== *)
(* 1. per-runner record invariant                                                         *)
(* ====================================================================================== *)
Definition Rok (i : rinfo) : Prop :=
  (r_phase i = Closing CFail -> r_failures i <> [] \/ r_basefail i = true) /\
  (r_failed_up i = true ->
     r_phase i = Closing CFail \/
     exists o, r_phase i = Ended o /\ o <> AExclusive /\ (o = AReturned -> r_sigint i = true)) /\
  (forall cs, r_phase i = Ended (ARuntime cs) -> cs <> [] /\ forall c, In c cs -> In c (r_failures i)) /\
  ((r_phase i = Closing CStop \/ r_phase i = Closing CInt \/ r_phase i = Ended AReturned
    \/ r_sigint i = true) -> r_trigger i = true).

Lemma Rok_r0 : Rok r0.
Proof.
  unfold Rok, r0; cbn. repeat split; try discriminate; try congruence.
  intros [H|[H|[H|H]]]; discriminate.
Qed.

Ltac rok_start :=
  unfold Rok in *; simp_state;
  repeat match goal with [H : _ /\ _ |- _] => destruct H end.

Lemma Rok_up i : Rok i -> r_phase i = Idle -> Rok (with_phase i Up) /\ Rok (with_phase i Rejected).
Proof.
  intros R Hp. rok_start. rewrite Hp in *.
  split; (split; [discriminate|]); (split; [|split]); try discriminate.
  all: try (intros Hf; match goal with [H : r_failed_up _ = true -> _ |- _] => destruct (H Hf) as [X|[o [X _]]]; discriminate end).
  all: intros [X|[X|[X|X]]]; try discriminate; auto.
Qed.

Lemma mem_cause_In c l : mem_cause c l = true -> In c l.
Proof.
  unfold mem_cause. intros H. apply existsb_exists in H. destruct H as [x [Hin Heq]].
  destruct c, x; cbn in Heq; try discriminate; try (apply Nat.eqb_eq in Heq; subst); exact Hin.
Qed.

Lemma Rok_ended i o : Rok i -> accept_end_ok i o = true -> Rok (with_phase i (Ended o)).
Proof.
  intros R Ha. rok_start. unfold accept_end_ok in Ha.
  split; [discriminate|]. split; [|split].
  - intros Hf. right. exists o. split; [reflexivity|].
    destruct (r_phase i) eqn:Ep; try discriminate; destruct o; try discriminate.
    all: split; try discriminate; try (intros; congruence).
    all: try (intros _; destruct c; [exact Ha| |]).
    all: try (match goal with [H : r_failed_up _ = true -> _ |- _] => destruct (H Hf) as [X|[o' [X _]]]; congruence end).
  - intros cs Hc. injection Hc as ->.
    destruct (r_phase i); try discriminate.
    apply andb_prop in Ha. destruct Ha as [Hne Hall]. split.
    + destruct cs; [discriminate|congruence].
    + intros cx Hin. rewrite forallb_forall in Hall. apply mem_cause_In. apply Hall. exact Hin.
  - intros [X|[X|[X|X]]]; try discriminate; auto.
    injection X as ->. destruct (r_phase i) eqn:Ep; try discriminate.
    destruct c; auto.
Qed.

Definition same_core (a b : rinfo) : Prop :=
  r_phase a = r_phase b /\ r_failures a = r_failures b /\ r_basefail a = r_basefail b
  /\ r_failed_up a = r_failed_up b /\ r_trigger a = r_trigger b /\ r_sigint a = r_sigint b.

Lemma Rok_core i j : same_core i j -> Rok j -> Rok i.
Proof.
  unfold same_core, Rok. intros [H1 [H5 [H6 [H7 [H8 H9]]]]] R.
  rewrite H1, H5, H6, H7, H8, H9. exact R.
Qed.

Lemma Rok_same i j : same_but_home i j -> Rok j -> Rok i.
Proof.
  intros [H1 [H2 [H3 [H4 [H5 [H6 [H7 [H8 H9]]]]]]]]. apply Rok_core. unfold same_core; auto 10.
Qed.

Lemma Rok_running i : Rok i -> Rok (with_running i).
Proof. apply Rok_core. unfold same_core; cbn; auto 10. Qed.

Lemma Rok_shut i a b : Rok i -> Rok (with_shut i a b).
Proof. apply Rok_core. unfold same_core; cbn; auto 10. Qed.

Lemma Rok_shutdown i a b :
  Rok i -> Rok (with_trigger (with_shut (with_phase i (match r_phase i with Up => Closing CStop | x => x end)) a b)).
Proof.
  intros R. rok_start. destruct (r_phase i) eqn:Ep; (split; [|split; [|split]]); auto; try discriminate.
  all: intros Hf; match goal with [H : r_failed_up _ = true -> _ |- _] => destruct (H Hf) as [X|[o' [X _]]]; discriminate end.
Qed.

Lemma Rok_sigint i :
  Rok i -> Rok (with_sigint (with_phase i (match r_phase i with Up => Closing CInt | x => x end))).
Proof.
  intros R. rok_start. destruct (r_phase i) eqn:Ep; (split; [|split; [|split]]); auto; try discriminate.
  all: try (intros Hf; match goal with [H : r_failed_up _ = true -> _ |- _] => destruct (H Hf) as [X|[o' [X Y]]]; try discriminate end).
  all: try (right; exists o'; destruct Y as [Y1 Y2]; injection X as <-; auto).
  all: try (left; assumption).
Qed.

Lemma Rok_finish i p f o : Rok i -> phase_live (r_phase i) = true -> Rok (finish_rec i p f o).
Proof.
  intros R Hl. rok_start. unfold finish_rec.
  destruct (r_phase i) eqn:Ep; try discriminate Hl; cbn [phase_up].
  all: destruct o; try destruct f; simp_state; rewrite ?Ep.
  all: (split; [|split; [|split]]); auto; try discriminate.
  all: try (intros _; left; discriminate).
  all: try (intros _; right; reflexivity).
  all: try (intros Hf; cbn in Hf; auto).
  all: try (match goal with [H : r_failed_up _ = true -> _ |- _] => destruct (H Hf) as [X|[o' [X Y]]]; try discriminate; auto end).
  all: try (intros [X|[X|[X|X]]]; try discriminate; auto).
  all: try (destruct Hf as [X|[X|[X|X]]]; try discriminate; auto).
Qed.

Definition all_Rok (s : rt) : Prop := forall r, Rok (run_ s r).

Lemma all_Rok_init : all_Rok init.
Proof. intros r. exact Rok_r0. Qed.

Lemma all_Rok_step s e s' : all_Rok s -> step s e = Some s' -> all_Rok s'.
Proof.
  intros R H. destruct (pay_only e) eqn:Ep.
  { destruct (frame_runners _ _ _ Ep H) as [Hr _]. intros r. rewrite Hr. apply R. }
  destruct e; cbn in Ep; try discriminate Ep; intros r'.
  - (* AcceptCall *)
    destruct (inv_AcceptCall _ _ _ H) as [Hi [[[_ [_ [Hr _]]]|[g [_ [_ [Hr _]]]]] _]]; rewrite Hr;
      upd_cases r'; auto; apply Rok_up; auto.
  - destruct (inv_AcceptEnd _ _ _ _ H) as [Ha [_ [_ Hr]]]. rewrite Hr. upd_cases r'; auto.
    apply Rok_ended; auto.
  - destruct (inv_RunningSet _ _ _ H) as [_ [Hr _]]. rewrite Hr. upd_cases r'; auto. apply Rok_running; auto.
  - destruct (inv_ShutdownCall _ _ _ _ H) as [_ [_ Hr]]. rewrite Hr. upd_cases r'; auto. apply Rok_shutdown; auto.
  - destruct (inv_ShutdownEnd _ _ _ _ H) as [_ [_ [_ Hr]]]. rewrite Hr. upd_cases r'; auto. apply Rok_shut; auto.
  - destruct (inv_Sigint _ _ H) as [_ Hr]. destruct (guard s); rewrite Hr; auto.
    upd_cases r'; auto. apply Rok_sigint; auto.
  - destruct (inv_Start_run _ _ _ _ _ _ _ _ H) as [_ [_ Hs]]. eapply Rok_same; [apply Hs|apply R].
  - destruct (inv_Finish _ _ _ _ H) as [_ [_ [_ [_ [_ [_ [_ [[Hr _]|[_ [Hl Hr]]]]]]]]]]; rewrite Hr; auto.
    upd_cases r'; auto. apply Rok_finish; auto.
Qed.

(* ====================================================================================== *)
(* 2. C12: the guard is held exactly by the one live runner                               *)
(* ====================================================================================== *)
Definition live (s : rt) (r : nat) : Prop := phase_live (r_phase (run_ s r)) = true.

Definition guard_ok (s : rt) : Prop :=
  (forall g, guard s = Some g -> live s g) /\ (forall r, live s r -> guard s = Some r).

Lemma guard_ok_init : guard_ok init.
Proof. split; intros x H; cbn in *; discriminate. Qed.

Lemma live_unique s a b : guard_ok s -> live s a -> live s b -> a = b.
Proof. intros [_ G2] Ha Hb. apply G2 in Ha. apply G2 in Hb. congruence. Qed.

(* phase liveness is unchanged by all the record updates that keep the phase *)
Lemma guard_ok_same_phases s s' :
  guard_ok s -> guard s' = guard s -> (forall r, r_phase (run_ s' r) = r_phase (run_ s r) \/
                                          (live s r /\ live s' r)) ->
  guard_ok s'.
Proof.
  intros [G1 G2] Hg Hp. unfold guard_ok, live in *. rewrite Hg. split.
  - intros g Hgg. destruct (Hp g) as [E|[_ E]]; [rewrite E; auto|exact E].
  - intros r Hr. destruct (Hp r) as [E|[E _]]; [rewrite E in Hr; auto|auto].
Qed.

Lemma guard_ok_step s e s' : guard_ok s -> step s e = Some s' -> guard_ok s'.
Proof.
  intros G H. destruct (pay_only e) eqn:Ep.
  { destruct (frame_runners _ _ _ Ep H) as [Hr Hg]. apply (guard_ok_same_phases s); auto.
    intros r. left. rewrite Hr. reflexivity. }
  destruct e; cbn in Ep; try discriminate Ep.
  - (* AcceptCall *)
    destruct G as [G1 G2].
    destruct (inv_AcceptCall _ _ _ H) as [Hi [[[Hn [Hg [Hr _]]]|[g [Hs [Hg [Hr _]]]]] _]];
      unfold guard_ok, live in *; rewrite Hg, Hr; split.
    + intros g Hgg. injection Hgg as <-. rewrite upd_same. reflexivity.
    + intros r' Hl. upd_cases r'; [reflexivity|]. apply G2 in Hl. congruence.
    + intros g' Hgg. injection Hgg as <-. upd_cases g; [|apply G1; exact Hs].
      specialize (G1 _ Hs). rewrite Hi in G1. discriminate.
    + intros r' Hl. upd_cases r'; [cbn in Hl; discriminate|]. rewrite <- Hs. apply G2. exact Hl.
  - (* AcceptEnd *)
    destruct G as [G1 G2].
    destruct (inv_AcceptEnd _ _ _ _ H) as [_ [_ [Hg Hr]]]. unfold guard_ok, live in *. rewrite Hg, Hr.
    unfold release. split.
    + intros g Hgg. destruct (guard s) as [h|] eqn:Eg; [|discriminate].
      destruct (h =? r) eqn:Eh; [discriminate|]. injection Hgg as <-.
      apply Nat.eqb_neq in Eh. rewrite upd_other by exact Eh. apply G1. reflexivity.
    + intros r' Hl. upd_cases r'; [cbn in Hl; discriminate|].
      rewrite (G2 _ Hl). apply Nat.eqb_neq in Eu. rewrite Eu. reflexivity.
  - destruct (inv_RunningSet _ _ _ H) as [Hg [Hr _]]. apply (guard_ok_same_phases s); auto.
    intros r'. left. rewrite Hr. upd_cases r'; reflexivity.
  - destruct (inv_ShutdownCall _ _ _ _ H) as [Hg [_ Hr]]. apply (guard_ok_same_phases s); auto.
    intros r'. unfold live. rewrite Hr. upd_cases r'; [|left; reflexivity]. simp_state.
    match goal with |- context[r_phase (run_ s ?x)] => destruct (r_phase (run_ s x)) eqn:Eph end; auto.
  - destruct (inv_ShutdownEnd _ _ _ _ H) as [Hg [_ [_ Hr]]]. apply (guard_ok_same_phases s); auto.
    intros r'. left. rewrite Hr. upd_cases r'; reflexivity.
  - destruct (inv_Sigint _ _ H) as [Hg Hr]. apply (guard_ok_same_phases s); auto.
    intros r'. unfold live. destruct (guard s) as [g|]; rewrite Hr; [|left; reflexivity].
    upd_cases r'; [|left; reflexivity]. simp_state.
    match goal with |- context[r_phase (run_ s ?x)] => destruct (r_phase (run_ s x)) eqn:Eph end; auto.
  - destruct (inv_Start_run _ _ _ _ _ _ _ _ H) as [Hg [_ Hs]]. apply (guard_ok_same_phases s); auto.
    intros r'. left. apply Hs.
  - destruct (inv_Finish _ _ _ _ H) as [_ [Hg [_ [_ [_ [_ [_ [[Hr _]|[_ [Hl Hr]]]]]]]]]].
    + apply (guard_ok_same_phases s); auto. intros r'. left. rewrite Hr. reflexivity.
    + apply (guard_ok_same_phases s); auto. intros r'. unfold live. rewrite Hr.
      upd_cases r'; [|left; reflexivity]. right. split; [exact Hl|].
      unfold finish_rec. destruct (r_phase (run_ s (p_owner (pay s p)))) eqn:Eph; try discriminate Hl;
        destruct o; try destruct (p_flav (pay s p)); simp_state; rewrite ?Eph; reflexivity.
Qed.
