(* Invariants of the runtime model RT and the lemmas behind the property theorems
   C01 C02 C03 C10 C11 C12 (props/C01.v ...). *)
From Coq Require Import List Arith Bool Lia.
From Cobald Require Import model.RT proofs.RTBase.
Import ListNotations.

(* ====================================================================================== *)
(* 1. per-runner record invariant                                                         *)
(* ====================================================================================== *)
Definition Rok (i : rinfo) : Prop :=
  (r_phase i = Closing CFail -> r_failures i <> [] \/ r_basefail i = true) /\
  (r_failed_up i = true ->
     r_phase i = Closing CFail \/
     exists o, r_phase i = Ended o /\ o <> AExclusive /\ (o = AReturned -> r_sigint i = true)) /\
  (forall cs, r_phase i = Ended (ARuntime cs) -> cs <> [] /\ forall c, In c cs -> In c (r_failures i)) /\
  ((r_phase i = Closing CStop \/ r_phase i = Closing CInt \/ r_phase i = Ended AReturned
    \/ r_sigint i = true) -> r_trigger i = true).

Lemma Rok_r0 : Rok r0.
Proof.
  unfold Rok, r0; cbn. repeat split; try discriminate; try congruence.
  intros [H|[H|[H|H]]]; discriminate.
Qed.

Ltac rok_start :=
  unfold Rok in *; simp_state;
  repeat match goal with [H : _ /\ _ |- _] => destruct H end.

Lemma Rok_up i : Rok i -> r_phase i = Idle -> Rok (with_phase i Up) /\ Rok (with_phase i Rejected).
Proof.
  intros R Hp. rok_start. rewrite Hp in *.
  split; (split; [discriminate|]); (split; [|split]); try discriminate.
  all: try (intros Hf; match goal with [H : r_failed_up _ = true -> _ |- _] => destruct (H Hf) as [X|[o [X _]]]; discriminate end).
  all: intros [X|[X|[X|X]]]; try discriminate; auto.
Qed.

Lemma mem_cause_In c l : mem_cause c l = true -> In c l.
Proof.
  unfold mem_cause. intros H. apply existsb_exists in H. destruct H as [x [Hin Heq]].
  destruct c, x; cbn in Heq; try discriminate; try (apply Nat.eqb_eq in Heq; subst); exact Hin.
Qed.

Lemma Rok_ended i o : Rok i -> accept_end_ok i o = true -> Rok (with_phase i (Ended o)).
Proof.
  intros R Ha. rok_start. unfold accept_end_ok in Ha.
  split; [discriminate|]. split; [|split].
  - intros Hf. right. exists o. split; [reflexivity|].
    destruct (r_phase i) eqn:Ep; try discriminate; destruct o; try discriminate.
    all: split; try discriminate; try (intros; congruence).
    all: try (intros _; destruct c; [exact Ha| |]).
    all: try (match goal with [H : r_failed_up _ = true -> _ |- _] => destruct (H Hf) as [X|[o' [X _]]]; congruence end).
  - intros cs Hc. injection Hc as ->.
    destruct (r_phase i); try discriminate.
    apply andb_prop in Ha. destruct Ha as [Hne Hall]. split.
    + destruct cs; [discriminate|congruence].
    + intros cx Hin. rewrite forallb_forall in Hall. apply mem_cause_In. apply Hall. exact Hin.
  - intros [X|[X|[X|X]]]; try discriminate; auto.
    injection X as ->. destruct (r_phase i) eqn:Ep; try discriminate.
    destruct c; auto.
Qed.

Definition same_core (a b : rinfo) : Prop :=
  r_phase a = r_phase b /\ r_failures a = r_failures b /\ r_basefail a = r_basefail b
  /\ r_failed_up a = r_failed_up b /\ r_trigger a = r_trigger b /\ r_sigint a = r_sigint b.

Lemma Rok_core i j : same_core i j -> Rok j -> Rok i.
Proof.
  unfold same_core, Rok. intros [H1 [H5 [H6 [H7 [H8 H9]]]]] R.
  rewrite H1, H5, H6, H7, H8, H9. exact R.
Qed.

Lemma Rok_same i j : same_but_home i j -> Rok j -> Rok i.
Proof.
  intros [H1 [H2 [H3 [H4 [H5 [H6 [H7 [H8 [H9 _]]]]]]]]]. apply Rok_core. unfold same_core; auto 10.
Qed.

Lemma Rok_running i : Rok i -> Rok (with_running i).
Proof. apply Rok_core. unfold same_core; cbn; auto 10. Qed.

Lemma Rok_shut i a b : Rok i -> Rok (with_shut i a b).
Proof. apply Rok_core. unfold same_core; cbn; auto 10. Qed.

Lemma Rok_shutdown i a b :
  Rok i -> Rok (with_trigger (with_shut (with_phase i (match r_phase i with Up => Closing CStop | x => x end)) a b)).
Proof.
  intros R. rok_start. destruct (r_phase i) eqn:Ep; (split; [|split; [|split]]); auto; try discriminate.
  all: intros Hf; match goal with [H : r_failed_up _ = true -> _ |- _] => destruct (H Hf) as [X|[o' [X _]]]; discriminate end.
Qed.

Lemma Rok_sigint i :
  Rok i -> Rok (with_sigint (with_phase i (match r_phase i with Up => Closing CInt | x => x end))).
Proof.
  intros R. rok_start. destruct (r_phase i) eqn:Ep; (split; [|split; [|split]]); auto; try discriminate.
  all: try (intros Hf; match goal with [H : r_failed_up _ = true -> _ |- _] => destruct (H Hf) as [X|[o' [X Y]]]; try discriminate end).
  all: try (right; exists o'; destruct Y as [Y1 Y2]; injection X as <-; auto).
  all: try (left; assumption).
Qed.

Lemma Rok_finish i p f o : Rok i -> phase_live (r_phase i) = true -> Rok (finish_rec i p f o).
Proof.
  intros R Hl. rok_start. unfold finish_rec.
  destruct (r_phase i) eqn:Ep; try discriminate Hl; cbn [phase_up].
  all: destruct o; try destruct f; simp_state; rewrite ?Ep;
    try match goal with |- context[if ?c then _ else _] => destruct c end; simp_state; rewrite ?Ep.
  all: (split; [|split; [|split]]); auto; try discriminate.
  all: try (intros _; left; discriminate).
  all: try (intros _; right; reflexivity).
  all: try (intros Hf; cbn in Hf; auto).
  all: try (match goal with [H : r_failed_up _ = true -> _ |- _] => destruct (H Hf) as [X|[o' [X Y]]]; try discriminate; auto end).
  all: try (intros [X|[X|[X|X]]]; try discriminate; auto).
  all: try (destruct Hf as [X|[X|[X|X]]]; try discriminate; auto).
Qed.

Definition all_Rok (s : rt) : Prop := forall r, Rok (run_ s r).

Lemma all_Rok_init : all_Rok init.
Proof. intros r. exact Rok_r0. Qed.

Lemma all_Rok_step s e s' : all_Rok s -> step s e = Some s' -> all_Rok s'.
Proof.
  intros R H. destruct (pay_only e) eqn:Ep.
  { destruct (frame_runners _ _ _ Ep H) as [Hr _]. intros r. rewrite Hr. apply R. }
  destruct e; cbn in Ep; try discriminate Ep; intros r'.
  - (* AcceptCall *)
    destruct (inv_AcceptCall _ _ _ H) as [Hi [[[_ [_ [Hr _]]]|[g [_ [_ [Hr _]]]]] _]]; rewrite Hr;
      upd_cases r'; auto; apply Rok_up; auto.
  - destruct (inv_AcceptEnd _ _ _ _ H) as [Ha [_ [_ Hr]]]. rewrite Hr. upd_cases r'; auto.
    apply Rok_ended; auto.
  - destruct (inv_RunningSet _ _ _ H) as [_ [Hr _]]. rewrite Hr. upd_cases r'; auto. apply Rok_running; auto.
  - destruct (inv_ShutdownCall _ _ _ _ H) as [_ [_ Hr]]. rewrite Hr. upd_cases r'; auto. apply Rok_shutdown; auto.
  - destruct (inv_ShutdownEnd _ _ _ _ H) as [_ [_ [_ Hr]]]. rewrite Hr. upd_cases r'; auto. apply Rok_shut; auto.
  - destruct (inv_Sigint _ _ H) as [_ Hr]. destruct (guard s); rewrite Hr; auto.
    upd_cases r'; auto. apply Rok_sigint; auto.
  - destruct (inv_Start_run _ _ _ _ _ _ _ _ H) as [_ [_ Hs]]. eapply Rok_same; [apply Hs|apply R].
  - destruct (inv_Finish _ _ _ _ H) as [_ [_ [_ [_ [_ [_ [_ [[Hr _]|[_ [Hl Hr]]]]]]]]]]; rewrite Hr; auto.
    upd_cases r'; auto. apply Rok_finish; auto.
Qed.

(* ====================================================================================== *)
(* 2. C12: the guard is held exactly by the one live runner                               *)
(* ====================================================================================== *)
Definition live (s : rt) (r : nat) : Prop := phase_live (r_phase (run_ s r)) = true.

Definition guard_ok (s : rt) : Prop :=
  (forall g, guard s = Some g -> live s g) /\ (forall r, live s r -> guard s = Some r).

Lemma guard_ok_init : guard_ok init.
Proof. split; intros x H; cbn in *; discriminate. Qed.

Lemma live_unique s a b : guard_ok s -> live s a -> live s b -> a = b.
Proof. intros [_ G2] Ha Hb. apply G2 in Ha. apply G2 in Hb. congruence. Qed.

(* phase liveness is unchanged by all the record updates that keep the phase *)
Lemma guard_ok_same_phases s s' :
  guard_ok s -> guard s' = guard s -> (forall r, r_phase (run_ s' r) = r_phase (run_ s r) \/
                                          (live s r /\ live s' r)) ->
  guard_ok s'.
Proof.
  intros [G1 G2] Hg Hp. unfold guard_ok, live in *. rewrite Hg. split.
  - intros g Hgg. destruct (Hp g) as [E|[_ E]]; [rewrite E; auto|exact E].
  - intros r Hr. destruct (Hp r) as [E|[E _]]; [rewrite E in Hr; auto|auto].
Qed.

Lemma guard_ok_step s e s' : guard_ok s -> step s e = Some s' -> guard_ok s'.
Proof.
  intros G H. destruct (pay_only e) eqn:Ep.
  { destruct (frame_runners _ _ _ Ep H) as [Hr Hg]. apply (guard_ok_same_phases s); auto.
    intros r. left. rewrite Hr. reflexivity. }
  destruct e; cbn in Ep; try discriminate Ep.
  - (* AcceptCall *)
    destruct G as [G1 G2].
    destruct (inv_AcceptCall _ _ _ H) as [Hi [[[Hn [Hg [Hr _]]]|[g [Hs [Hg [Hr _]]]]] _]];
      unfold guard_ok, live in *; rewrite Hg, Hr; split.
    + intros g Hgg. injection Hgg as <-. rewrite upd_same. reflexivity.
    + intros r' Hl. upd_cases r'; [reflexivity|]. apply G2 in Hl. congruence.
    + intros g' Hgg. injection Hgg as <-. upd_cases g; [|apply G1; exact Hs].
      specialize (G1 _ Hs). rewrite Hi in G1. discriminate.
    + intros r' Hl. upd_cases r'; [cbn in Hl; discriminate|]. rewrite <- Hs. apply G2. exact Hl.
  - (* AcceptEnd *)
    destruct G as [G1 G2].
    destruct (inv_AcceptEnd _ _ _ _ H) as [_ [_ [Hg Hr]]]. unfold guard_ok, live in *. rewrite Hg, Hr.
    unfold release. split.
    + intros g Hgg. destruct (guard s) as [h|] eqn:Eg; [|discriminate].
      destruct (h =? r) eqn:Eh; [discriminate|]. injection Hgg as <-.
      apply Nat.eqb_neq in Eh. rewrite upd_other by exact Eh. apply G1. reflexivity.
    + intros r' Hl. upd_cases r'; [cbn in Hl; discriminate|].
      rewrite (G2 _ Hl). apply Nat.eqb_neq in Eu. rewrite Eu. reflexivity.
  - destruct (inv_RunningSet _ _ _ H) as [Hg [Hr _]]. apply (guard_ok_same_phases s); auto.
    intros r'. left. rewrite Hr. upd_cases r'; reflexivity.
  - destruct (inv_ShutdownCall _ _ _ _ H) as [Hg [_ Hr]]. apply (guard_ok_same_phases s); auto.
    intros r'. unfold live. rewrite Hr. upd_cases r'; [|left; reflexivity]. simp_state.
    match goal with |- context[r_phase (run_ s ?x)] => destruct (r_phase (run_ s x)) eqn:Eph end; auto.
  - destruct (inv_ShutdownEnd _ _ _ _ H) as [Hg [_ [_ Hr]]]. apply (guard_ok_same_phases s); auto.
    intros r'. left. rewrite Hr. upd_cases r'; reflexivity.
  - destruct (inv_Sigint _ _ H) as [Hg Hr]. apply (guard_ok_same_phases s); auto.
    intros r'. unfold live. destruct (guard s) as [g|]; rewrite Hr; [|left; reflexivity].
    upd_cases r'; [|left; reflexivity]. simp_state.
    match goal with |- context[r_phase (run_ s ?x)] => destruct (r_phase (run_ s x)) eqn:Eph end; auto.
  - destruct (inv_Start_run _ _ _ _ _ _ _ _ H) as [Hg [_ Hs]]. apply (guard_ok_same_phases s); auto.
    intros r'. left. apply Hs.
  - destruct (inv_Finish _ _ _ _ H) as [_ [Hg [_ [_ [_ [_ [_ [[Hr _]|[_ [Hl Hr]]]]]]]]]].
    + apply (guard_ok_same_phases s); auto. intros r'. left. rewrite Hr. reflexivity.
    + apply (guard_ok_same_phases s); auto. intros r'. unfold live. rewrite Hr.
      upd_cases r'; [|left; reflexivity]. right. split; [exact Hl|].
      unfold finish_rec. destruct (r_phase (run_ s (p_owner (pay s p)))) eqn:Eph; try discriminate Hl;
        destruct o; try destruct (p_flav (pay s p)); simp_state; rewrite ?Eph;
        try match goal with |- context[if ?c then _ else _] => destruct c end; simp_state; rewrite ?Eph; reflexivity.
Qed.

(* ====================================================================================== *)
(* 3. bookkeeping: every non-default record is listed                                     *)
(* ====================================================================================== *)
Definition ids_ok (s : rt) : Prop :=
  (forall r, ~ In r (rids s) -> run_ s r = r0) /\ (forall p, ~ In p (pids s) -> pay s p = p0).

Lemma add_id_in x y l : In x (add_id y l) <-> x = y \/ In x l.
Proof.
  unfold add_id. destruct (existsb (Nat.eqb y) l) eqn:E.
  - split; [auto|]. intros [->|H]; [|exact H].
    apply existsb_exists in E. destruct E as [z [Hz Ez]]. apply Nat.eqb_eq in Ez. subst. exact Hz.
  - cbn. split; intros [H|H]; auto.
Qed.

Lemma ids_ok_init : ids_ok init.
Proof. split; reflexivity. Qed.

Lemma ids_ok_step s e s' : ids_ok s -> step s e = Some s' -> ids_ok s'.
Proof.
  intros [I1 I2] H. split.
  - intros r Hn. step_inv H; simp_state; auto;
    try (rewrite ?add_id_in in Hn; upd_cases r; [exfalso; apply Hn; auto|]; auto 6; fail).
    all: try (destruct f; simp_state).
    all: rewrite ?add_id_in in Hn; unfold upd; repeat (match goal with |- context[?a =? ?b] => destruct (a =? b) eqn:?E end);
      try (apply Nat.eqb_eq in E; subst); try (apply Nat.eqb_eq in E0; subst); try (exfalso; apply Hn; auto; fail); auto 6.
  - intros p Hn. step_inv H; simp_state; auto;
    try (rewrite ?add_id_in in Hn; upd_cases p; [exfalso; apply Hn; auto|]; auto 6; fail).
    destruct (flush_st s r p) as [[Hq [_ Hf]]|Hf]; rewrite Hf; simp_state; [|auto].
    rewrite (I2 _ Hn) in Hq. discriminate.
Qed.

(* ====================================================================================== *)
(* 4. payload-level invariants and permanence                                             *)
(* ====================================================================================== *)
Definition starts_ok (s : rt) : Prop :=
  forall p, p_starts (pay s p) = if started (p_st (pay s p)) then 1 else 0.

Lemma starts_ok_init : starts_ok init.
Proof. intros p. reflexivity. Qed.

Lemma starts_ok_step s e s' : starts_ok s -> step s e = Some s' -> starts_ok s'.
Proof.
  intros I H p. pose proof (I p) as Ip. clear I. step_inv H; simp_state;
  try (upd_cases p); simp_state; try exact Ip; try reflexivity;
  try (rw_all; cbn [started] in *; (lia || congruence || reflexivity)).
  - destruct (flush_st s r p) as [[Hq [_ Hf]]|Hf]; rewrite Hf; simp_state; [rewrite Hq in Ip|]; exact Ip.
  - rewrite E in Ip. destruct (r_phase (run_ s r)); exact Ip.
Qed.

(* the ghost counter really counts Start events *)
Definition is_start (p : nat) (e : event) : nat :=
  match e with Start q _ _ _ _ _ => if q =? p then 1 else 0 | _ => 0 end.
Fixpoint nstarts (p : nat) (tr : list event) : nat :=
  match tr with [] => 0 | e :: r => is_start p e + nstarts p r end.

Lemma starts_count_step s e s' p :
  step s e = Some s' -> p_starts (pay s' p) = p_starts (pay s p) + is_start p e.
Proof.
  intros H. step_inv H; simp_state; cbn [is_start]; try (rewrite Nat.add_0_r; reflexivity);
  try (upd_cases p; simp_state; rewrite ?Nat.eqb_refl; try lia;
       try (match goal with [H : ?a <> ?b |- context[?b =? ?a]] => rewrite (proj2 (Nat.eqb_neq b a)) by congruence end; lia);
       try (rw_all; simp_state; lia); fail).
  - destruct (flush_st s r p) as [[_ [_ Hf]]|Hf]; rewrite Hf; simp_state; lia.
Qed.

Lemma starts_count tr : forall s s' p,
  run s tr = Some s' -> p_starts (pay s' p) = p_starts (pay s p) + nstarts p tr.
Proof.
  induction tr as [|e tr IH]; intros s s' p H; cbn [run nstarts] in *.
  - injection H as <-. lia.
  - destruct (step s e) eqn:E; [|discriminate]. rewrite (IH _ _ _ H), (starts_count_step _ _ _ p E). lia.
Qed.

(* an ended run never changes phase again *)
Lemma ended_perm s e s' r :
  step s e = Some s' -> phase_ended (r_phase (run_ s r)) = true ->
  r_phase (run_ s' r) = r_phase (run_ s r).
Proof.
  intros H He. destruct (pay_only e) eqn:Ep.
  { destruct (frame_runners _ _ _ Ep H) as [Hr _]. rewrite Hr. reflexivity. }
  destruct e; cbn in Ep; try discriminate Ep.
  - destruct (inv_AcceptCall _ _ _ H) as [Hi [[[_ [_ [Hr _]]]|[g [_ [_ [Hr _]]]]] _]]; rewrite Hr;
      upd_cases r; auto; rewrite Hi in He; discriminate He.
  - destruct (inv_AcceptEnd _ _ _ _ H) as [Ha [_ [_ Hr]]]. rewrite Hr. upd_cases r; auto.
    unfold accept_end_ok in Ha. destruct (r_phase (run_ s _)); cbn in He; try discriminate.
  - destruct (inv_RunningSet _ _ _ H) as [_ [Hr _]]. rewrite Hr. upd_cases r; reflexivity.
  - destruct (inv_ShutdownCall _ _ _ _ H) as [_ [_ Hr]]. rewrite Hr. upd_cases r; auto. simp_state.
    destruct (r_phase (run_ s _)); cbn in He; try discriminate; reflexivity.
  - destruct (inv_ShutdownEnd _ _ _ _ H) as [_ [_ [_ Hr]]]. rewrite Hr. upd_cases r; reflexivity.
  - destruct (inv_Sigint _ _ H) as [_ Hr]. destruct (guard s); rewrite Hr; auto. upd_cases r; auto. simp_state.
    destruct (r_phase (run_ s _)); cbn in He; try discriminate; reflexivity.
  - destruct (inv_Start_run _ _ _ _ _ _ _ _ H) as [_ [_ Hs]]. apply Hs.
  - destruct (inv_Finish _ _ _ _ H) as [_ [_ [_ [_ [_ [_ [_ [[Hr _]|[_ [Hl Hr]]]]]]]]]]; rewrite Hr; auto.
    upd_cases r; auto. destruct (r_phase (run_ s (p_owner (pay s p)))); cbn in *; discriminate.
Qed.

Lemma ended_perm_run tr : forall s s' r o,
  run s tr = Some s' -> r_phase (run_ s r) = Ended o -> r_phase (run_ s' r) = Ended o.
Proof.
  induction tr as [|e tr IH]; intros s s' r o H He; cbn [run] in H.
  - injection H as <-. exact He.
  - destruct (step s e) eqn:E; [|discriminate]. eapply IH; [exact H|].
    rewrite (ended_perm _ _ _ r E); [exact He|rewrite He; reflexivity].
Qed.

(* once started, a payload keeps its identity data and stays started *)
Lemma started_perm s e s' p :
  step s e = Some s' -> started (p_st (pay s p)) = true ->
  started (p_st (pay s' p)) = true /\ p_owner (pay s' p) = p_owner (pay s p)
  /\ p_flav (pay s' p) = p_flav (pay s p) /\ p_origin (pay s' p) = p_origin (pay s p)
  /\ p_tid (pay s' p) = p_tid (pay s p) /\ p_loop (pay s' p) = p_loop (pay s p).
Proof.
  intros H Hs. step_inv H; simp_state; auto 10;
  try (upd_cases p; simp_state; auto 10);
  try (rw_all; cbn [started] in *; try discriminate; auto 10; fail).
  - destruct (flush_st s r p) as [[Hq [_ Hf]]|Hf]; rewrite Hf; simp_state; auto 10.
    rewrite Hq in Hs. discriminate.
Qed.

(* a finished payload stays finished with the same outcome *)
Lemma done_perm s e s' p o :
  step s e = Some s' -> p_st (pay s p) = PDone o ->
  p_st (pay s' p) = PDone o /\ p_owner (pay s' p) = p_owner (pay s p) /\ p_origin (pay s' p) = p_origin (pay s p).
Proof.
  intros H Hs. assert (St : started (p_st (pay s p)) = true) by (rewrite Hs; reflexivity).
  destruct (started_perm _ _ _ _ H St) as [_ [Ho [_ [Hor _]]]]. split; [|auto].
  step_inv H; simp_state; auto;
  try (upd_cases p; simp_state; auto);
  try (rw_all; try discriminate; auto; fail).
  - destruct (flush_st s r p) as [[Hq [_ Hf]]|Hf]; rewrite Hf; simp_state; auto. congruence.
Qed.

(* ====================================================================================== *)
(* 5. C01: recorded failures are the payloads' own failures                               *)
(* ====================================================================================== *)
Definition cause_ok (s : rt) (r : nat) (c : cause) : Prop :=
  match c with
  | CExc p => exists e, p_st (pay s p) = PDone (ORaiseExc e) /\ p_owner (pay s p) = r
                        /\ is_exec (p_origin (pay s p)) = false
  | COrphan p => exists v, p_st (pay s p) = PDone (ORetVal v) /\ p_owner (pay s p) = r
                           /\ is_exec (p_origin (pay s p)) = false
  | COther => False
  end.

Definition causes_ok (s : rt) : Prop := forall r c, In c (r_failures (run_ s r)) -> cause_ok s r c.

Lemma cause_ok_step s e s' r c : step s e = Some s' -> cause_ok s r c -> cause_ok s' r c.
Proof.
  intros H Hc. destruct c as [p|p|]; cbn in *; [| |exact Hc].
  - destruct Hc as [x [Hd [Ho Hx]]]. destruct (done_perm _ _ _ _ _ H Hd) as [Hd' [Ho' Hor']].
    exists x. rewrite Hd', Ho', Hor'. auto.
  - destruct Hc as [x [Hd [Ho Hx]]]. destruct (done_perm _ _ _ _ _ H Hd) as [Hd' [Ho' Hor']].
    exists x. rewrite Hd', Ho', Hor'. auto.
Qed.

Lemma failures_step s e s' r :
  step s e = Some s' ->
  r_failures (run_ s' r) = r_failures (run_ s r) \/
  exists p o, e = Finish p o /\ r = p_owner (pay s p) /\ is_exec (p_origin (pay s p)) = false
    /\ p_st (pay s p) = PRun
    /\ ((exists x, o = ORaiseExc x /\ r_failures (run_ s' r) = CExc p :: r_failures (run_ s r))
        \/ (exists x, o = ORetVal x /\ r_failures (run_ s' r) = COrphan p :: r_failures (run_ s r))).
Proof.
  intros H. destruct (pay_only e) eqn:Ep.
  { destruct (frame_runners _ _ _ Ep H) as [Hr _]. rewrite Hr. auto. }
  destruct e; cbn in Ep; try discriminate Ep.
  - destruct (inv_AcceptCall _ _ _ H) as [Hi [[[_ [_ [Hr _]]]|[g [_ [_ [Hr _]]]]] _]]; rewrite Hr;
      left; upd_cases r; reflexivity.
  - destruct (inv_AcceptEnd _ _ _ _ H) as [Ha [_ [_ Hr]]]. rewrite Hr. left. upd_cases r; reflexivity.
  - destruct (inv_RunningSet _ _ _ H) as [_ [Hr _]]. rewrite Hr. left. upd_cases r; reflexivity.
  - destruct (inv_ShutdownCall _ _ _ _ H) as [_ [_ Hr]]. rewrite Hr. left. upd_cases r; reflexivity.
  - destruct (inv_ShutdownEnd _ _ _ _ H) as [_ [_ [_ Hr]]]. rewrite Hr. left. upd_cases r; reflexivity.
  - destruct (inv_Sigint _ _ H) as [_ Hr]. left. destruct (guard s); rewrite Hr; auto. upd_cases r; reflexivity.
  - destruct (inv_Start_run _ _ _ _ _ _ _ _ H) as [_ [_ Hs]]. left. apply Hs.
  - destruct (inv_Finish _ _ _ _ H) as [Hst [_ [_ [_ [_ [_ [_ [[Hr _]|[Hx [Hl Hr]]]]]]]]]]; rewrite Hr; auto.
    upd_cases r; auto. unfold finish_rec.
    destruct o as [|v|x|x|]; simp_state; auto.
    + right. exists p, (ORetVal v). repeat split; auto. right. eauto.
    + right. exists p, (ORaiseExc x). repeat split; auto. left. eauto.
    + match goal with |- context[if ?c then _ else _] => destruct c end; simp_state; auto.
    + destruct (p_flav (pay s p)); simp_state; auto.
Qed.

Lemma causes_ok_init : causes_ok init.
Proof. intros r c H. destruct H. Qed.

Lemma causes_ok_step s e s' : causes_ok s -> step s e = Some s' -> causes_ok s'.
Proof.
  intros C H r c Hin. destruct (failures_step _ _ _ r H) as [E|[p [o [-> [-> [Hx [Hst [[x [-> E]]|[x [-> E]]]]]]]]]].
  - rewrite E in Hin. eapply cause_ok_step; eauto.
  - rewrite E in Hin. destruct Hin as [<-|Hin]; [|eapply cause_ok_step; eauto].
    destruct (inv_Finish _ _ _ _ H) as [_ [_ [Hp _]]]. cbn. exists x. rewrite Hp, upd_same. simp_state. auto.
  - rewrite E in Hin. destruct Hin as [<-|Hin]; [|eapply cause_ok_step; eauto].
    destruct (inv_Finish _ _ _ _ H) as [_ [_ [Hp _]]]. cbn. exists x. rewrite Hp, upd_same. simp_state. auto.
Qed.

(* ====================================================================================== *)
(* 6. the combined invariant and its lifting to every reachable state                     *)
(* ====================================================================================== *)
Record Inv (s : rt) : Prop := mkInv {
  inv_rok : all_Rok s; inv_guard : guard_ok s; inv_ids : ids_ok s; inv_starts : starts_ok s;
  inv_causes : causes_ok s }.

Lemma Inv_init : Inv init.
Proof.
  constructor; [apply all_Rok_init|apply guard_ok_init|apply ids_ok_init|apply starts_ok_init|apply causes_ok_init].
Qed.

Lemma Inv_step s e s' : Inv s -> step s e = Some s' -> Inv s'.
Proof.
  intros [A B C D E] H. constructor;
    [eapply all_Rok_step|eapply guard_ok_step|eapply ids_ok_step|eapply starts_ok_step|eapply causes_ok_step]; eauto.
Qed.

Lemma Inv_run tr s : run init tr = Some s -> Inv s.
Proof. intros H. eapply (run_inv Inv Inv_step); [apply Inv_init|exact H]. Qed.

Lemma Inv_run_from tr s s' : Inv s -> run s tr = Some s' -> Inv s'.
Proof. intros I H. eapply (run_inv Inv Inv_step); eauto. Qed.

(* ====================================================================================== *)
(* 7. monotone ghost flags and their provenance                                           *)
(* ====================================================================================== *)
Definition stop_trigger (r : nat) (e : event) : Prop :=
  e = Sigint \/ (exists c, e = ShutdownCall c r) \/ (exists p, e = Finish p OKbd).

(* one lemma describing how the flags of runner r evolve in one step *)
Lemma flags_step s e s' r :
  step s e = Some s' ->
  (r_failed_up (run_ s r) = true -> r_failed_up (run_ s' r) = true) /\
  (r_trigger (run_ s' r) = true -> r_trigger (run_ s r) = true \/ stop_trigger r e) /\
  (r_sigint (run_ s' r) = true -> r_sigint (run_ s r) = true \/ (e = Sigint /\ guard s = Some r)).
Proof.
  intros H. destruct (pay_only e) eqn:Ep.
  { destruct (frame_runners _ _ _ Ep H) as [Hr _]. rewrite Hr. auto. }
  unfold stop_trigger.
  destruct e; cbn in Ep; try discriminate Ep.
  - destruct (inv_AcceptCall _ _ _ H) as [Hi [[[_ [_ [Hr _]]]|[g [_ [_ [Hr _]]]]] _]]; rewrite Hr;
      upd_cases r; auto.
  - destruct (inv_AcceptEnd _ _ _ _ H) as [Ha [_ [_ Hr]]]. rewrite Hr. upd_cases r; auto.
  - destruct (inv_RunningSet _ _ _ H) as [_ [Hr _]]. rewrite Hr. upd_cases r; auto.
  - destruct (inv_ShutdownCall _ _ _ _ H) as [_ [_ Hr]]. rewrite Hr. upd_cases r; auto. simp_state.
    repeat split; auto. intros _. right. right. left. eauto.
  - destruct (inv_ShutdownEnd _ _ _ _ H) as [_ [_ [_ Hr]]]. rewrite Hr. upd_cases r; auto.
  - destruct (inv_Sigint _ _ H) as [_ Hr]. destruct (guard s) eqn:Eg; rewrite Hr; auto. upd_cases r; auto.
    all: try (simp_state; repeat split; auto).
  - destruct (inv_Start_run _ _ _ _ _ _ _ _ H) as [_ [_ Hs]].
    destruct (Hs r) as [_ [_ [_ [_ [_ [_ [H7 [H8 [H9 _]]]]]]]]]. rewrite H7, H8, H9. auto.
  - destruct (inv_Finish _ _ _ _ H) as [Hst [_ [_ [_ [_ [_ [_ [[Hr _]|[Hx [Hl Hr]]]]]]]]]]; rewrite Hr; auto.
    upd_cases r; auto. unfold finish_rec.
    destruct o; simp_state; auto.
    + repeat split; auto. intros ->. apply orb_true_r.
    + repeat split; auto. intros ->. apply orb_true_r.
    + match goal with |- context[if ?c then _ else _] => destruct c end; simp_state;
        (repeat split; auto; intros ->; apply orb_true_r).
    + destruct (p_flav (pay s p)); simp_state; repeat split; auto; intros _; right; right; right; eauto.
Qed.

Lemma failed_up_run tr : forall s s' r,
  run s tr = Some s' -> r_failed_up (run_ s r) = true -> r_failed_up (run_ s' r) = true.
Proof.
  induction tr as [|e tr IH]; intros s s' r H Hf; cbn [run] in H.
  - injection H as <-. exact Hf.
  - destruct (step s e) eqn:E; [|discriminate]. eapply IH; [exact H|].
    apply (proj1 (flags_step _ _ _ r E)). exact Hf.
Qed.

Lemma trigger_run tr : forall s s' r,
  run s tr = Some s' -> r_trigger (run_ s' r) = true ->
  r_trigger (run_ s r) = true \/ exists e, In e tr /\ stop_trigger r e.
Proof.
  induction tr as [|e tr IH]; intros s s' r H Hf; cbn [run] in H.
  - injection H as <-. auto.
  - destruct (step s e) eqn:E; [|discriminate].
    destruct (IH _ _ _ H Hf) as [Ht|[e' [Hin He']]].
    + destruct (proj1 (proj2 (flags_step _ _ _ r E)) Ht) as [X|X]; auto.
      right. exists e. split; [left; reflexivity|exact X].
    + right. exists e'. split; [right; exact Hin|exact He'].
Qed.

Lemma sigint_run tr : forall s s' r,
  run s tr = Some s' -> r_sigint (run_ s' r) = true ->
  r_sigint (run_ s r) = true \/ In Sigint tr.
Proof.
  induction tr as [|e tr IH]; intros s s' r H Hf; cbn [run] in H.
  - injection H as <-. auto.
  - destruct (step s e) eqn:E; [|discriminate].
    destruct (IH _ _ _ H Hf) as [Ht|Hin].
    + destruct (proj2 (proj2 (flags_step _ _ _ r E)) Ht) as [X|[X _]]; auto.
      right. left. auto.
    + right. right. exact Hin.
Qed.

(* ====================================================================================== *)
(* 8. C01                                                                                 *)
(* ====================================================================================== *)
Definition background (s : rt) (p : nat) : Prop := is_exec (p_origin (pay s p)) = false.

(* a failing background payload of a runner that is Up closes the runner with cause CFail *)
Lemma C01_failure_closes s p o s' :
  step s (Finish p o) = Some s' -> failing o = true -> background s p ->
  r_phase (run_ s (p_owner (pay s p))) = Up ->
  r_phase (run_ s' (p_owner (pay s p))) = Closing CFail /\ r_failed_up (run_ s' (p_owner (pay s p))) = true.
Proof.
  intros H Hf Hb Hu. unfold background in Hb.
  destruct (inv_Finish _ _ _ _ H) as [_ [_ [_ [_ [_ [_ [_ [[_ [X|X]]|[_ [_ Hr]]]]]]]]]].
  - congruence.
  - rewrite Hu in X. discriminate.
  - rewrite Hr, upd_same. unfold finish_rec. rewrite Hu. destruct o; try discriminate Hf; cbn; auto.
    match goal with |- context[if ?c then _ else _] => destruct c end; cbn; auto.
Qed.

(* ... and from then on the run cannot end silently: it ends by raising, unless a SIGINT arrives *)
Lemma C01_no_silent_return tr1 tr2 s1 p o s r a :
  run init tr1 = Some s1 ->
  failing o = true -> background s1 p -> r = p_owner (pay s1 p) -> r_phase (run_ s1 r) = Up ->
  run s1 (Finish p o :: tr2) = Some s ->
  r_phase (run_ s r) = Ended a ->
  a <> AExclusive /\ (a = AReturned -> In Sigint (tr1 ++ Finish p o :: tr2)).
Proof.
  intros H1 Hf Hb -> Hu H2 He. cbn [run] in H2.
  destruct (step s1 (Finish p o)) as [s2|] eqn:E; [|discriminate].
  destruct (C01_failure_closes _ _ _ _ E Hf Hb Hu) as [_ Hfu].
  pose proof (failed_up_run _ _ _ _ H2 Hfu) as Hfu'.
  assert (I : Inv s).
  { eapply Inv_run_from; [eapply Inv_step; [eapply Inv_run; exact H1|exact E]|exact H2]. }
  destruct (inv_rok _ I (p_owner (pay s1 p))) as [_ [R2 _]].
  destruct (R2 Hfu') as [X|[o' [X [Y Z]]]]; [congruence|].
  rewrite He in X. injection X as <-. split; [exact Y|].
  intros Ha. specialize (Z Ha).
  assert (Hall : run init (tr1 ++ Finish p o :: tr2) = Some s).
  { rewrite run_app, H1. cbn [run]. rewrite E. exact H2. }
  destruct (sigint_run _ _ _ _ Hall Z) as [W|W]; [cbn in W; discriminate|exact W].
Qed.

Lemma C01_cause_is_original tr s r cs :
  run init tr = Some s -> r_phase (run_ s r) = Ended (ARuntime cs) ->
  cs <> [] /\ forall c, In c cs -> cause_ok s r c.
Proof.
  intros H He. pose proof (Inv_run _ _ H) as I.
  destruct (inv_rok _ I r) as [_ [_ [R3 _]]]. destruct (R3 _ He) as [Hne Hin].
  split; [exact Hne|]. intros c Hc. apply (inv_causes _ I). apply Hin. exact Hc.
Qed.

Lemma C01_only_interrupt_is_silent tr s r :
  run init tr = Some s -> r_phase (run_ s r) = Ended AReturned ->
  exists e, In e tr /\ stop_trigger r e.
Proof.
  intros H He. pose proof (Inv_run _ _ H) as I.
  destruct (inv_rok _ I r) as [_ [_ [_ R4]]].
  assert (Ht : r_trigger (run_ s r) = true) by (apply R4; auto).
  destruct (trigger_run _ _ _ _ H Ht) as [X|X]; [cbn in X; discriminate|exact X].
Qed.

(* progress, in the form a model can carry: when nothing is owed any more, no runner is left closing *)
Lemma owed_closing s r :
  In r (rids s) -> (phase_closing (r_phase (run_ s r)) = true \/ r_phase (run_ s r) = Rejected) ->
  quiescent s = false.
Proof.
  intros Hin Hc. unfold quiescent. destruct (owed s) eqn:E; [|reflexivity]. exfalso.
  unfold owed in E. apply app_eq_nil in E. destruct E as [_ E].
  assert (Hx : In (OAcceptEnd r) (flat_map (owed_run s) (rids s))).
  { apply in_flat_map. exists r. split; [exact Hin|]. unfold owed_run. apply in_or_app. left.
    destruct Hc as [Hc|Hc]; [destruct (r_phase (run_ s r)); try discriminate Hc; left; reflexivity|
                             rewrite Hc; left; reflexivity]. }
  rewrite E in Hx. destruct Hx.
Qed.

Lemma C01_failure_forces_end tr s r :
  run init tr = Some s -> quiescent s = true -> r_failed_up (run_ s r) = true ->
  exists a, r_phase (run_ s r) = Ended a /\ a <> AExclusive /\ (a = AReturned -> In Sigint tr).
Proof.
  intros H Hq Hf. pose proof (Inv_run _ _ H) as I.
  destruct (inv_rok _ I r) as [_ [R2 _]]. destruct (R2 Hf) as [X|[a [X [Y Z]]]].
  - exfalso. assert (Hin : In r (rids s)).
    { destruct (in_dec Nat.eq_dec r (rids s)) as [i|n]; [exact i|].
      rewrite (proj1 (inv_ids _ I) _ n) in X. discriminate. }
    rewrite (owed_closing s r Hin) in Hq; [discriminate|]. left. rewrite X. reflexivity.
  - exists a. repeat split; auto. intros Ha. destruct (sigint_run _ _ _ _ H (Z Ha)) as [W|W]; [discriminate|exact W].
Qed.

(* ====================================================================================== *)
(* 9. C02                                                                                 *)
(* ====================================================================================== *)
Lemma forallb_settled s r :
  settled s r = true -> forall p, In p (pids s) -> p_owner (pay s p) = r -> unsettled (pay s p) = false.
Proof.
  unfold settled. intros H p Hin Ho. rewrite forallb_forall in H. specialize (H p Hin).
  rewrite Ho, Nat.eqb_refl in H. cbn in H. destruct (unsettled (pay s p)); [discriminate|reflexivity].
Qed.

(* when the blocking run call of runner r ends (other than by the exclusivity error), no coroutine
   payload of r is still running or still cleaning up *)
Lemma C02_settled_at_end tr s r o s' :
  run init tr = Some s -> step s (AcceptEnd r o) = Some s' -> o <> AExclusive ->
  r_loopkill (run_ s r) = false ->
  forall p, p_owner (pay s p) = r -> coroutine (p_flav (pay s p)) = true -> background s p ->
    p_st (pay s p) <> PRun /\ p_st (pay s p) <> PCanc.
Proof.
  intros H E Ho Hk p Hp Hc Hb. pose proof (Inv_run _ _ H) as I.
  destruct (inv_AcceptEnd _ _ _ _ E) as [Ha [Hs _]].
  assert (Hcl : phase_closing (r_phase (run_ s r)) = true).
  { unfold accept_end_ok in Ha. destruct (r_phase (run_ s r)); try discriminate Ha; [reflexivity|].
    destruct o; try discriminate Ha. congruence. }
  specialize (Hs Hcl Hk).
  destruct (in_dec Nat.eq_dec p (pids s)) as [i|n].
  - pose proof (forallb_settled _ _ Hs p i Hp) as Hu. unfold unsettled in Hu. unfold background in Hb.
    rewrite Hc, Hb in Hu. destruct (p_st (pay s p)); cbn in Hu; try discriminate; split; discriminate.
  - rewrite (proj2 (inv_ids _ I) _ n). cbn. split; discriminate.
Qed.

(* the payload an event is an activity of *)
Definition activity (e : event) : option nat :=
  match e with
  | Start p _ _ _ _ _ | Step p _ | Enter p | Finish p _ | Cancelled p | CleanStep p | CleanupDone p => Some p
  | _ => None
  end.

Ltac dphase :=
  match goal with
  | [ |- context[r_phase (run_ ?a ?b)]] => destruct (r_phase (run_ a b)) eqn:?
  | [H : context[r_phase (run_ ?a ?b)] |- _] => destruct (r_phase (run_ a b)) eqn:?
  end.

(* no coroutine payload takes a further step once the run call of its runner has ended
   (except the orphaned trio payloads of the loop-killing SystemExit finding) *)
Lemma no_activity_after_end s e s' p :
  step s e = Some s' -> activity e = Some p -> coroutine (p_flav (pay s' p)) = true ->
  phase_ended (r_phase (run_ s (p_owner (pay s' p)))) = false
  \/ r_loopkill (run_ s (p_owner (pay s' p))) = true.
Proof.
  intros H Ha Hc.
  assert (G : forall ri f, coroutine f = true ->
              may_act ri f = true \/ may_start ri f = true \/ may_clean ri f = true ->
              phase_ended (r_phase ri) = false \/ r_loopkill ri = true).
  { intros ri f Hf. unfold may_act, may_start, may_clean, orphaned_trio. rewrite Hf.
    destruct (r_phase ri); cbn; destruct (r_loopkill ri); cbn; auto; intros [X|[X|X]]; discriminate. }
  destruct e; cbn in Ha; try discriminate Ha; injection Ha as ->.
  - destruct (inv_Start_pay _ _ _ _ _ _ _ _ H) as [_ [_ [_ [r [Hl [_ [_ [_ Hp]]]]]]]].
    rewrite Hp, upd_same in *. simp_state. eapply (G _ _ Hc). right. left. exact Hl.
  - step_inv H. apply andb_prop in E0. destruct E0 as [_ E0]. rewrite Hc in E0. cbn in E0. eapply G; eauto.
  - step_inv H; simp_state. rewrite Hc in E1. cbn in E1. apply orb_false_elim in E1. destruct E1 as [_ E1].
    apply negb_false_iff in E1. eapply G; eauto.
  - destruct (inv_Finish _ _ _ _ H) as [_ [_ [Hp [_ [He _]]]]]. rewrite Hp, upd_same in *. simp_state.
    eapply G; eauto.
  - step_inv H; simp_state. rewrite upd_same in *. simp_state.
    apply andb_prop in E0. destruct E0 as [E0 _]. apply andb_prop in E0. destruct E0 as [_ E0]. eapply G; eauto.
  - step_inv H; simp_state. eapply G; eauto.
  - step_inv H; simp_state. rewrite upd_same in *. simp_state. eapply G; eauto.
Qed.

(* the loop-kill flag can only be set while the runner is live *)
Lemma loopkill_perm_ended s e s' r :
  step s e = Some s' -> phase_ended (r_phase (run_ s r)) = true ->
  r_loopkill (run_ s' r) = r_loopkill (run_ s r).
Proof.
  intros H He. destruct (pay_only e) eqn:Ep.
  { destruct (frame_runners _ _ _ Ep H) as [Hr _]. rewrite Hr. reflexivity. }
  destruct e; cbn in Ep; try discriminate Ep.
  - destruct (inv_AcceptCall _ _ _ H) as [Hi [[[_ [_ [Hr _]]]|[g [_ [_ [Hr _]]]]] _]]; rewrite Hr;
      upd_keep r; auto.
  - destruct (inv_AcceptEnd _ _ _ _ H) as [Ha [_ [_ Hr]]]. rewrite Hr. upd_keep r; auto.
  - destruct (inv_RunningSet _ _ _ H) as [_ [Hr _]]. rewrite Hr. upd_keep r; reflexivity.
  - destruct (inv_ShutdownCall _ _ _ _ H) as [_ [_ Hr]]. rewrite Hr. upd_keep r; auto.
  - destruct (inv_ShutdownEnd _ _ _ _ H) as [_ [_ [_ Hr]]]. rewrite Hr. upd_keep r; reflexivity.
  - destruct (inv_Sigint _ _ H) as [_ Hr]. destruct (guard s); rewrite Hr; auto. upd_keep r; auto.
  - destruct (inv_Start_run _ _ _ _ _ _ _ _ H) as [_ [_ Hs]]. apply Hs.
  - destruct (inv_Finish _ _ _ _ H) as [_ [_ [_ [_ [_ [_ [_ [[Hr _]|[_ [Hl Hr]]]]]]]]]]; rewrite Hr; auto.
    upd_keep r; auto. destruct (r_phase (run_ s (p_owner (pay s p)))); cbn in *; discriminate.
Qed.

Lemma loopkill_only_by_systemexit s e s' r :
  step s e = Some s' -> r_loopkill (run_ s r) = false -> r_loopkill (run_ s' r) = true ->
  exists p, e = Finish p (ORaiseBase sysexit_exc) /\ p_flav (pay s p) <> Trio /\ background s p.
Proof.
  intros H H0 H1. destruct (pay_only e) eqn:Ep.
  { destruct (frame_runners _ _ _ Ep H) as [Hr _]. rewrite Hr in H1. congruence. }
  destruct e; cbn in Ep; try discriminate Ep.
  - destruct (inv_AcceptCall _ _ _ H) as [Hi [[[_ [_ [Hr _]]]|[g [_ [_ [Hr _]]]]] _]]; rewrite Hr in H1;
      upd_keep r; simp_state; congruence.
  - destruct (inv_AcceptEnd _ _ _ _ H) as [Ha [_ [_ Hr]]]. rewrite Hr in H1. upd_keep r; simp_state; congruence.
  - destruct (inv_RunningSet _ _ _ H) as [_ [Hr _]]. rewrite Hr in H1. upd_keep r; simp_state; congruence.
  - destruct (inv_ShutdownCall _ _ _ _ H) as [_ [_ Hr]]. rewrite Hr in H1. upd_keep r; simp_state; congruence.
  - destruct (inv_ShutdownEnd _ _ _ _ H) as [_ [_ [_ Hr]]]. rewrite Hr in H1. upd_keep r; simp_state; congruence.
  - destruct (inv_Sigint _ _ H) as [_ Hr]. destruct (guard s); rewrite Hr in H1; try congruence.
    upd_keep r; simp_state; congruence.
  - destruct (inv_Start_run _ _ _ _ _ _ _ _ H) as [_ [_ Hs]].
    destruct (Hs r) as [_ [_ [_ [_ [_ [_ [_ [_ [_ X]]]]]]]]]. congruence.
  - destruct (inv_Finish _ _ _ _ H) as [_ [_ [_ [_ [_ [_ [_ [[Hr _]|[Hx [Hl Hr]]]]]]]]]]; rewrite Hr in H1; [congruence|].
    upd_keep r; [|congruence]. unfold finish_rec in H1.
    destruct o as [|v|x|x|]; simp_state; try congruence.
    + destruct ((x =? sysexit_exc) && negb (flav_eqb (p_flav (pay s p)) Trio)) eqn:Ec; simp_state; [|congruence].
      apply andb_prop in Ec. destruct Ec as [E1 E2]. apply Nat.eqb_eq in E1. subst x.
      exists p. split; [reflexivity|]. split; [|exact Hx].
      intros Ht. rewrite Ht in E2. discriminate E2.
    + destruct (p_flav (pay s p)); simp_state; congruence.
Qed.

Lemma loopkill_perm_run tr : forall s s' r o,
  run s tr = Some s' -> r_phase (run_ s r) = Ended o -> r_loopkill (run_ s' r) = r_loopkill (run_ s r).
Proof.
  induction tr as [|e tr IH]; intros s s' r o H He; cbn [run] in H.
  - injection H as <-. reflexivity.
  - destruct (step s e) eqn:E; [|discriminate].
    assert (Hend : phase_ended (r_phase (run_ s r)) = true) by (rewrite He; reflexivity).
    rewrite (IH _ _ r o H); [apply (loopkill_perm_ended _ _ _ r E Hend)|].
    rewrite (ended_perm _ _ _ r E Hend). exact He.
Qed.

Lemma owner_perm_run tr : forall s s' p,
  run s tr = Some s' -> started (p_st (pay s p)) = true ->
  p_owner (pay s' p) = p_owner (pay s p) /\ p_flav (pay s' p) = p_flav (pay s p).
Proof.
  induction tr as [|e tr IH]; intros s s' p H Hs; cbn [run] in H.
  - injection H as <-. auto.
  - destruct (step s e) eqn:E; [|discriminate].
    destruct (started_perm _ _ _ _ E Hs) as [S1 [S2 [S3 _]]].
    destruct (IH _ _ _ H S1) as [A B]. rewrite A, B. auto.
Qed.

Lemma C02_no_step_after_end tr1 r o tr2 e s1 s2 s3 p :
  run init (tr1 ++ [AcceptEnd r o]) = Some s1 -> r_loopkill (run_ s1 r) = false ->
  run s1 tr2 = Some s2 -> step s2 e = Some s3 ->
  activity e = Some p -> coroutine (p_flav (pay s3 p)) = true -> p_owner (pay s3 p) = r -> False.
Proof.
  intros H1 Hk H2 H3 Ha Hc Ho.
  assert (He : r_phase (run_ s1 r) = Ended o).
  { rewrite run_app in H1. destruct (run init tr1) as [s0|]; [|discriminate]. cbn [run] in H1.
    destruct (step s0 (AcceptEnd r o)) eqn:E; [|discriminate]. injection H1 as <-.
    destruct (inv_AcceptEnd _ _ _ _ E) as [_ [_ [_ Hr]]]. rewrite Hr, upd_same. reflexivity. }
  pose proof (ended_perm_run _ _ _ _ _ H2 He) as He2.
  pose proof (loopkill_perm_run _ _ _ _ _ H2 He) as Hk2.
  destruct (no_activity_after_end _ _ _ _ H3 Ha Hc) as [Hn|Hn]; rewrite Ho in Hn.
  - rewrite He2 in Hn. discriminate.
  - congruence.
Qed.

(* cancellation before cleanup: the ghost counters of a payload in its terminal cleanup state *)
Definition cleanup_ok (s : rt) : Prop :=
  forall p, match p_st (pay s p) with
            | PCanc => p_cancels (pay s p) = S (p_cleans (pay s p))
            | _ => p_cancels (pay s p) = p_cleans (pay s p)
            end.

Lemma cleanup_ok_init : cleanup_ok init.
Proof. intros p. reflexivity. Qed.

Lemma cleanup_ok_step s e s' : cleanup_ok s -> step s e = Some s' -> cleanup_ok s'.
Proof.
  intros I H p. pose proof (I p) as Ip. clear I. step_inv H; simp_state;
  try (upd_cases p); simp_state; try exact Ip; try reflexivity;
  try (rw_all; simp_state; (lia || congruence || reflexivity)).
  all: try (destruct (flush_st s r p) as [[Hq [_ Hf]]|Hf]; rewrite Hf; simp_state; rewrite ?Est;
            try exact Ip; try congruence; fail).
  all: try (destruct (r_phase (run_ s r)); exact Ip).
Qed.

(* threads never block the end: whatever thread payloads do, a closing runner whose coroutine
   payloads are settled can end *)
Lemma C02_threads_never_block tr s r c :
  run init tr = Some s -> r_phase (run_ s r) = Closing c -> settled s r = true ->
  exists o s', step s (AcceptEnd r o) = Some s'.
Proof.
  intros H Hp Hs. pose proof (Inv_run _ _ H) as I. destruct (inv_rok _ I r) as [R1 _].
  assert (Hex : exists o, accept_end_ok (run_ s r) o = true).
  { unfold accept_end_ok. rewrite Hp. destruct c.
    - destruct (R1 Hp) as [Hf|Hb].
      + destruct (r_failures (run_ s r)) as [|x l] eqn:Ef; [congruence|].
        exists (ARuntime [x]). cbn. destruct x; cbn; rewrite ?Nat.eqb_refl; reflexivity.
      + exists AOther. exact Hb.
    - exists AReturned. reflexivity.
    - exists AReturned. reflexivity. }
  destruct Hex as [o Ho]. exists o. eexists. cbn [step step_core]. rewrite Ho, Hs.
  rewrite orb_true_r. reflexivity.
Qed.

(* ====================================================================================== *)
(* 10. C03                                                                                *)
(* ====================================================================================== *)
Lemma C03_at_most_once tr s p : run init tr = Some s -> nstarts p tr <= 1.
Proof.
  intros H. pose proof (starts_count _ _ _ p H) as Hc. pose proof (inv_starts _ (Inv_run _ _ H) p) as Hs.
  cbn in Hc. rewrite Hs in Hc. destruct (started (p_st (pay s p))); lia.
Qed.

Lemma C03_started_iff tr s p :
  run init tr = Some s -> (nstarts p tr = 1 <-> started (p_st (pay s p)) = true).
Proof.
  intros H. pose proof (starts_count _ _ _ p H) as Hc. pose proof (inv_starts _ (Inv_run _ _ H) p) as Hs.
  cbn in Hc. rewrite Hs in Hc. destruct (started (p_st (pay s p))); split; intros; try lia; try discriminate; auto.
Qed.

Lemma C03_started_where_asked s p f tid loop other ok s' :
  step s (Start p f tid loop other ok) = Some s' ->
  f = p_flav (pay s p) /\ ok = true /\
  (coroutine f = true -> loop <> 0 /\ other = 0) /\
  (coroutine f = false -> background s p -> loop = 0).
Proof.
  intros H. destruct (inv_Start_pay _ _ _ _ _ _ _ _ H) as [_ [Hf [Ho _]]]. split; [exact Hf|]. split; [exact Ho|].
  split; intros Hc.
  - step_inv H; try congruence;
      repeat match goal with [X : _ && _ = true |- _] => apply andb_prop in X; destruct X end;
      repeat match goal with [X : negb _ = true |- _] => apply negb_true_iff in X end;
      repeat match goal with [X : (_ =? _) = true |- _] => apply Nat.eqb_eq in X | [X : (_ =? _) = false |- _] => apply Nat.eqb_neq in X end;
      auto.
  - intros Hb. unfold background in Hb. step_inv H; try congruence; simp_state;
      try (rewrite E2 in Hb; discriminate Hb);
      repeat match goal with [X : _ && _ = true |- _] => apply andb_prop in X; destruct X end;
      repeat match goal with [X : (_ =? _) = true |- _] => apply Nat.eqb_eq in X end; auto.
  all: try (cbn in Hb; discriminate Hb).
Qed.

(* queued payloads only exist for runners that have not been started *)
Definition queued_ok (s : rt) : Prop :=
  forall p, p_st (pay s p) = PQueued ->
    match r_phase (run_ s (p_owner (pay s p))) with
    | Idle | Rejected | Ended AExclusive => True
    | _ => False
    end.

Lemma queued_ok_init : queued_ok init.
Proof. intros p H. discriminate. Qed.

Lemma phase_step_from_idle s e s' r :
  step s e = Some s' ->
  match r_phase (run_ s r) with Idle | Rejected | Ended AExclusive => True | _ => False end ->
  match r_phase (run_ s' r) with Idle | Rejected | Ended AExclusive => True | _ => False end
  \/ (e = AcceptCall r /\ r_phase (run_ s r) = Idle /\ guard s = None).
Proof.
  intros H Hp. destruct (pay_only e) eqn:Ep.
  { destruct (frame_runners _ _ _ Ep H) as [Hr _]. rewrite Hr. auto. }
  destruct e; cbn in Ep; try discriminate Ep.
  - destruct (inv_AcceptCall _ _ _ H) as [Hi [[[Hg [_ [Hr _]]]|[g [_ [_ [Hr _]]]]] _]]; rewrite Hr;
      upd_keep r; auto.
    all: try (right; repeat split; auto; fail); try (left; cbn; exact I).
  - destruct (inv_AcceptEnd _ _ _ _ H) as [Ha [_ [_ Hr]]]. rewrite Hr. upd_keep r; auto. simp_state.
    unfold accept_end_ok in Ha. destruct (r_phase (run_ s r)); try contradiction; try discriminate Ha.
    all: try (destruct o; try discriminate Ha; auto; fail).
    all: try (destruct o0; contradiction || discriminate Ha).
  - destruct (inv_RunningSet _ _ _ H) as [_ [Hr [N1 N2]]]. rewrite Hr. upd_keep r; auto.
  - destruct (inv_ShutdownCall _ _ _ _ H) as [_ [_ Hr]]. rewrite Hr. upd_keep r; auto. simp_state.
    destruct (r_phase (run_ s r)); auto.
  - destruct (inv_ShutdownEnd _ _ _ _ H) as [_ [_ [_ Hr]]]. rewrite Hr. upd_keep r; auto.
  - destruct (inv_Sigint _ _ H) as [_ Hr]. destruct (guard s); rewrite Hr; auto. upd_keep r; auto. simp_state.
    destruct (r_phase (run_ s r)); auto.
  - destruct (inv_Start_run _ _ _ _ _ _ _ _ H) as [_ [_ Hs]]. left. destruct (Hs r) as [E _]. rewrite E. exact Hp.
  - destruct (inv_Finish _ _ _ _ H) as [_ [_ [_ [_ [_ [_ [_ [[Hr _]|[_ [Hl Hr]]]]]]]]]]; rewrite Hr; auto.
    upd_keep r; auto. destruct (r_phase (run_ s (p_owner (pay s p)))); cbn in Hl; try discriminate; try contradiction.
    all: try (destruct o0; contradiction || discriminate).
Qed.

Lemma queued_ok_step s e s' : queued_ok s -> step s e = Some s' -> queued_ok s'.
Proof.
  intros Q H p Hq.
  (* where does the queued state of p in s' come from? *)
  assert (Hold : (p_st (pay s p) = PQueued /\ p_owner (pay s' p) = p_owner (pay s p))
                 \/ (exists c r f, e = AdoptCall c r p f /\ p_owner (pay s' p) = r
                     /\ match r_phase (run_ s r) with Idle | Rejected => True | _ => False end)).
  { clear Q. step_inv H; simp_state; auto;
    try (upd_cases p; simp_state; auto; try discriminate Hq; fail).
    all: try (destruct (flush_st s r p) as [[Hx [_ Hf]]|Hf]; rewrite Hf in *; simp_state; auto; discriminate Hq).
    all: try (upd_keep p; simp_state; auto; right; exists c, r, f; repeat split; auto;
              destruct (r_phase (run_ s r)); auto; discriminate Hq). }
  destruct Hold as [[Ho Hw]|[c [r [f [-> [Hw Hp]]]]]].
  - rewrite Hw. destruct (phase_step_from_idle _ _ _ (p_owner (pay s p)) H (Q _ Ho)) as [X|[-> [Hi Hg]]]; [exact X|].
    (* the owner is being started: the flush turns p into a registered payload *)
    exfalso. destruct (inv_AcceptCall _ _ _ H) as [_ [[[_ [_ [_ Hp]]]|[g [Hg' _]]] _]]; [|congruence].
    rewrite Hp in Hq. unfold flush_queue in Hq. rewrite Ho, Nat.eqb_refl in Hq. cbn in Hq. discriminate.
  - rewrite Hw. destruct (frame_runners s (AdoptCall c r p f) s' eq_refl H) as [Hr _]. rewrite Hr.
    destruct (r_phase (run_ s r)); auto; contradiction.
Qed.

Lemma queued_ok_run tr s : run init tr = Some s -> queued_ok s.
Proof. intros H. eapply (run_inv queued_ok queued_ok_step); [apply queued_ok_init|exact H]. Qed.

Lemma owed_pay_nil s p : quiescent s = true -> In p (pids s) -> owed_pay s p = [].
Proof.
  unfold quiescent. destruct (owed s) eqn:E; [|discriminate]. intros _ Hin.
  unfold owed in E. apply app_eq_nil in E. destruct E as [E _].
  destruct (owed_pay s p) eqn:Ep; [reflexivity|]. exfalso.
  assert (Hx : In o (flat_map (owed_pay s) (pids s))).
  { apply in_flat_map. exists p. split; [exact Hin|]. rewrite Ep. left. reflexivity. }
  rewrite E in Hx. destruct Hx.
Qed.

(* how a not-yet-started record was created determines its origin *)
Definition origin_ok (s : rt) : Prop :=
  forall q, match p_st (pay s q) with
            | PUnit | PDropped => p_origin (pay s q) = OrService
            | PExecPending => is_exec (p_origin (pay s q)) = true
            | _ => True
            end.

Lemma origin_ok_step s e s' : origin_ok s -> step s e = Some s' -> origin_ok s'.
Proof.
  intros I H p. pose proof (I p) as Ip. clear I. step_inv H; simp_state;
  try (upd_cases p); simp_state; try exact Ip; try exact I; try reflexivity;
  try (rw_all; simp_state; (congruence || reflexivity || exact I)).
  all: try (destruct (flush_st s r p) as [[Hq [_ Hf]]|Hf]; rewrite Hf; simp_state; rewrite ?Est;
            try exact Ip; try exact I; try congruence; fail).
  all: try (destruct (r_phase (run_ s r)); exact I).
Qed.

Lemma origin_ok_run tr s : run init tr = Some s -> origin_ok s.
Proof. intros H. eapply (run_inv origin_ok origin_ok_step); [|exact H]. intros q. exact I. Qed.

(* exactly once at quiescence: every payload adopted into a runner that is Up has been started
   exactly once, and its adopt call has returned *)
Lemma C03_exactly_once_at_quiescence tr s r p :
  run init tr = Some s -> quiescent s = true -> r_phase (run_ s r) = Up ->
  p_st (pay s p) <> PUnknown -> p_origin (pay s p) = OrAdopt -> p_owner (pay s p) = r ->
  nstarts p tr = 1 /\ p_adopting (pay s p) = false.
Proof.
  intros H Hq Hu Hk Hor How. pose proof (Inv_run _ _ H) as I.
  assert (Hin : In p (pids s)).
  { destruct (in_dec Nat.eq_dec p (pids s)) as [i|n]; [exact i|].
    rewrite (proj2 (inv_ids _ I) _ n) in Hk. cbn in Hk. congruence. }
  pose proof (owed_pay_nil _ _ Hq Hin) as Ho. unfold owed_pay in Ho. rewrite How, Hu in Ho. cbn in Ho.
  apply app_eq_nil in Ho. destruct Ho as [Ho1 Ho2]. split.
  - apply (C03_started_iff _ _ _ H).
    pose proof (origin_ok_run _ _ H p) as Og. pose proof (queued_ok_run _ _ H p) as Qg.
    destruct (p_st (pay s p)) eqn:Est; cbn; try reflexivity; try congruence; try discriminate Ho2.
    all: try (specialize (Qg eq_refl); rewrite How, Hu in Qg; destruct Qg; fail).
    all: try (rewrite Og in Hor; discriminate Hor).
    all: try (rewrite Hor in Og; discriminate Og).
  - destruct (p_adopting (pay s p)); [discriminate Ho1|reflexivity].
Qed.

(* services: at quiescence of a running, accepting runner no live service unit is left unstarted *)
Lemma C03_services_started tr s r sv :
  run init tr = Some s -> quiescent s = true -> guard s = Some r -> r_phase (run_ s r) = Up ->
  r_running (run_ s r) = true -> p_st (pay s sv) <> PUnit.
Proof.
  intros H Hq Hg Hu Hr Hst. pose proof (Inv_run _ _ H) as I.
  assert (Hin : In sv (pids s)).
  { destruct (in_dec Nat.eq_dec sv (pids s)) as [i|n]; [exact i|].
    rewrite (proj2 (inv_ids _ I) _ n) in Hst. discriminate. }
  pose proof (owed_pay_nil _ _ Hq Hin) as Ho. unfold owed_pay in Ho. rewrite Hst, Hg, Hu, Hr in Ho.
  apply app_eq_nil in Ho. destruct Ho as [_ Ho]. discriminate Ho.
Qed.

Lemma C03_adopt_never_raises s p s' :
  step s (AdoptEnd p false) = Some s' -> phase_ended (r_phase (run_ s (p_owner (pay s p)))) = true.
Proof. intros H. step_inv H. apply andb_prop in E. destruct E as [_ E]. exact E. Qed.

(* ====================================================================================== *)
(* 11. C10                                                                                *)
(* ====================================================================================== *)
Lemma C10_outcome s p o same s' :
  step s (ExecEnd p o same) = Some s' ->
  p_st (pay s p) = PDone o /\ is_exec (p_origin (pay s p)) = true /\ same = true.
Proof.
  intros H. step_inv H.
  repeat match goal with [X : _ && _ = true |- _] => apply andb_prop in X; destruct X end.
  assert (Ho : o = o0).
  { destruct o, o0; cbn in *; try discriminate; try reflexivity;
      match goal with [X : (_ =? _) = true |- _] => apply Nat.eqb_eq in X; subst; reflexivity end. }
  subst o0. split; [reflexivity|]. split; assumption.
Qed.

(* frame: calling execute and receiving its result touch no runner record, not the guard, and no
   other payload *)
Lemma C10_frame_call s c tid r p f s' :
  step s (ExecCall c tid r p f) = Some s' ->
  run_ s' = run_ s /\ guard s' = guard s /\ forall q, q <> p -> pay s' q = pay s q.
Proof.
  intros H. destruct (frame_runners s (ExecCall c tid r p f) s' eq_refl H) as [A B]. split; [exact A|]. split; [exact B|].
  intros q Hq. step_inv H; simp_state. apply upd_other. exact Hq.
Qed.

Lemma C10_frame_end s p o same s' :
  step s (ExecEnd p o same) = Some s' ->
  run_ s' = run_ s /\ guard s' = guard s /\ forall q, q <> p -> pay s' q = pay s q.
Proof.
  intros H. destruct (frame_runners s (ExecEnd p o same) s' eq_refl H) as [A B]. split; [exact A|]. split; [exact B|].
  intros q Hq. step_inv H; simp_state. apply upd_other. exact Hq.
Qed.

(* whatever an executed payload returns or raises is not a background failure *)
Lemma C10_frame_finish s p o s' :
  step s (Finish p o) = Some s' -> is_exec (p_origin (pay s p)) = true ->
  run_ s' = run_ s /\ guard s' = guard s /\ forall q, q <> p -> pay s' q = pay s q.
Proof.
  intros H Hx. destruct (inv_Finish _ _ _ _ H) as [_ [Hg [Hp [_ [_ [_ [_ [[Hr _]|[Hn _]]]]]]]]].
  - split; [exact Hr|]. split; [exact Hg|]. intros q Hq. rewrite Hp. apply upd_other. exact Hq.
  - congruence.
Qed.

(* ====================================================================================== *)
(* 12. C12                                                                                *)
(* ====================================================================================== *)
Lemma C12_exclusive tr s :
  run init tr = Some s ->
  (forall a b, live s a -> live s b -> a = b) /\ (forall r, guard s = Some r <-> live s r).
Proof.
  intros H. pose proof (inv_guard _ (Inv_run _ _ H)) as G. split.
  - intros a b. apply live_unique. exact G.
  - intros r. split; [apply (proj1 G)|apply (proj2 G)].
Qed.

Lemma C12_second_accept_undisturbed s r1 r2 s' :
  guard s = Some r1 -> step s (AcceptCall r2) = Some s' ->
  r_phase (run_ s' r2) = Rejected /\ guard s' = Some r1 /\ pay s' = pay s
  /\ (forall r, r <> r2 -> run_ s' r = run_ s r)
  /\ forall o s'', step s' (AcceptEnd r2 o) = Some s'' -> o = AExclusive.
Proof.
  intros Hg H. destruct (inv_AcceptCall _ _ _ H) as [_ [[[Hn _]|[g [Hs [Hg' [Hr Hp]]]]] _]]; [congruence|].
  assert (Hph : r_phase (run_ s' r2) = Rejected) by (rewrite Hr, upd_same; reflexivity).
  split; [exact Hph|]. split; [congruence|]. split; [exact Hp|]. split.
  - intros r Hne. rewrite Hr. apply upd_other. exact Hne.
  - intros o s'' He. destruct (inv_AcceptEnd _ _ _ _ He) as [Ha _]. unfold accept_end_ok in Ha.
    rewrite Hph in Ha. destruct o; try discriminate Ha. reflexivity.
Qed.

Lemma C12_restart tr s r o s' r' :
  run init tr = Some s -> live s r -> step s (AcceptEnd r o) = Some s' ->
  guard s' = None /\
  (r_phase (run_ s' r') = Idle -> exists s'', step s' (AcceptCall r') = Some s'' /\ r_phase (run_ s'' r') = Up).
Proof.
  intros H Hl He. pose proof (inv_guard _ (Inv_run _ _ H)) as [_ G2].
  destruct (inv_AcceptEnd _ _ _ _ He) as [_ [_ [Hg _]]]. rewrite (G2 _ Hl) in Hg. unfold release in Hg.
  rewrite Nat.eqb_refl in Hg. split; [exact Hg|].
  intros Hi. cbn [step step_core]. rewrite Hi, Hg. eexists. split; [reflexivity|].
  simp_state. rewrite upd_same. reflexivity.
Qed.

Lemma owed_shutdown s r :
  In r (rids s) -> r_shut_ret (run_ s r) < r_shut_req (run_ s r) -> quiescent s = false.
Proof.
  intros Hin Hc. unfold quiescent. destruct (owed s) eqn:E; [|reflexivity]. exfalso.
  unfold owed in E. apply app_eq_nil in E. destruct E as [_ E].
  assert (Hx : In (OShutdownEnd r) (flat_map (owed_run s) (rids s))).
  { apply in_flat_map. exists r. split; [exact Hin|]. unfold owed_run. apply in_or_app. right.
    apply Nat.ltb_lt in Hc. rewrite Hc. left. reflexivity. }
  rewrite E in Hx. destruct Hx.
Qed.

(* a runner with a shutdown request has reported running and is no longer Up *)
Definition Sok (i : rinfo) : Prop :=
  (r_running i = true -> r_phase i <> Idle /\ r_phase i <> Rejected) /\
  (0 < r_shut_req i -> r_running i = true /\ r_phase i <> Up).

Lemma Sok_same i j : same_but_home i j -> Sok j -> Sok i.
Proof.
  unfold same_but_home, Sok. intros [H1 [H2 [H3 _]]] R. rewrite H1, H2, H3. exact R.
Qed.

Definition all_Sok (s : rt) : Prop := forall r, Sok (run_ s r).

Lemma all_Sok_step s e s' : all_Sok s -> step s e = Some s' -> all_Sok s'.
Proof.
  intros R H. destruct (pay_only e) eqn:Ep.
  { destruct (frame_runners _ _ _ Ep H) as [Hr _]. intros r. rewrite Hr. apply R. }
  destruct e; cbn in Ep; try discriminate Ep; intros r'.
  - destruct (inv_AcceptCall _ _ _ H) as [Hi [[[_ [_ [Hr _]]]|[g [_ [_ [Hr _]]]]] _]]; rewrite Hr;
      upd_keep r'; auto; destruct (R r') as [S1 S2]; unfold Sok; simp_state; rewrite Hi in *;
      (split; [intros X; destruct (S1 X); congruence|intros X; destruct (S2 X) as [Y _]; destruct (S1 Y); congruence]).
  - destruct (inv_AcceptEnd _ _ _ _ H) as [Ha [_ [_ Hr]]]. rewrite Hr. upd_keep r'; auto.
    destruct (R r') as [S1 S2]. unfold Sok; simp_state. split; [intros; split; discriminate|].
    intros X. destruct (S2 X). split; [assumption|discriminate].
  - destruct (inv_RunningSet _ _ _ H) as [_ [Hr [N1 N2]]]. rewrite Hr. upd_keep r'; auto.
    destruct (R r') as [S1 S2]. unfold Sok; simp_state. split; [auto|]. intros X. destruct (S2 X). auto.
  - destruct (inv_ShutdownCall _ _ _ _ H) as [_ [Hrun Hr]]. rewrite Hr. upd_keep r'; auto.
    destruct (R r') as [S1 S2]. destruct (S1 Hrun) as [A B]. unfold Sok; simp_state.
    destruct (r_phase (run_ s r')); try congruence; (split; [intros; split; discriminate|intros; split; [exact Hrun|discriminate]]).
  - destruct (inv_ShutdownEnd _ _ _ _ H) as [_ [_ [_ Hr]]]. rewrite Hr. upd_keep r'; auto.
    destruct (R r') as [S1 S2]. unfold Sok; simp_state. auto.
  - destruct (inv_Sigint _ _ H) as [_ Hr]. destruct (guard s); rewrite Hr; auto. upd_keep r'; auto.
    destruct (R r') as [S1 S2]. unfold Sok; simp_state.
    destruct (r_phase (run_ s r')) eqn:Eq; auto.
    split; [intros; split; discriminate|]. intros X. destruct (S2 X). split; [assumption|discriminate].
  - destruct (inv_Start_run _ _ _ _ _ _ _ _ H) as [_ [_ Hs]]. eapply Sok_same; [apply Hs|apply R].
  - destruct (inv_Finish _ _ _ _ H) as [_ [_ [_ [_ [_ [_ [_ [[Hr _]|[_ [Hl Hr]]]]]]]]]]; rewrite Hr; auto.
    upd_keep r'; auto. destruct (R (p_owner (pay s p))) as [S1 S2]. unfold Sok, finish_rec.
    destruct (r_phase (run_ s (p_owner (pay s p)))) eqn:Eq; cbn in Hl; try discriminate Hl;
      destruct o; try destruct (p_flav (pay s p)); simp_state; rewrite ?Eq; cbn [phase_up];
      try match goal with |- context[if ?c then _ else _] => destruct c end; simp_state; rewrite ?Eq; cbn [phase_up];
      (split; [intros X; try (destruct (S1 X)); split; (discriminate || congruence)|
               intros X; destruct (S2 X); split; [assumption|(discriminate || congruence)]]).
Qed.

Lemma all_Sok_run tr s : run init tr = Some s -> all_Sok s.
Proof.
  intros H. eapply (run_inv all_Sok all_Sok_step); [|exact H].
  intros r. unfold Sok. cbn. split; [discriminate|lia].
Qed.

(* shutdown completes: once shutdown() has been called on a runner (which must have reported running)
   and nothing is owed any more, the accept call has ended and every shutdown call has returned *)
Lemma C12_shutdown_completes tr s r :
  run init tr = Some s -> quiescent s = true -> 0 < r_shut_req (run_ s r) ->
  r_shut_ret (run_ s r) >= r_shut_req (run_ s r) /\ exists o, r_phase (run_ s r) = Ended o.
Proof.
  intros H Hq Hs. pose proof (Inv_run _ _ H) as I.
  assert (Hin : In r (rids s)).
  { destruct (in_dec Nat.eq_dec r (rids s)) as [i|n]; [exact i|].
    rewrite (proj1 (inv_ids _ I) _ n) in Hs. cbn in Hs. lia. }
  split.
  - destruct (le_lt_dec (r_shut_req (run_ s r)) (r_shut_ret (run_ s r))) as [L|L]; [exact L|].
    rewrite (owed_shutdown _ _ Hin L) in Hq. discriminate.
  - destruct (all_Sok_run _ _ H r) as [S1 S2]. destruct (S2 Hs) as [Hrun Hup]. destruct (S1 Hrun) as [A B].
    destruct (r_phase (run_ s r)) eqn:Ep; try congruence; eauto.
    exfalso. rewrite (owed_closing _ _ Hin) in Hq; [discriminate|]. left. rewrite Ep. reflexivity.
Qed.

(* ====================================================================================== *)
(* 13. C11: one home (thread, loop) per coroutine flavour and runner; threads elsewhere    *)
(* ====================================================================================== *)
Definition home_ok (s : rt) : Prop :=
  forall p, started (p_st (pay s p)) = true -> coroutine (p_flav (pay s p)) = true ->
    home (run_ s (p_owner (pay s p))) (p_flav (pay s p)) = Some (p_tid (pay s p), p_loop (pay s p)).

(* homes are never changed once set *)
Lemma home_perm s e s' r f h :
  step s e = Some s' -> home (run_ s r) f = Some h -> home (run_ s' r) f = Some h.
Proof.
  intros H Hh. destruct (pay_only e) eqn:Ep.
  { destruct (frame_runners _ _ _ Ep H) as [Hr _]. rewrite Hr. exact Hh. }
  destruct e; cbn in Ep; try discriminate Ep.
  - destruct (inv_AcceptCall _ _ _ H) as [Hi [[[_ [_ [Hr _]]]|[g [_ [_ [Hr _]]]]] _]]; rewrite Hr;
      upd_keep r; auto; destruct f; exact Hh.
  - destruct (inv_AcceptEnd _ _ _ _ H) as [Ha [_ [_ Hr]]]. rewrite Hr. upd_keep r; auto; destruct f; exact Hh.
  - destruct (inv_RunningSet _ _ _ H) as [_ [Hr _]]. rewrite Hr. upd_keep r; auto; destruct f; exact Hh.
  - destruct (inv_ShutdownCall _ _ _ _ H) as [_ [_ Hr]]. rewrite Hr. upd_keep r; auto; destruct f; exact Hh.
  - destruct (inv_ShutdownEnd _ _ _ _ H) as [_ [_ [_ Hr]]]. rewrite Hr. upd_keep r; auto; destruct f; exact Hh.
  - destruct (inv_Sigint _ _ H) as [_ Hr]. destruct (guard s); rewrite Hr; auto. upd_keep r; auto; destruct f; exact Hh.
  - step_inv H; simp_state; auto.
    all: try (upd_keep r; auto).
    all: try (destruct f, f0; cbn in *; congruence).
  - destruct (inv_Finish _ _ _ _ H) as [_ [_ [_ [_ [_ [_ [_ [[Hr _]|[_ [Hl Hr]]]]]]]]]]; rewrite Hr; auto.
    upd_keep r; auto; unfold finish_rec; destruct o; try destruct (p_flav (pay s p));
      try match goal with |- context[if ?c then _ else _] => destruct c end; destruct f; exact Hh.
Qed.

Lemma started_only_by_start s e s' p :
  step s e = Some s' -> started (p_st (pay s p)) = false -> started (p_st (pay s' p)) = true ->
  exists f tid loop other ok, e = Start p f tid loop other ok.
Proof.
  intros H Eold Hs. step_inv H; simp_state; try congruence.
  all: try (upd_keep p; simp_state; try congruence; try (rw_all; cbn in *; congruence); eauto 10; fail).
  all: try (destruct (flush_st s r p) as [[Hq [_ Hf]]|Hf]; rewrite Hf in *; simp_state; try congruence;
            cbn in Hs; discriminate Hs).
  all: try (upd_keep p; simp_state; try congruence; destruct (r_phase (run_ s r)); cbn in Hs; discriminate Hs).
Qed.

Lemma home_ok_step s e s' : home_ok s -> step s e = Some s' -> home_ok s'.
Proof.
  intros I H p Hs Hc.
  destruct (started (p_st (pay s p))) eqn:Eold.
  - (* already started: identity data and homes are permanent *)
    destruct (started_perm _ _ _ _ H Eold) as [_ [A [B [_ [C D]]]]]. rewrite A, B, C, D in *.
    eapply home_perm; [exact H|]. apply I; auto.
  - (* started by this very event: it must be a Start *)
    destruct (started_only_by_start _ _ _ _ H Eold Hs) as [f [tid [loop [other [ok ->]]]]].
    step_inv H; simp_state; rewrite ?upd_same in *; simp_state;
      repeat match goal with [X : _ && _ = true |- _] => apply andb_prop in X; destruct X end;
      repeat match goal with [X : (_ =? _) = true |- _] => apply Nat.eqb_eq in X; subst end;
      try congruence; auto.
    all: try (destruct f; cbn in *; try discriminate; rewrite ?upd_same; reflexivity).
Qed.

Lemma home_ok_run tr s : run init tr = Some s -> home_ok s.
Proof. intros H. eapply (run_inv home_ok home_ok_step); [|exact H]. intros p Hs. discriminate Hs. Qed.

Lemma C11_single_home tr s p q :
  run init tr = Some s ->
  started (p_st (pay s p)) = true -> started (p_st (pay s q)) = true ->
  coroutine (p_flav (pay s p)) = true -> p_flav (pay s q) = p_flav (pay s p) ->
  p_owner (pay s q) = p_owner (pay s p) ->
  p_tid (pay s q) = p_tid (pay s p) /\ p_loop (pay s q) = p_loop (pay s p).
Proof.
  intros H Sp Sq Cp Ef Eo. pose proof (home_ok_run _ _ H) as Hh.
  pose proof (Hh p Sp Cp) as Hp. assert (Cq : coroutine (p_flav (pay s q)) = true) by (rewrite Ef; exact Cp).
  pose proof (Hh q Sq Cq) as Hq. rewrite Ef, Eo, Hp in Hq. injection Hq as -> ->. auto.
Qed.

(* sections of coroutine payloads of one flavour and runner never overlap *)
Definition inside_ok (s : rt) : Prop :=
  NoDup (inside s) /\
  (forall p, In p (inside s) -> p_st (pay s p) = PRun) /\
  (forall p q, In p (inside s) -> In q (inside s) -> coroutine (p_flav (pay s p)) = true ->
               p_owner (pay s q) = p_owner (pay s p) -> p_flav (pay s q) = p_flav (pay s p) -> p = q).

Lemma mem_In x l : mem x l = true <-> In x l.
Proof.
  unfold mem. rewrite existsb_exists. split.
  - intros [y [Hy E]]. apply Nat.eqb_eq in E. subst. exact Hy.
  - intros H. exists x. split; [exact H|apply Nat.eqb_refl].
Qed.

Lemma remove1_In x y l : In x (remove1 y l) -> In x l.
Proof.
  induction l as [|z l IH]; cbn; [auto|]. destruct (z =? y); [auto|]. intros [->|H]; auto.
Qed.

Lemma remove1_NoDup y l : NoDup l -> NoDup (remove1 y l) /\ ~ In y (remove1 y l).
Proof.
  induction l as [|z l IH]; cbn; intros N; [split; [constructor|auto]|].
  inversion N as [|? ? Hn N']; subst. destruct (z =? y) eqn:E.
  - apply Nat.eqb_eq in E. subst. auto.
  - apply Nat.eqb_neq in E. destruct (IH N') as [A B]. split.
    + constructor; [|exact A]. intros Hx. apply Hn. eapply remove1_In. exact Hx.
    + intros [X|X]; [congruence|auto].
Qed.

Lemma busy_false s r f : busy s r f = false ->
  forall q, In q (inside s) -> p_owner (pay s q) = r -> p_flav (pay s q) = f -> False.
Proof.
  unfold busy. intros Hb q Hin Ho Hf.
  assert (existsb (fun q0 => (p_owner (pay s q0) =? r) && flav_eqb (p_flav (pay s q0)) f) (inside s) = true).
  { apply existsb_exists. exists q. split; [exact Hin|]. rewrite Ho, Hf, Nat.eqb_refl. destruct f; reflexivity. }
  congruence.
Qed.

Lemma run_perm s e s' q :
  step s e = Some s' -> p_st (pay s q) = PRun ->
  p_st (pay s' q) = PRun \/ (exists o, e = Finish q o) \/ e = Cancelled q.
Proof.
  intros H Hs. step_inv H; simp_state; auto.
  all: try (upd_keep q; simp_state; auto; try congruence; eauto; fail).
  all: try (destruct (flush_st s r q) as [[Hq [_ Hf]]|Hf]; rewrite Hf in *; simp_state; auto; congruence).
Qed.

Lemma inside_step s e s' :
  step s e = Some s' ->
  inside s' = inside s
  \/ (exists p, e = Enter p /\ inside s' = p :: inside s /\ ~ In p (inside s) /\ p_st (pay s p) = PRun
                /\ pay s' = pay s
                /\ (coroutine (p_flav (pay s p)) = true -> busy s (p_owner (pay s p)) (p_flav (pay s p)) = false))
  \/ (exists p, e = Exit p /\ inside s' = remove1 p (inside s) /\ pay s' = pay s).
Proof.
  intros H. step_inv H; simp_state; auto.
  - right. left. exists p. repeat split; auto.
    + intros Hin. apply mem_In in Hin. congruence.
    + intros Hc. rewrite Hc in E1. cbn in E1. apply orb_false_elim in E1. tauto.
  - right. right. exists p. auto.
Qed.

Lemma inside_ok_step s e s' : inside_ok s -> step s e = Some s' -> inside_ok s'.
Proof.
  intros [N [R U]] H.
  assert (Hkeep : forall q, In q (inside s) -> (forall o, e <> Finish q o) /\ e <> Cancelled q).
  { intros q Hin. split.
    - intros o ->. destruct (inv_Finish _ _ _ _ H) as [_ [_ [_ [Hm _]]]]. apply mem_In in Hin. congruence.
    - intros ->. step_inv H. apply andb_prop in E0. destruct E0 as [_ E0]. apply negb_true_iff in E0.
      apply mem_In in Hin. congruence. }
  assert (Hrun : forall q, In q (inside s) -> p_st (pay s' q) = PRun
                 /\ p_owner (pay s' q) = p_owner (pay s q) /\ p_flav (pay s' q) = p_flav (pay s q)).
  { intros q Hin. pose proof (R q Hin) as Hq. destruct (Hkeep q Hin) as [K1 K2].
    destruct (run_perm _ _ _ _ H Hq) as [X|[[o X]|X]]; [|exfalso; eapply K1; eauto|exfalso; auto].
    assert (St : started (p_st (pay s q)) = true) by (rewrite Hq; reflexivity).
    destruct (started_perm _ _ _ _ H St) as [_ [A [B _]]]. auto. }
  destruct (inside_step _ _ _ H) as [Ei|[[p [-> [Ei [Hn [Hp [Hpay Hbz]]]]]]|[p [-> [Ei Hpay]]]]]; unfold inside_ok; rewrite Ei.
  - split; [exact N|]. split.
    + intros q Hin. apply Hrun. exact Hin.
    + intros a b Ha Hb Hc Ho Hf. destruct (Hrun a Ha) as [_ [A1 A2]]. destruct (Hrun b Hb) as [_ [B1 B2]].
      rewrite A1, A2, B1, B2 in *. apply U; auto.
  - split; [constructor; assumption|]. split.
    + intros q [<-|Hin]; [rewrite Hpay; exact Hp|]. apply Hrun. exact Hin.
    + rewrite Hpay. intros a b [<-|Ha] [<-|Hb] Hc Ho Hf; auto.
      * exfalso. eapply busy_false; [apply Hbz; exact Hc|exact Hb|exact Ho|exact Hf].
      * exfalso. assert (Hcb : coroutine (p_flav (pay s p)) = true) by (rewrite Hf; exact Hc).
        eapply (busy_false s _ _ (Hbz Hcb) a Ha); congruence.
  - destruct (remove1_NoDup p _ N) as [N' _]. split; [exact N'|]. rewrite Hpay. split.
    + intros q Hin. apply R. eapply remove1_In. exact Hin.
    + intros a b Ha Hb. apply U; eapply remove1_In; eassumption.
Qed.

Lemma inside_ok_run tr s : run init tr = Some s -> inside_ok s.
Proof.
  intros H. eapply (run_inv inside_ok inside_ok_step); [|exact H].
  split; [constructor|]. split; [intros p []|intros p q []].
Qed.

(* at no instant are two coroutine payloads of the same flavour (and runner) inside a section *)
Lemma C11_no_overlap tr s p q :
  run init tr = Some s -> In p (inside s) -> In q (inside s) ->
  coroutine (p_flav (pay s p)) = true -> p_owner (pay s q) = p_owner (pay s p) ->
  p_flav (pay s q) = p_flav (pay s p) -> p = q.
Proof. intros H. apply (proj2 (proj2 (inside_ok_run _ _ H))). Qed.

(* thread payloads (not executed ones) run on threads of their own, outside their runner's two homes *)
Definition thr_ok (s : rt) : Prop :=
  forall p, started (p_st (pay s p)) = true -> p_flav (pay s p) = Thr -> is_exec (p_origin (pay s p)) = false ->
    In (p_tid (pay s p)) (thr_tids s)
    /\ home_tid (r_home_aio (run_ s (p_owner (pay s p)))) (p_tid (pay s p)) = false
    /\ home_tid (r_home_trio (run_ s (p_owner (pay s p)))) (p_tid (pay s p)) = false.

Lemma C11_threads_elsewhere s p tid loop other ok s' :
  step s (Start p Thr tid loop other ok) = Some s' -> background s p ->
  loop = 0 /\ ~ In tid (thr_tids s) /\ In tid (thr_tids s')
  /\ forall r, (p_st (pay s p) = PUnit -> guard s = Some r) -> (p_st (pay s p) <> PUnit -> r = p_owner (pay s p)) ->
       home_tid (r_home_aio (run_ s r)) tid = false /\ home_tid (r_home_trio (run_ s r)) tid = false.
Proof.
  intros H Hb. unfold background in Hb. step_inv H; simp_state; try discriminate;
    try (rewrite E2 in Hb; cbn in Hb; discriminate Hb);
    repeat match goal with [X : _ && _ = true |- _] => apply andb_prop in X; destruct X end;
    repeat match goal with [X : negb _ = true |- _] => apply negb_true_iff in X end;
    repeat match goal with [X : (_ =? _) = true |- _] => apply Nat.eqb_eq in X; subst end.
  all: split; [reflexivity|]; split; [intros Hin; apply mem_In in Hin; congruence|]; split; [left; reflexivity|].
  all: intros r Hu Hn; try (specialize (Hu eq_refl); injection Hu as <-); try (rewrite (Hn ltac:(congruence))); auto.
Qed.

(* a coroutine home is only ever established on a thread no thread payload runs on *)
Lemma C11_home_not_a_payload_thread s p f tid loop other ok s' :
  step s (Start p f tid loop other ok) = Some s' -> coroutine f = true ->
  ~ In tid (thr_tids s) /\ loop <> 0 /\ other = 0.
Proof.
  intros H Hc. step_inv H; simp_state; try congruence;
    repeat match goal with [X : _ && _ = true |- _] => apply andb_prop in X; destruct X end;
    repeat match goal with [X : negb _ = true |- _] => apply negb_true_iff in X end;
    repeat match goal with [X : (_ =? _) = true |- _] => apply Nat.eqb_eq in X; subst
                         | [X : (_ =? _) = false |- _] => apply Nat.eqb_neq in X end.
  all: split; [intros Hin; apply mem_In in Hin; congruence|auto].
Qed.

(* ====================================================================================== *)
(* 14. C02 at trace level: cancellation, then cleanup, then the end of the run call         *)
(* ====================================================================================== *)
Lemma canc_only_by_cancelled s e s' p :
  step s e = Some s' -> p_st (pay s' p) = PCanc -> p_st (pay s p) = PCanc \/ e = Cancelled p.
Proof.
  intros H Hs. step_inv H; simp_state; auto.
  all: try (upd_keep p; simp_state; auto; try congruence; try discriminate; fail).
  all: try (destruct (flush_st s r p) as [[Hq [_ Hf]]|Hf]; rewrite Hf in *; simp_state; auto; discriminate).
  all: try (upd_keep p; simp_state; auto; destruct (r_phase (run_ s r)); discriminate).
Qed.

Lemma clean_only_by_cleanupdone s e s' p :
  step s e = Some s' -> p_st (pay s' p) = PClean ->
  p_st (pay s p) = PClean \/ (e = CleanupDone p /\ p_st (pay s p) = PCanc).
Proof.
  intros H Hs. step_inv H; simp_state; auto.
  all: try (upd_keep p; simp_state; auto; try congruence; try discriminate; fail).
  all: try (destruct (flush_st s r p) as [[Hq [_ Hf]]|Hf]; rewrite Hf in *; simp_state; auto; discriminate).
  all: try (upd_keep p; simp_state; auto; destruct (r_phase (run_ s r)); discriminate).
Qed.

Lemma done_only_by_finish s e s' p o :
  step s e = Some s' -> p_st (pay s' p) = PDone o -> p_st (pay s p) = PDone o \/ e = Finish p o.
Proof.
  intros H Hs. step_inv H; simp_state; auto.
  all: try (upd_keep p; simp_state; auto; try congruence; try discriminate; fail).
  all: try (destruct (flush_st s r p) as [[Hq [_ Hf]]|Hf]; rewrite Hf in *; simp_state; auto; discriminate).
  all: try (upd_keep p; simp_state; auto; destruct (r_phase (run_ s r)); discriminate).
  all: try (upd_keep p; simp_state; auto; injection Hs as <-; auto).
Qed.

(* what the history of a trace says about a payload's current state *)
Definition hist_ok (tr : list event) (s : rt) : Prop :=
  forall p,
    (p_st (pay s p) = PCanc -> In (Cancelled p) tr) /\
    (p_st (pay s p) = PClean -> exists a b, tr = a ++ Cancelled p :: b /\ In (CleanupDone p) b) /\
    (forall o, p_st (pay s p) = PDone o -> In (Finish p o) tr).

Lemma run_snoc s tr e : run s (tr ++ [e]) = match run s tr with Some s1 => step s1 e | None => None end.
Proof.
  rewrite run_app. destruct (run s tr) as [s1|]; [|reflexivity]. cbn [run].
  destruct (step s1 e); reflexivity.
Qed.

Lemma hist_ok_run tr : forall s, run init tr = Some s -> hist_ok tr s.
Proof.
  induction tr as [|e tr IH] using rev_ind; intros s H.
  - cbn in H. injection H as <-. intros p. cbn. repeat split; intros; discriminate.
  - rewrite run_snoc in H. destruct (run init tr) as [s1|] eqn:E1; [|discriminate].
    specialize (IH s1 eq_refl). intros p. destruct (IH p) as [I1 [I2 I3]]. split; [|split].
    + intros Hc. destruct (canc_only_by_cancelled _ _ _ _ H Hc) as [X| ->].
      * apply in_or_app. left. auto.
      * apply in_or_app. right. left. reflexivity.
    + intros Hc. destruct (clean_only_by_cleanupdone _ _ _ _ H Hc) as [X|[-> X]].
      * destruct (I2 X) as [a [b [Ha Hb]]]. exists a, (b ++ [e]). split.
        -- rewrite Ha. rewrite <- app_assoc. reflexivity.
        -- apply in_or_app. left. exact Hb.
      * pose proof (I1 X) as Hin. apply in_split in Hin. destruct Hin as [a [b Hab]].
        exists a, (b ++ [CleanupDone p]). split.
        -- rewrite Hab. rewrite <- app_assoc. reflexivity.
        -- apply in_or_app. right. left. reflexivity.
    + intros o Hd. destruct (done_only_by_finish _ _ _ _ _ H Hd) as [X| ->].
      * apply in_or_app. left. auto.
      * apply in_or_app. right. left. reflexivity.
Qed.

Lemma nstarts_In tr p f tid loop other ok : In (Start p f tid loop other ok) tr -> 1 <= nstarts p tr.
Proof.
  induction tr as [|e tr IH]; intros H; [destruct H|]. cbn [nstarts]. destruct H as [->|H].
  - cbn. rewrite Nat.eqb_refl. lia.
  - specialize (IH H). lia.
Qed.

(* THE trace-level statement of C02: when the blocking run call of r ends, every coroutine payload of r
   that had been started has either finished by itself, or was cancelled and then completed its cleanup,
   both strictly before the end *)
Lemma C02_cancel_cleanup_before_end tr1 r o s p f tid loop other ok :
  run init (tr1 ++ [AcceptEnd r o]) = Some s -> o <> AExclusive ->
  In (Start p f tid loop other ok) tr1 ->
  forall s1, run init tr1 = Some s1 ->
  r_loopkill (run_ s1 r) = false ->
  p_owner (pay s1 p) = r -> coroutine (p_flav (pay s1 p)) = true -> background s1 p ->
  (exists o', In (Finish p o') tr1) \/
  (exists a b, tr1 = a ++ Cancelled p :: b /\ In (CleanupDone p) b).
Proof.
  intros H Ho Hin s1 H1 Hk Hown Hc Hb.
  rewrite run_snoc, H1 in H.
  destruct (C02_settled_at_end _ _ _ _ _ H1 H Ho Hk p Hown Hc Hb) as [N1 N2].
  pose proof (nstarts_In _ _ _ _ _ _ _ Hin) as Hn. pose proof (C03_at_most_once _ _ p H1) as Hm.
  assert (Hst : started (p_st (pay s1 p)) = true) by (apply (C03_started_iff _ _ _ H1); lia).
  destruct (hist_ok_run _ _ H1 p) as [_ [I2 I3]].
  destruct (p_st (pay s1 p)) eqn:Est; cbn in Hst; try discriminate; try congruence.
  - right. apply I2. reflexivity.
  - left. exists o0. apply I3. reflexivity.
Qed.


(* ====================================================================================== *)
(* 15. C11: thread payloads stay outside the homes of their runner (invariant)              *)
(* ====================================================================================== *)
Lemma thr_mono s e s' t : step s e = Some s' -> In t (thr_tids s) -> In t (thr_tids s').
Proof.
  intros H Hin. step_inv H; simp_state; auto. all: right; exact Hin.
Qed.

(* a home thread only appears through the Start of a coroutine payload on that thread *)
Lemma home_tid_step s e s' r t :
  step s e = Some s' ->
  (home_tid (r_home_aio (run_ s' r)) t = true \/ home_tid (r_home_trio (run_ s' r)) t = true) ->
  (home_tid (r_home_aio (run_ s r)) t = true \/ home_tid (r_home_trio (run_ s r)) t = true)
  \/ (exists p f loop other ok, e = Start p f t loop other ok /\ coroutine f = true).
Proof.
  intros H Ht. destruct (pay_only e) eqn:Ep.
  { destruct (frame_runners _ _ _ Ep H) as [Hr _]. rewrite Hr in Ht. auto. }
  destruct e; cbn in Ep; try discriminate Ep.
  - destruct (inv_AcceptCall _ _ _ H) as [Hi [[[_ [_ [Hr _]]]|[g [_ [_ [Hr _]]]]] _]]; rewrite Hr in Ht;
      upd_keep r; auto.
  - destruct (inv_AcceptEnd _ _ _ _ H) as [Ha [_ [_ Hr]]]. rewrite Hr in Ht. upd_keep r; auto.
  - destruct (inv_RunningSet _ _ _ H) as [_ [Hr _]]. rewrite Hr in Ht. upd_keep r; auto.
  - destruct (inv_ShutdownCall _ _ _ _ H) as [_ [_ Hr]]. rewrite Hr in Ht. upd_keep r; auto.
  - destruct (inv_ShutdownEnd _ _ _ _ H) as [_ [_ [_ Hr]]]. rewrite Hr in Ht. upd_keep r; auto.
  - destruct (inv_Sigint _ _ H) as [_ Hr]. destruct (guard s); rewrite Hr in Ht; auto. upd_keep r; auto.
  - (* Start *)
    step_inv H; simp_state; auto.
    all: try (upd_keep r; simp_state; auto).
    all: try (destruct f; simp_state; cbn in *; try discriminate;
              repeat match goal with [X : _ && _ = true |- _] => apply andb_prop in X; destruct X end;
              destruct Ht as [Ht|Ht]; auto;
              try (apply Nat.eqb_eq in Ht; subst; right; eauto 10)).
  - destruct (inv_Finish _ _ _ _ H) as [_ [_ [_ [_ [_ [_ [_ [[Hr _]|[_ [Hl Hr]]]]]]]]]]; rewrite Hr in Ht; auto.
    upd_keep r; auto. left. unfold finish_rec in Ht.
    destruct o; try destruct (p_flav (pay s p)); simp_state; auto;
      try match type of Ht with context[if ?c then _ else _] => destruct c end; simp_state; auto.
Qed.

Lemma thr_ok_step s e s' : thr_ok s -> step s e = Some s' -> thr_ok s'.
Proof.
  intros I H p Hs Hf Hx.
  destruct (started (p_st (pay s p))) eqn:Eold.
  - (* started before: identity data permanent, the thread set only grows, homes only appear on fresh threads *)
    destruct (started_perm _ _ _ _ H Eold) as [_ [A [B [C [D _]]]]]. rewrite A, D in *. rewrite B in Hf. rewrite C in Hx.
    destruct (I p Eold Hf Hx) as [I1 [I2 I3]]. split; [eapply thr_mono; eauto|].
    assert (G : home_tid (r_home_aio (run_ s' (p_owner (pay s p)))) (p_tid (pay s p)) = true \/
                home_tid (r_home_trio (run_ s' (p_owner (pay s p)))) (p_tid (pay s p)) = true -> False).
    { intros Ht. destruct (home_tid_step _ _ _ _ _ H Ht) as [[X|X]|[q [f [loop [other [ok [-> Hc]]]]]]]; try congruence.
      destruct (C11_home_not_a_payload_thread _ _ _ _ _ _ _ _ H Hc) as [N _]. contradiction. }
    split.
    + destruct (home_tid (r_home_aio (run_ s' (p_owner (pay s p)))) (p_tid (pay s p))) eqn:E; [exfalso; auto|reflexivity].
    + destruct (home_tid (r_home_trio (run_ s' (p_owner (pay s p)))) (p_tid (pay s p))) eqn:E; [exfalso; auto|reflexivity].
  - (* started by this very event *)
    destruct (started_only_by_start _ _ _ _ H Eold Hs) as [f [tid [loop [other [ok ->]]]]].
    destruct (inv_Start_pay _ _ _ _ _ _ _ _ H) as [_ [Ef [_ [r [_ [Hu [Hn [_ Hp]]]]]]]].
    rewrite Hp, upd_same in *. simp_state.
    assert (Hb : background s p) by (unfold background; exact Hx).
    rewrite Hf in H.
    destruct (C11_threads_elsewhere _ _ _ _ _ _ _ H Hb) as [_ [_ [Hin Hhome]]].
    split; [exact Hin|].
    assert (Hrun : run_ s' = run_ s).
    { clear - H. step_inv H; simp_state; try reflexivity; try discriminate. }
    rewrite Hrun. apply Hhome; auto.
Qed.

Lemma thr_ok_run tr s : run init tr = Some s -> thr_ok s.
Proof. intros H. eapply (run_inv thr_ok thr_ok_step); [|exact H]. intros p Hs. discriminate Hs. Qed.

(* invariant form of "thread payloads run outside these two threads" *)
Lemma C11_threads_outside_homes tr s p :
  run init tr = Some s -> started (p_st (pay s p)) = true -> p_flav (pay s p) = Thr -> background s p ->
  home_tid (r_home_aio (run_ s (p_owner (pay s p)))) (p_tid (pay s p)) = false
  /\ home_tid (r_home_trio (run_ s (p_owner (pay s p)))) (p_tid (pay s p)) = false.
Proof. intros H A B C. destruct (thr_ok_run _ _ H p A B C) as [_ R]. exact R. Qed.
